"""The repository's own fine-grained scenarios (test-data/unit/fine-grained*.test) replayed on a real
dmypy Server, EXPECTED OUTPUTS IGNORED: after every step the response is compared with a fresh,
non-incremental build of the files as they are (C03).  Besides the case's own step order (forward) every
case is also run there-and-back (1..n, n-1..1: every edit undone again) -- histories the repository's
suite does not contain.

Phase 1 (one forked child): a Server, one request per step; after each step the file tree is snapshotted.
Phase 2 (one forked child per step): a fresh build.build on the snapshot with the same options.
The layout mirrors mypy/test/testfinegrained.py (files under tmp/, main as __main__, every file of the
directory is a source unless a `# cmd:` line says otherwise, follow_imports=error unless flagged)."""
from __future__ import annotations

import json
import os
import re
import shutil
import sys
from typing import Any

from harness.common import REPO
from harness import corpus as C

FG_FILES = ("fine-grained.test", "fine-grained-modules.test", "fine-grained-blockers.test", "fine-grained-cycles.test",
            "fine-grained-follow-imports.test", "fine-grained-attr.test", "fine-grained-dataclass.test",
            "fine-grained-dataclass-transform.test", "fine-grained-python312.test")


# Scenarios of our own in the corpus format: a name used in TYPE positions only, one position per definition, is removed
# and comes back (every position needs its own fine-grained dependency).
_TP_M = (
    "import n\nfrom typing import Optional, Callable, TypeVar, Union, List, Tuple, Type\nfrom typing_extensions import TypeGuard, TypeIs\n"
    "def is_a(x: object) -> TypeGuard[n.A]:\n    return True\n"
    "def is_a2(x: object) -> TypeIs[n.A]:\n    return True\n"
    "def ret() -> Optional[n.A]:\n    return None\n"
    "def arg(x: Union[n.A, int]) -> None:\n    pass\n"
    "T = TypeVar('T', bound=n.A)\n"
    "def cb(fn: Callable[[n.A], None]) -> None:\n    pass\n"
    "def lst(x: List[n.A]) -> None:\n    pass\n"
    "def tup(x: Tuple[n.A, int]) -> None:\n    pass\n"
    "def typ(x: Type[n.A]) -> None:\n    pass\n"
    "v1: Optional[n.A] = None\n"
    "def loc() -> None:\n    y: Optional[n.A] = None\n"
    "class H:\n    attr: Optional[n.A] = None\n    def m(self, p: 'n.A') -> None:\n        pass\n"
)
EXTRA_CASES: list[dict[str, Any]] = [
    {"name": "verifTypePositions", "file": "<verif>", "main": "import m\n", "deletes": [], "builtins": "fixtures/isinstancelist.pyi", "typing": None, "skip": None,
     "files": {"m.py": _TP_M, "n.py": "class A:\n    pass\n", "n.py.2": "class B:\n    pass\n", "n.py.3": "class A:\n    pass\nclass B:\n    pass\n"}},
    {"name": "verifTypePositionsKind", "file": "<verif>", "main": "import m\n", "deletes": [], "builtins": "fixtures/isinstancelist.pyi", "typing": None, "skip": None,
     "files": {"m.py": _TP_M, "n.py": "class A:\n    pass\n", "n.py.2": "A = 1\n", "n.py.3": "class A:\n    pass\n"}},
]


def fg_cases() -> list[dict[str, Any]]:
    out = [dict(c) for c in EXTRA_CASES]
    d = os.path.join(REPO, "test-data", "unit")
    for fn in FG_FILES:
        p = os.path.join(d, fn)
        if not os.path.exists(p):
            continue
        for c in C.parse_cases(p):
            c["file"] = fn
            out.append(c)
    return out


def skip_reason(case: dict[str, Any]) -> str | None:
    text = case["main"]
    n = case["name"]
    if n.endswith(("-skip", "-xfail", "-posix", "-windows", "-only_when_cache", "-skip_path_normalization")):
        return "skipped by the repository / cache-only"
    if "# suggest" in text or "# inspect" in text or "plugin" in text or any("plugin" in k or "mypy.ini" in k or "pyproject.toml" in k for k in case["files"]):
        return "suggest / inspect / plugins / config files"
    if re.search(r"# flags\d*:.*(--config-file|--cache-dir|--shadow-file|--junit)", text):
        return "flags move config / cache"
    return None


def _options(text: str, step: int, daemon: bool) -> Any:
    from mypy.main import process_options

    m = re.search(r"# flags: (.*)$", text, flags=re.M)
    m2 = re.search(r"# flags%d: (.*)$" % step, text, flags=re.M) if step > 1 else None
    flags = (m2 or m).group(1).split() if (m2 or m) else []
    flags = [f for f in flags if f not in ("-v", "-vv", "--verbose")]
    _, o = process_options(flags + ["--no-site-packages"], require_targets=False)
    o.use_builtins_fixtures = True
    o.show_traceback = True
    o.error_summary = False
    o.local_partial_types = True
    o.allow_empty_bodies = True
    o.reveal_verbose_types = True
    o.hide_error_codes = "--show-error-codes" not in flags
    if not any(f.startswith("--python-version") for f in flags):
        o.python_version = (3, 12)
    if not re.search(r"flags:.*--follow-imports", text):
        o.follow_imports = "error"
    if daemon:
        o.incremental = True
        o.fine_grained_incremental = True
        o.cache_dir = os.devnull
    else:
        o.incremental = False
        o.fine_grained_incremental = False
        o.cache_dir = os.devnull
    return o


def _sources(text: str, step: int, options: Any) -> list[Any]:
    from mypy.find_sources import create_source_list
    from mypy.modulefinder import BuildSource

    m = re.search(r"# cmd: mypy ([a-zA-Z0-9_./ ]+)$", text, flags=re.M)
    alt = re.search(r"# cmd%d: mypy ([a-zA-Z0-9_./ ]+)$" % step, text, flags=re.M)
    m = alt or m
    if m:
        return create_source_list([os.path.join("tmp", p) for p in m.group(1).strip().split()], options)
    return [BuildSource(os.path.join("tmp", "main"), "__main__", None)] + create_source_list(["tmp"], options, allow_empty_dir=True)


def _fork(fn: Any) -> Any:
    rfd, wfd = os.pipe()
    sys.stdout.flush(); sys.stderr.flush()
    pid = os.fork()
    if pid == 0:
        os.close(rfd)
        try:
            try:
                res = fn()
            except BaseException as e:
                import traceback
                res = {"crash": "".join(traceback.format_exception(type(e), e, e.__traceback__))[-2500:]}
            with os.fdopen(wfd, "w") as f:
                json.dump(res, f)
        finally:
            os._exit(0)
    os.close(wfd)
    with os.fdopen(rfd) as f:
        data = f.read()
    os.waitpid(pid, 0)
    return json.loads(data) if data else {"crash": "child died"}


def _apply(tmp: str, on_disk: dict[str, str], target: dict[str, str], tick: list[int]) -> None:
    for k in sorted(set(on_disk) - set(target)):
        p = os.path.join(tmp, k)
        if os.path.exists(p):
            os.unlink(p)
        del on_disk[k]
    for k, v in target.items():
        if on_disk.get(k) != v:
            p = os.path.join(tmp, k)
            os.makedirs(os.path.dirname(p), exist_ok=True)
            with open(p, "w", encoding="utf8") as f:
                f.write(v)
            tick[0] += 1
            t = 1_000_000 + tick[0] * 10
            os.utime(p, (t, t))
            on_disk[k] = v


def run_fg_case(case: dict[str, Any], root: str, order: str = "forward") -> dict[str, Any]:
    """order: forward / back / reverse, or 'cache': the files of step 1 are first checked by an ordinary batch build that
    writes a fine-grained cache (`--cache-fine-grained`), the daemon then starts FROM THAT CACHE (use_fine_grained_cache)
    and serves the case's steps 1..n. As in the repository's own cache-mode suite only cases whose first step is
    error-free are run this way (a cache built from a state with errors loses them: a recorded finding of the D catalogue)."""
    out: dict[str, Any] = {"name": case["name"], "file": case.get("file", ""), "order": order, "steps": 0, "violation": None, "skipped": skip_reason(case), "nontrivial": False}
    if out["skipped"]:
        return out
    use_cache = order == "cache"
    if use_cache and (case["name"].endswith("-only_when_nocache") or "num_build_steps" in case["main"]):
        out["skipped"] = "not meant for cache mode"
        return out
    text = case["main"]
    states = C.states_of(case)
    n = len(states)
    seq = list(range(1, n + 1))
    if order == "back":
        if n < 2:
            out["skipped"] = "single step"
            return out
        seq = seq + seq[-2::-1]
    elif order == "reverse":
        seq = seq[::-1]
    os.makedirs(os.path.join(root, "tmp"), exist_ok=True)
    fixtures = {}
    for fx, name in ((case["builtins"], "builtins.pyi"), (case["typing"], "typing.pyi")):
        if fx:
            with open(os.path.join(REPO, "test-data", "unit", fx), encoding="utf8") as f:
                fixtures[name] = f.read()

    def daemon() -> dict[str, Any]:
        os.chdir(root)
        from mypy.dmypy_server import Server

        tick = [1000]
        on_disk: dict[str, str] = {}
        resps = []
        dopts = _options(text, 1, True)
        if use_cache:
            _apply("tmp", on_disk, dict(states[seq[0] - 1], **fixtures), tick)

            def batch() -> dict[str, Any]:
                import mypy.build as B
                from mypy.errors import CompileError
                bo = _options(text, 1, False)
                bo.incremental = True
                bo.cache_fine_grained = True
                bo.cache_dir = os.path.join(root, "fgcache")
                bo.sqlite_cache = False
                try:
                    res = B.build(_sources(text, 1, bo), bo)
                    return {"messages": res.errors}
                except CompileError as e:
                    return {"messages": e.messages}

            b = _fork(batch)
            if b.get("crash") or b.get("messages"):
                return {"responses": [], "not_clean": True}
            dopts.use_fine_grained_cache = True
            dopts.cache_dir = os.path.join(root, "fgcache")
            dopts.sqlite_cache = False
        server = Server(dopts, os.path.join(root, ".status.json"))
        for pos, step in enumerate(seq):
            _apply("tmp", on_disk, dict(states[step - 1], **fixtures), tick)
            shutil.copytree("tmp", "snap%d" % pos)
            try:
                srcs = _sources(text, step, server.options)
                r = server.check(srcs, export_types=False, is_tty=False, terminal_width=-1)
                resps.append({"out": r.get("out", ""), "err": r.get("err", ""), "status": r.get("status")})
            except BaseException as e:
                import traceback
                resps.append({"crash": "".join(traceback.format_exception(type(e), e, e.__traceback__))[-2000:], "out": "", "err": "", "status": 3})
                break
        return {"responses": resps}

    d = _fork(daemon)
    if d.get("not_clean"):
        out["skipped"] = "first step not error-free (cache mode)"
        return out
    if d.get("crash"):
        out["skipped"] = "harness could not run the daemon: " + d["crash"][-300:]
        return out
    for pos, resp in enumerate(d["responses"]):
        step = seq[pos]

        def fresh() -> dict[str, Any]:
            os.chdir(root)
            if os.path.exists("tmp"):
                shutil.rmtree("tmp")
            shutil.copytree("snap%d" % pos, "tmp", copy_function=shutil.copy2)
            import mypy.build as B
            from mypy.errors import CompileError

            o = _options(text, step, False)
            try:
                srcs = _sources(text, step, o)
            except BaseException as e:      # InvalidSourceList etc.: no fresh run to compare with
                return {"messages": [str(e)], "status": 2, "source_error": True}
            if any(x.path and not os.path.exists(x.path) for x in srcs):
                # a file named on the command line does not exist: batch mypy refuses to run, the daemon by design
                # carries on with the others -- no fresh run to compare with
                return {"messages": [], "status": 2, "source_error": True}
            try:
                res = B.build(srcs, o)
                msgs = res.errors
                st = 1 if any(": error:" in m for m in msgs) else 0
            except CompileError as e:
                msgs, st = e.messages, 2
            return {"messages": msgs, "status": st}

        f = _fork(fresh)
        out["steps"] += 1
        if f.get("crash"):
            out["skipped"] = "harness cannot run this step fresh: " + f["crash"][-300:]
            return out
        if f.get("source_error"):
            continue
        got = [l for l in (resp.get("out", "") + resp.get("err", "")).splitlines() if l.strip()]
        # by design the daemon omits the hint to run `mypy --install-types` (modulefinder.error_message_templates(daemon))
        f["messages"] = [m for m in f["messages"] if '(or run "mypy --install-types"' not in m]
        if resp.get("crash") or _norm(got, resp.get("status")) != _norm(f["messages"], f["status"]):
            gs, fs = set(got), set(f["messages"])
            out["violation"] = "step %d (position %d of %s): daemon status %s, fresh status %s; only daemon %r ; only fresh %r %s" % (
                step, pos + 1, seq, resp.get("status"), f["status"], sorted(gs - fs)[:3], sorted(fs - gs)[:3], (resp.get("crash") or "")[-400:])
            out["at"] = seq[: pos + 1]
            import hashlib
            strip = lambda m: re.sub(r"^[^:]+:\d+: ", "", m)
            out["digest"] = hashlib.sha256(json.dumps([sorted(strip(m) for m in gs - fs), sorted(strip(m) for m in fs - gs), resp.get("status"), f["status"]]).encode()).hexdigest()[:8]
            return out
        if pos > 0 and got:
            out["nontrivial"] = True
    return out


def _norm(msgs: list[str], status: Any) -> tuple[Any, ...]:
    per: dict[str, list[str]] = {}
    for m in msgs:
        per.setdefault(m.split(":", 1)[0], []).append(m)
    return (status, tuple(sorted((f, tuple(v)) for f, v in per.items())))
