# Inert unless PYTHON_MYPY_VERIF=1.  Loaded by mypy's parallel build workers (and any other python
# subprocess whose PYTHONPATH starts with this directory) to install, from OUTSIDE the repository:
#   * a gate in front of every SccResponseMessage a worker sends (VERIF_GATE_DIR): the worker announces
#     "<pid>.<n>.ready" and blocks until the driver creates "<pid>.<n>.go"  -> deterministic schedules;
#   * optional fault injection in the worker's metadata store (VERIF_WORKER_FAULT="<ordinal>:kill:<k>" or
#     "<ordinal>:fail:<i>") where ordinal is the worker's start order (VERIF_WORKER_ORDINAL_DIR).
import os

if os.environ.get("PYTHON_MYPY_VERIF") == "1" and os.environ.get("VERIF_GATE_DIR"):
    import sys

    def _install():
        try:
            import mypy.build_worker.worker as W
            import mypy.build as B
        except Exception:
            return
        gate = os.environ["VERIF_GATE_DIR"]
        orig = W.timed_send
        state = {"n": 0}

        def timed_send(manager, server, message):
            import time
            state["n"] += 1
            tag = "%d.%d" % (os.getpid(), state["n"])
            phase = "iface" if message.is_interface else "impl"
            tmp = os.path.join(gate, tag + ".tmp")
            with open(tmp, "w") as f:
                f.write(phase + " " + ",".join(map(str, message.scc_ids)) + (" blocker" if message.blocker is not None else ""))
            os.rename(tmp, os.path.join(gate, tag + ".ready"))
            go = os.path.join(gate, tag + ".go")
            t0 = time.time()
            while not os.path.exists(go):
                if time.time() - t0 > 120:
                    break
                time.sleep(0.001)
            return orig(manager, server, message)

        W.timed_send = timed_send
        fault = os.environ.get("VERIF_WORKER_FAULT")
        if fault:
            # worker ordinal = order in which worker processes registered themselves
            odir = os.environ["VERIF_GATE_DIR"]
            ordinal = None
            for i in range(64):
                try:
                    fd = os.open(os.path.join(odir, "ordinal.%d" % i), os.O_CREAT | os.O_EXCL | os.O_WRONLY)
                    os.close(fd)
                    ordinal = i
                    break
                except FileExistsError:
                    continue
            want, kind, k = fault.split(":")
            if ordinal is not None and int(want) == ordinal:
                k = int(k)
                orig_create = B.create_metastore
                cnt = {"ops": 0, "writes": 0}

                def create(options, parallel_worker=False):
                    inner = orig_create(options, parallel_worker)
                    from mypy.metastore import MetadataStore

                    class FaultStore(MetadataStore):
                        def _op(self):
                            cnt["ops"] += 1
                            if kind == "kill" and cnt["ops"] >= k:
                                with open(os.path.join(odir, "killed.%d" % os.getpid()), "w") as f:
                                    f.write(str(cnt["ops"]))
                                os._exit(9)

                        def getmtime(self, name): return inner.getmtime(name)
                        def read(self, name): return inner.read(name)

                        def write(self, name, data, mtime=None):
                            cnt["writes"] += 1
                            if kind == "fail" and cnt["writes"] == k:
                                self._op()
                                return False
                            ok = inner.write(name, data, mtime)
                            self._op()
                            return ok

                        def remove(self, name):
                            try:
                                inner.remove(name)
                            finally:
                                self._op()

                        def commit(self):
                            inner.commit(); self._op()

                        def commit_path(self, name):
                            inner.commit_path(name); self._op()

                        def list_all(self): return inner.list_all()
                        def close(self): inner.close()

                    return FaultStore()

                B.create_metastore = create

    import importlib.abc
    import importlib.machinery

    class _F(importlib.abc.MetaPathFinder):
        def find_spec(self, name, path, target=None):
            if name == "mypy.build_worker.worker":
                sys.meta_path.remove(self)
                spec = importlib.machinery.PathFinder.find_spec(name, path)
                if spec and spec.loader:
                    ld = spec.loader
                    orig_exec = ld.exec_module

                    def exec_module(mod):
                        orig_exec(mod)
                        _install()

                    ld.exec_module = exec_module
                return spec
            return None

    sys.meta_path.insert(0, _F())
