"""Runs, under the PYTHONHASHSEED of this interpreter, a list of C10 configurations; one forked child
per configuration, inside which the prior builds and the measured build share one interpreter."""
from __future__ import annotations

import hashlib
import json
import os

os.environ["VERIF_NO_ROUNDTRIP"] = "1"  # the record round-trip binding (world._hook_roundtrip) belongs to C02
import shutil
import sys
import tempfile
from typing import Any

from harness import world as W

WORLDS: dict[str, dict[str, str]] = {
    "rich": {
        "e1.py": "class E1:\n    x: int = 0\n",
        "e2.py": "class E2:\n    x: str = ''\n",
        "e3.py": "class E3: pass\nclass E4: pass\n",
        "d.py": "from typing import Union\nfrom e1 import E1 as E1\nfrom e2 import E2 as E2\nfrom e3 import E3 as E3, E4 as E4\nimport missing1\nimport missing2\n"
                "def mk() -> Union[E1, E2, E3, E4]: ...\n",
        "c.py": "import d\nimport missing3\nv = d.mk()\ndef f() -> int:\n    return v\nclass K(d.E1): pass\n",
        "b.py": "import c\nw: int = c.K().x\nz: str = c.K().x\nu = c.v\ndef g() -> None:\n    u.x\n    u.y\n",
        "a.py": "import b\nimport c\nq: str = b.u\nr = c.f()\ns: str = r\n",
    },
    "chain": {"a.py": W.MVARIANTS["a"]["use"], "b.py": W.MVARIANTS["b"]["reexport"], "c.py": W.MVARIANTS["c"]["c[1,0]"]},
    "errors": {
        "c.py": "def f(x: int) -> str:\n    return x\n\nclass C:\n    def m(self) -> int:\n        return ''\n    def m(self) -> int:\n        return 1\n",
        "b.py": "from c import f, C, nope\nimport nowhere\nf('')\nf(1, 2)\nC().zzz\n",
        "a.py": "import b\nimport c\nx: int = c.f(1)\nreveal_type(c.C().m())\n",
    },
    # an import cycle in which every module has diagnostics (hash seed must not order the replayed blocks of a warm run)
    "cycle": {
        "a.py": "import b\nimport d\ndef fa() -> int:\n    return b.fb()\nxa: str = 1\n",
        "b.py": "import c\ndef fb() -> str:\n    return c.fc()\nxb: int = ''\n",
        "c.py": "import d\ndef fc() -> int:\n    return d.fd()\nxc: str = 2\n",
        "d.py": "import a\ndef fd() -> str:\n    return a.fa()\nxd: int = ''\n",
        "e.py": "import f\nxe: int = f.xf\n",
        "f.py": "import e\nxf: str = e.xe\nreveal_type(e.xe)\n",
    },
    # misspelt standard-library imports: the 'Did you mean' suggestions depend on the TARGET version of this build only
    "typo": {
        "a.py": "import b\nimport distutil\nimport tomlib\n",
        "b.py": "import c\nimport asyncor\nimport imp_\nfrom zoneinf import ZoneInfo\n",
        "c.py": "import graphlb\nx: int = ''\n",
    },
    # diagnostics that LIST names (abstract attributes, protocol members, TypedDict keys, overlapping parameter names) and a
    # call whose result depends on the inference mode; checked against the bundled typeshed
    "lists": {
        "c.py": (
            "from typing import Callable, TypeVar, List, Protocol, TypedDict\n"
            "from abc import ABC, abstractmethod\n"
            "T = TypeVar('T'); S = TypeVar('S'); U = TypeVar('U')\n"
            "def dec(f: Callable[[T], S]) -> Callable[[T], List[S]]:\n    raise NotImplementedError\n"
            "def ident(x: U) -> U:\n    return x\n"
            "class Abs(ABC):\n" + "".join("    @abstractmethod\n    def m%d(self) -> None: ...\n" % i for i in range(1, 6)) +
            "class P(Protocol):\n" + "".join("    def p%d(self) -> int: ...\n" % i for i in range(1, 6)) +
            "class TD(TypedDict):\n" + "".join("    k%d: int\n" % i for i in range(1, 6)) +
            "class Empty:\n    pass\n"
        ),
        "b.py": (
            "import c\nfrom typing_extensions import Unpack\n"
            "reveal_type(c.dec(c.ident))\n"
            "c.Abs()\n"
            "x: c.P = c.Empty()\n"
            "td: c.TD = {}\n"
            "td2: c.TD = {'k1': 1, 'k2': 1, 'k3': 1, 'k4': 1, 'k5': 1, 'z1': 1, 'z2': 2, 'z3': 3, 'z4': 4}\n"
            "def kw(k1: int, k2: int, k3: int, k4: int, **kwargs: Unpack[c.TD]) -> None: ...\n"
            "class Half(c.Abs):\n    def m2(self) -> None: ...\nHalf()\n"
        ),
        "a.py": "import b\nimport c\nv: int = c.ident('')\nw = c.dec(c.ident)\nreveal_type(w)\n",
    },
}
FILES = ["a.py", "b.py", "c.py"]
SLOW_WORLDS = {"lists"}
MEASURED_OPTS: dict[str, dict[str, Any]] = {"default": {}, "oldinf": {"old_type_inference": True}}
PRIOR_OPTS: dict[str, dict[str, Any]] = {
    "same": {},
    "py310": {"python_version": (3, 10)},
    "win311loose": {"python_version": (3, 11), "platform": "win32", "strict_optional": False, "allow_redefinition": True},
}


def materialise(root: str, wname: str) -> None:
    os.makedirs(root, exist_ok=True)
    for i, (fn, txt) in enumerate(sorted(WORLDS[wname].items())):
        with open(os.path.join(root, fn), "w") as f:
            f.write(txt)
        t = 1_000_000 + (i + 1) * 10
        os.utime(os.path.join(root, fn), (t, t))


def digest_cache(cache: str) -> tuple[str, dict[str, str]]:
    per: dict[str, str] = {}
    for dp, _, fns in os.walk(cache):
        for fn in fns:
            p = os.path.join(dp, fn)
            rel = os.path.relpath(p, cache)
            if fn in (".gitignore", "CACHEDIR.TAG"):
                continue
            with open(p, "rb") as f:
                per[rel] = hashlib.sha256(f.read()).hexdigest()[:16]
    h = hashlib.sha256(json.dumps(per, sort_keys=True).encode()).hexdigest()[:16]
    return h, per


def one_config(cfg: dict[str, Any], base: str) -> dict[str, Any]:
    fmt = cfg.get("fmt", "ff")
    # prior builds: other worlds, each in its own directory, same interpreter
    for i, pe in enumerate(cfg["prior"]):
        pw, po = (pe["world"], pe["opts"]) if isinstance(pe, dict) else (pe, "same")
        pr = os.path.join(base, "prior%d" % i)
        materialise(pr, pw)
        W.build_in_process(pr, [(f, f[:-3]) for f in FILES], dict(cache_dir="cache", store="fs", fmt=fmt, alt_lib=".", **PRIOR_OPTS[po]), W.new_ctl(record=False))
    root = os.path.join(base, "main")
    materialise(root, cfg["world"])
    srcs = [(FILES[i - 1], FILES[i - 1][:-3]) for i in cfg["order"]]
    # every file is named on the command line (relative paths), so that no absolute path of the scratch
    # directory gets into the cache records (the path of an imported module is part of its interface hash)
    srcs += [(f, f[:-3]) for f in sorted(WORLDS[cfg["world"]]) if f not in FILES]
    ctl = W.new_ctl(tick=0, record=False)
    mkw = dict(cache_dir="cache", store="fs", fmt=fmt, alt_lib=".", **MEASURED_OPTS[cfg.get("mopts", "default")])
    if cfg["world"] in SLOW_WORLDS:
        mkw["real_typeshed"] = True
    out = W.build_in_process(root, srcs, dict(mkw), ctl)
    h, per = digest_cache(os.path.join(root, "cache"))
    # and a warm run in the same process: must print the same
    ctl2 = W.new_ctl(tick=ctl["tick"], record=False)
    warm = W.build_in_process(root, srcs, dict(mkw), ctl2)
    return {"messages": out["messages"], "status": out["status"], "cache": h, "records": per,
            "warm_messages": warm["messages"], "warm_status": warm["status"]}


def corpus_main() -> None:
    """c10_runner --corpus in.json out.json: outputs of corpus cases under the hash seed of this interpreter."""
    from harness import corpus as C

    cases = json.load(open(sys.argv[2]))
    W.preload()
    res = []
    seed = int(os.environ.get("PYTHONHASHSEED", "0") or 0)
    for case in cases:
        # same LENGTH of the scratch path under every seed: cache records are compared with the path blanked out
        # the SAME scratch path under every seed (seeds run one after the other): interface hashes cover the absolute
        # path of modules found through the search path
        base = os.path.join(os.environ.get("VERIF_SCRATCH") or tempfile.gettempdir(), "c10c-%05d" % case.get("idx", 0))
        shutil.rmtree(base, ignore_errors=True)
        os.makedirs(base)
        try:
            res.append(C.outputs_case(case, base))
        except BaseException as e:
            res.append({"name": case["name"], "file": case.get("file", ""), "skipped": "harness error %r" % (e,)})
        shutil.rmtree(base, ignore_errors=True)
    json.dump(res, open(sys.argv[3], "w"))


def main() -> None:
    if sys.argv[1] == "--corpus":
        return corpus_main()
    cfgs = json.load(open(sys.argv[1]))
    W.preload()
    results = []
    for cfg in cfgs:
        base = tempfile.mkdtemp(prefix="c10-", dir=os.environ.get("VERIF_SCRATCH") or None)
        rfd, wfd = os.pipe()
        pid = os.fork()
        if pid == 0:
            os.close(rfd)
            try:
                try:
                    res = one_config(cfg, base)
                except BaseException as e:
                    import traceback
                    res = {"crash": "".join(traceback.format_exception(type(e), e, e.__traceback__))[-2000:]}
                with os.fdopen(wfd, "w") as f:
                    json.dump(res, f)
            finally:
                os._exit(0)
        os.close(wfd)
        with os.fdopen(rfd) as f:
            data = f.read()
        os.waitpid(pid, 0)
        shutil.rmtree(base, ignore_errors=True)
        results.append({"cfg": cfg, "res": json.loads(data) if data else {"crash": "no result"}})
    json.dump(results, open(sys.argv[2], "w"))


if __name__ == "__main__":
    main()
