"""The World catalogue and the instrumented runner shared by C02 C04 C07 C09 C10 (DESIGN App. A/B).

* catalogue: modules a/b/c (+ extensions) with content variants;
* materialise(): writes a world into a directory under a *logical clock* (integer mtimes);
* run_build(): one mypy build in a forked child (a fresh process image per run, like separate
  command-line invocations), in-process `build.build` with the test fixtures, through a
  recording / fault-injecting proxy around the real MetadataStore:
    - every store operation is recorded (seq, op, record, tick, ok) after it happened,
    - writes get a strictly increasing logical mtime through the store's own `mtime=` parameter,
    - `kill_after=k`  : the child dies with os._exit right after its k-th store operation
                        (a real process death: sqlite's uncommitted transaction is really lost),
    - `fail_writes={i}`: the i-th write returns False without writing (as a failed os.replace);
  freshness verdicts of find_stale_sccs are recorded too.
"""
from __future__ import annotations

import json
import os
import shutil
import sys
from typing import Any

# ----------------------------------------------------------------------------- catalogue
VARIANTS: dict[str, dict[str, str | None]] = {
    "c": {
        "c0": "def f() -> int:\n    return 1\n\nclass K:\n    x: int = 0\n",
        "c1": "def f() -> str:\n    return ''\n\nclass K:\n    x: int = 0\n",
        "c2": "def f() -> int:\n    return 1\n\nclass K:\n    x: str = ''\n",
        "c3": "def f( -> int:\n    return 1\n",
        "c4": "def f() -> int:\n    return ''\n\nclass K:\n    x: int = 0\n",
        "c-": None,
        # the same interfaces with an import cycle b <-> c (c imports b inside a function): one SCC {b, c}
        "c5": "def f() -> int:\n    return 1\n\nclass K:\n    x: int = 0\n\ndef cyc() -> None:\n    import b\n",
        "c6": "def f() -> str:\n    return ''\n\nclass K:\n    x: int = 0\n\ndef cyc() -> None:\n    import b\n",
        "c7": "def f() -> int:\n    return 1\n\nclass K:\n    x: str = ''\n\ndef cyc() -> None:\n    import b\n",
    },
    "b": {
        "b0": "from c import f as f, K as K\n",
        "b1": "import c\ny = c.f()\n\nclass L(c.K):\n    pass\n",
        "b2": "import c\n\ndef g() -> int:\n    return c.f()\n",
        "b3": "def f() -> int:\n    return 0\n\ndef g() -> int:\n    return 0\n\ny: int = 0\n\nclass K:\n    x: int = 0\n\nclass L:\n    x: int = 0\n",
    },
    "a": {
        "a0": "import b\nv: int = b.f()\n",
        "a1": "from b import y\nw: int = y\n",
        "a2": "import b\nz: int = b.K().x\n",
        "a3": "import b\nq: int = b.L().x\n",
        "a4": "import b\n\ndef h() -> int:\n    return b.g()\n",
    },
}
# extensions used by the richer (thorough / C03 / C10) catalogues
EXT_VARIANTS: dict[str, dict[str, str | None]] = {
    "c.pyi": {"s-": None, "s0": "def f() -> int: ...\nclass K:\n    x: int\n", "s1": "def f() -> str: ...\nclass K:\n    x: str\n"},
    "d": {"d-": None, "d0": "import a\nimport c\nu: int = c.f()\n", "d1": "from b import *\n", "d2": "import a\nimport p.x\n"},
    # a package whose submodule is only reachable when somebody imports it
    "p/__init__": {"p-": None, "p0": ""},
    "p/x": {"x-": None, "x0": "class C:\n    n: int = 0\n", "x1": "class C:\n    n: str = ''\n"},
    "e": {"e-": None, "e0": "import p\nw: int = p.x.C().n\n"},
    # where b.py lives (a move keeps content and mtime): "" = next to a.py, else a sub-directory on mypy_path
    "@bdir": {"": "", "d1": "d1", "d2": "d2"},
    "b_cyc": {},
}
# Catalogue M: aligned one-to-one with spec/Incremental.tla's abstract contents
MVARIANTS: dict[str, dict[str, str]] = {
    "c": {
        "c[0,0]": "def f() -> int:\n    return 1\n",
        "c[1,0]": "def f() -> str:\n    return ''\n",
        "c[0,1]": "def f() -> int:\n    return 1 + ''\n",
        "c[1,1]": "def f() -> str:\n    return '' + 1\n",
    },
    "b": {
        "reexport": "from c import f as f\n",
        "infer": "import c\nf = c.f\n",
        "internal": "import c\n\ndef f() -> int:\n    return c.f()\n",
    },
    "a": {"use": "import b\nv: int = b.f()\n", "nouse": "import b\n"},
}
for _m, _vs in MVARIANTS.items():
    VARIANTS[_m].update(_vs)


def m_worlds() -> list[dict[str, str]]:
    return [{"a": a, "b": b, "c": c} for a in MVARIANTS["a"] for b in MVARIANTS["b"] for c in MVARIANTS["c"]]


def m_diag(w: dict[str, str]) -> set[str]:
    """Modules with an error in a from-scratch check, as spec/Incremental.tla's Diag."""
    ci, ce = int(w["c"][2]), int(w["c"][4])
    bc = {"reexport": 5, "infer": 10 + ci, "internal": 7}[w["b"]]
    res = ci if bc == 5 else (bc - 10 if bc >= 10 else 0)
    d = set()
    if ce:
        d.add("c")
    if w["b"] == "internal" and ci == 1:
        d.add("b")
    if w["a"] == "use" and res == 1:
        d.add("a")
    return d


MODS = ["a", "b", "c"]
DEFAULT = {"a": "a0", "b": "b0", "c": "c0"}


def all_worlds() -> list[dict[str, str]]:
    return [{"a": a, "b": b, "c": c} for a in VARIANTS["a"] for b in VARIANTS["b"] for c in VARIANTS["c"]]


def text_of(mod: str, vid: str) -> str | None:
    if mod == "@bdir":
        return vid
    if mod in VARIANTS and vid in VARIANTS[mod]:
        return VARIANTS[mod][vid]
    return EXT_VARIANTS[mod][vid]


def path_of(mod: str) -> str:
    return mod if mod.endswith(".pyi") else mod + ".py"


class Tree:
    """A materialised world with a logical clock."""

    def __init__(self, root: str) -> None:
        self.root = root
        self.tick = 1000
        self.world: dict[str, str] = {}
        os.makedirs(root, exist_ok=True)

    def next_tick(self) -> int:
        self.tick += 1
        return self.tick

    def bpath(self) -> str:
        d = self.world.get("@bdir", "")
        return os.path.join(d, "b.py") if d else "b.py"

    def sources(self, roots: list[str] | None = None) -> list[tuple[str, str]]:
        """Source list: the roots (default a, plus d / e when present); b is listed explicitly when it lives in a sub-directory."""
        res = []
        for m in (roots or ["a", "d", "e"]):
            if os.path.exists(os.path.join(self.root, m + ".py")):
                res.append((m + ".py", m))
        if self.world.get("@bdir"):
            res.append((self.bpath(), "b"))
        return res

    def set(self, mod: str, vid: str, touch_only: bool = False) -> None:
        if mod == "@bdir":
            old = self.bpath()
            self.world["@bdir"] = vid
            new = self.bpath()
            if old != new and os.path.exists(os.path.join(self.root, old)):
                os.makedirs(os.path.dirname(os.path.join(self.root, new)) or self.root, exist_ok=True)
                os.rename(os.path.join(self.root, old), os.path.join(self.root, new))     # content and mtime unchanged
            return
        p = os.path.join(self.root, self.bpath() if mod == "b" else path_of(mod))
        os.makedirs(os.path.dirname(p), exist_ok=True)
        txt = text_of(mod, vid)
        if txt is None:
            if os.path.exists(p):
                os.unlink(p)
            self.world.pop(mod, None)
            return
        if not touch_only or not os.path.exists(p):
            with open(p, "w") as f:
                f.write(txt)
        t = 1_000_000 + self.next_tick() * 10
        os.utime(p, (t, t))
        self.world[mod] = vid

    def apply(self, world: dict[str, str]) -> None:
        for mod, vid in sorted(world.items()):     # "@bdir" first
            if self.world.get(mod) != vid or (text_of(mod, vid) is None and mod in self.world):
                self.set(mod, vid)


# ----------------------------------------------------------------------------- store proxy
def _make_store_proxy(inner: Any, ctl: dict[str, Any]) -> Any:
    from mypy.metastore import MetadataStore

    class RecStore(MetadataStore):
        def _count(self, op: str, name: str, tick: int, ok: bool) -> None:
            ctl["nops"] += 1
            if ctl["record"]:
                ctl["trace"].append({"ev": "store", "seq": ctl["nops"], "op": op, "rec": name, "tick": tick, "ok": ok})
            if ctl["kill_after"] is not None and ctl["nops"] >= ctl["kill_after"]:
                ctl["on_kill"]()

        def getmtime(self, name: str) -> float:
            return inner.getmtime(name)

        def read(self, name: str) -> bytes:
            return inner.read(name)

        def write(self, name: str, data: bytes, mtime: float | None = None) -> bool:
            ctl["nwrites"] += 1
            ctl["tick"] += 1
            tick = ctl["tick"]
            if ctl["nwrites"] in ctl["fail_writes"]:
                self._count("write", name, tick, False)
                return False
            ok = inner.write(name, data, mtime=float(1_000_000 + tick * 10))
            self._count("write", name, tick, ok)
            return ok

        def remove(self, name: str) -> None:
            try:
                inner.remove(name)
            finally:
                self._count("remove", name, 0, True)

        def commit(self) -> None:
            inner.commit()
            self._count("commit", "*", 0, True)

        def commit_path(self, name: str) -> None:
            inner.commit_path(name)
            self._count("commit_path", name, 0, True)

        def list_all(self) -> Any:
            return inner.list_all()

        def close(self) -> None:
            inner.close()

    return RecStore()


CONFIGS = [("fs", "ff"), ("fs", "json"), ("sqlite", "ff"), ("sqlite", "json")]


def make_options(root: str, cache_dir: str | None, store: str = "fs", fmt: str = "ff", **extra: Any) -> Any:
    from mypy.options import Options

    o = Options()
    o.use_builtins_fixtures = True
    o.python_version = (3, 12)
    o.show_traceback = True
    o.error_summary = False
    if cache_dir is None:
        o.incremental = False
        o.cache_dir = os.devnull
    else:
        o.incremental = True
        o.cache_dir = cache_dir
        o.sqlite_cache = store == "sqlite"
        o.fixed_format_cache = fmt == "ff"
    for k, v in extra.items():
        setattr(o, k, v)
    return o


def build_in_process(root: str, sources: list[tuple[str, str]], opts_kw: dict[str, Any], ctl: dict[str, Any]) -> dict[str, Any]:
    """One build in THIS process (used by the forked child of run_build, and directly by C10 to
    run several builds in one interpreter)."""
    out: dict[str, Any] = {"killed": False}
    opts_kw = dict(opts_kw)
    os.chdir(root)
    import mypy.build as B
    from mypy.errors import CompileError
    from mypy.modulefinder import BuildSource

    orig_create = getattr(B, "_verif_orig_create_metastore", None) or B.create_metastore
    B._verif_orig_create_metastore = orig_create  # type: ignore[attr-defined]

    def create(options: Any, parallel_worker: bool = False) -> Any:
        return _make_store_proxy(orig_create(options, parallel_worker), ctl)

    B.create_metastore = create  # type: ignore[assignment]
    user = set(ctl["user_mods"]) if ctl["user_mods"] is not None else None
    orig_fss = getattr(B, "_verif_orig_find_stale_sccs", None) or B.find_stale_sccs
    B._verif_orig_find_stale_sccs = orig_fss  # type: ignore[attr-defined]

    def fss(sccs: Any, graph: Any, manager: Any) -> Any:
        stale, fresh = orig_fss(sccs, graph, manager)
        if ctl["record"]:
            for kind, lst in (("fresh", fresh), ("stale", stale)):
                for s in lst:
                    for m in sorted(s.mod_ids):
                        if user is None or m in user:
                            ctl["trace"].append({"ev": kind, "mod": m})
        return stale, fresh

    B.find_stale_sccs = fss  # type: ignore[assignment]
    unhook_rt = _hook_roundtrip(B, opts_kw.get("cache_dir"), ctl, out)
    try:
        cli_args = opts_kw.pop("cli_args", None)
        nosrc = opts_kw.pop("cli_args_nosrc", None)
        if nosrc is not None:
            from mypy.main import process_options as _po

            _, _o = _po(list(nosrc), require_targets=False)
            _base = make_options(root, **{k: v for k, v in opts_kw.items() if k in ("cache_dir", "store", "fmt")})
            for k in ("use_builtins_fixtures", "incremental", "cache_dir", "sqlite_cache", "fixed_format_cache", "show_traceback"):
                setattr(_o, k, getattr(_base, k))
            if not any(x.startswith("--python-version") for x in nosrc):
                _o.python_version = (3, 12)
            _o.hide_error_codes = "--show-error-codes" not in nosrc
            for k, v in (opts_kw.pop("post_set", None) or {}).items():
                setattr(_o, k, v)
            opts_kw = {"_prebuilt": _o}
        alt_lib = opts_kw.pop("alt_lib", root)
        real_typeshed = opts_kw.pop("real_typeshed", False)
        if "_prebuilt" in opts_kw:
            options = opts_kw["_prebuilt"]
        elif cli_args is not None:
            # options built by the real command-line / config-file machinery (main.process_options),
            # then pointed at the fixtures and the cache directory of this harness
            from mypy.main import process_options

            _, options = process_options(list(cli_args) + [p for p, _ in sources if p], fscache=None)
            base = make_options(root, **opts_kw)
            for k in ("use_builtins_fixtures", "incremental", "cache_dir", "sqlite_cache", "fixed_format_cache",
                      "show_traceback", "python_version"):
                setattr(options, k, getattr(base, k))
        else:
            options = make_options(root, **opts_kw)
        srcs = [BuildSource(p, m, None) for p, m in sources]
        msgs: list[str] = []
        if real_typeshed:
            # the bundled typeshed instead of the lib-stub fixtures (witness programs that need TypedDict, ParamSpec, ...)
            options.use_builtins_fixtures = False
            alt_lib = None
        try:
            res = B.build(srcs, options, alt_lib_path=alt_lib)
            msgs = res.errors
            out["status"] = 1 if any(": error:" in m for m in msgs) else 0
            out["rechecked"] = sorted(set(res.manager.rechecked_modules) & user) if user is not None else sorted(res.manager.rechecked_modules)
            out["stale"] = sorted(set(res.manager.stale_modules) & user) if user is not None else sorted(res.manager.stale_modules)
        except CompileError as e:
            msgs = e.messages
            out["status"] = 2
            out["rechecked"] = []
            out["stale"] = []
        out["messages"] = msgs
        unhook_rt(True)
    finally:
        B.create_metastore = orig_create  # type: ignore[assignment]
        B.find_stale_sccs = orig_fss  # type: ignore[assignment]
        unhook_rt(False)
    if out.get("roundtrip") and not out.get("crash"):
        # every driver treats a crash as a violation of its property: a cache record that does not read back as it
        # was written is reported the same way
        out["crash"] = "cache record round trip: " + "; ".join(out["roundtrip"][:4])
    return out


def _canon(x: Any) -> Any:
    """Representation-insensitive only where JSON forces it (tuple = list); key and scalar TYPES are kept."""
    if isinstance(x, (list, tuple)):
        return [_canon(y) for y in x]
    if isinstance(x, dict):
        return {"%s:%s" % (type(k).__name__, k): _canon(v) for k, v in sorted(x.items(), key=lambda kv: repr(kv[0]))}
    if isinstance(x, (bytes, bytearray)):
        return "bytes:" + bytes(x).hex()
    if isinstance(x, (set, frozenset)):
        return {"set": sorted(repr(y) for y in x)}
    return "%s:%r" % (type(x).__name__, x)


def _format_round_trip(manager: Any, ctl: dict[str, Any], out: dict[str, Any]) -> None:
    """After a successful build: every module tree written in this run is pushed through BOTH cache formats (serialize ->
    JSON text -> deserialize, write -> bytes -> read), fixed up against the loaded modules as a cache load does, and must
    serialize again (in both formats) to what the original serialized to. Independent of which format the run uses and
    of whether any later run happens to load that tree."""
    trees = ctl.pop("_rt_trees", None)
    if not trees or "roundtrip" not in out:
        return
    digests = ctl["_rt_digests"]
    from mypy.cache import ReadBuffer, WriteBuffer
    from mypy.fixup import NodeFixer
    from mypy.nodes import MypyFile
    from mypy.util import json_dumps, json_loads

    n = 0
    for mid, (tree, want) in sorted(trees.items()):
        try:
            copies = {}
            copies["JSON"] = MypyFile.deserialize(json_loads(json_dumps(tree.serialize())))
            buf = WriteBuffer()
            tree.write(buf)
            copies["binary"] = MypyFile.read(ReadBuffer(buf.getvalue()))
            for how, t2 in copies.items():
                NodeFixer(manager.modules, False).visit_symbol_table(t2.names)      # as State.fix_cross_refs does
                got = digests(t2)
                n += 1
                for fmt_ in ("json", "ff"):
                    if got[fmt_] != want[fmt_]:
                        out["roundtrip"].append("module tree of %s pushed through the %s format re-serializes differently (%s serialization)"
                                                % (mid, how, "JSON" if fmt_ == "json" else "binary"))
        except Exception as e:
            out.setdefault("roundtrip_skipped", []).append("format round trip of %s: %r" % (mid, e))
    out["format_round_trips"] = out.get("format_round_trips", 0) + n


def _hook_roundtrip(B: Any, cache_dir: Any, ctl: dict[str, Any], out: dict[str, Any]) -> Any:
    """Incremental.tla: Load(m) returns the record the last committed WMeta / WEx wrote. Bound here object by object:
    every CacheMeta / CacheMetaEx the build READS (CacheMeta.read / deserialize, CacheMetaEx.read / deserialize) must
    equal, field by field, the object that was last handed to write_cache_meta / write_cache_meta_ex for that entry
    (remembered across runs in a side file next to the cache directory). Switched off (and the side file marked
    tainted) by runs with injected faults, where the store legitimately holds older records."""
    if not cache_dir or cache_dir == os.devnull:
        return lambda ok: None
    import mypy.cache as MC

    side = cache_dir.rstrip("/") + ".verif_objs.json"
    faulty = (ctl.get("kill_after") is not None or bool(ctl.get("fail_writes")) or not ctl.get("record", True)
              or os.environ.get("VERIF_NO_ROUNDTRIP") == "1")
    state: dict[str, Any] = {"tainted": False, "meta": {}, "ex": {}, "files": {}}
    if os.path.exists(side):
        try:
            with open(side) as f:
                state = json.load(f)
        except Exception:
            state["tainted"] = True
    if faulty or ctl.get("parallel"):
        state["tainted"] = True
        with open(side, "w") as f:
            json.dump({"tainted": True, "meta": {}, "ex": {}, "files": {}, "tree": {}}, f)
    if state["tainted"]:
        return lambda ok: None
    out["roundtrip"] = []
    out["roundtrip_reads"] = 0
    last = {"data_file": None}
    pending: dict[str, Any] = {"meta": {}, "ex": {}, "files": {}}

    def compare(kind: str, key: str, obj: Any) -> None:
        want = pending[kind].get(key) or state[kind].get(key)     # a record re-written earlier in this run (mtime path) is read again
        if want is None or obj is None:
            return
        got = {k: _canon(v) for k, v in vars(obj).items()}
        out["roundtrip_reads"] += 1
        for k in sorted(set(want) | set(got)):
            if want.get(k) != got.get(k):
                out["roundtrip"].append("%s.%s of %s read back as %s, written as %s" % (
                    "CacheMeta" if kind == "meta" else "CacheMetaEx", k, os.path.basename(key), str(got.get(k))[:120], str(want.get(k))[:120]))

    origs = {}

    def wrap_read(cls: Any, name: str, kind: str) -> None:
        orig = cls.__dict__[name].__func__
        origs[(cls, name)] = cls.__dict__[name]

        def rd(c: Any, *a: Any) -> Any:
            obj = orig(c, *a)
            if kind == "meta":
                last["data_file"] = a[1] if len(a) > 1 else None
                if last["data_file"]:
                    compare("meta", last["data_file"], obj)
            elif last["data_file"]:
                compare("ex", last["data_file"], obj)
            return obj

        setattr(cls, name, classmethod(rd))

    wrap_read(MC.CacheMeta, "read", "meta")
    wrap_read(MC.CacheMeta, "deserialize", "meta")
    wrap_read(MC.CacheMetaEx, "read", "ex")
    wrap_read(MC.CacheMetaEx, "deserialize", "ex")
    orig_wm, orig_wx = B.write_cache_meta, B.write_cache_meta_ex

    def wm(meta: Any, manager: Any, meta_file: str) -> None:
        pending["meta"][meta.data_file] = {k: _canon(v) for k, v in vars(meta).items()}
        pending["files"][meta_file] = meta.data_file
        return orig_wm(meta, manager, meta_file)

    def wx(meta_file: str, meta_ex: Any, manager: Any) -> None:
        df = pending["files"].get(meta_file) or state["files"].get(meta_file)
        if df:
            pending["ex"][df] = {k: _canon(v) for k, v in vars(meta_ex).items()}
        return orig_wx(meta_file, meta_ex, manager)

    B.write_cache_meta, B.write_cache_meta_ex = wm, wx
    # ---- the DATA record: a module tree loaded from the cache and fixed up must serialize (in BOTH formats) to what the
    # tree that was written serialized to -- whatever format is on disk. A field lost or defaulted by one reader / writer
    # shows even when no diagnostic of this program depends on it.
    orig_wc, orig_fix = B.write_cache, B.State.fix_cross_refs
    state.setdefault("tree", {})
    pending["tree"] = {}

    def tree_digests(tree: Any) -> dict[str, str]:
        import hashlib
        from mypy.cache import WriteBuffer
        dj = hashlib.sha256(json.dumps(tree.serialize(), sort_keys=True, default=repr).encode()).hexdigest()[:20]
        buf = WriteBuffer()
        tree.write(buf)
        return {"json": dj, "ff": hashlib.sha256(buf.getvalue()).hexdigest()[:20]}

    def wc(id: str, path: str, tree: Any, *a: Any, **k: Any) -> Any:
        manager = k.get("manager") or a[-1]
        try:
            _, data_file, _ = B.get_cache_names(id, path, manager.options)
            pending["tree"][data_file] = tree_digests(tree)
            # at WRITE time (later passes may still touch the tree): the tree through both formats, see _format_round_trip
            ctl["_rt_digests"] = tree_digests
            ctl["_rt_trees"] = {id: (tree, pending["tree"][data_file])}
            _format_round_trip(manager, ctl, out)
        except Exception as e:      # never disturb the build
            out.setdefault("roundtrip_skipped", []).append("write %s: %r" % (id, e))
        return orig_wc(id, path, tree, *a, **k)

    def fix(self: Any) -> None:
        orig_fix(self)
        try:
            df = self.meta.data_file if self.meta is not None else None
            want = (pending["tree"].get(df) or state["tree"].get(df)) if df else None
            if want is not None and self.tree is not None:
                got = tree_digests(self.tree)
                out["roundtrip_reads"] += 1
                for fmt_ in ("json", "ff"):
                    if got[fmt_] != want[fmt_]:
                        out["roundtrip"].append("module tree of %s loaded from %s re-serializes differently in the %s format than the tree that was written"
                                                % (self.id, os.path.basename(df), "JSON" if fmt_ == "json" else "binary"))
        except Exception as e:
            out.setdefault("roundtrip_skipped", []).append("read %s: %r" % (getattr(self, "id", "?"), e))

    B.write_cache = wc
    B.State.fix_cross_refs = fix

    def unhook(ok: bool) -> None:
        if not origs:
            return
        for (cls, name), o in origs.items():
            setattr(cls, name, o)
        origs.clear()
        B.write_cache_meta, B.write_cache_meta_ex = orig_wm, orig_wx
        B.write_cache, B.State.fix_cross_refs = orig_wc, orig_fix
        if ok:
            for k in ("meta", "ex", "files", "tree"):
                state[k].update(pending[k])
            with open(side, "w") as f:
                json.dump(state, f)
        else:
            with open(side, "w") as f:
                json.dump({"tainted": True, "meta": {}, "ex": {}, "files": {}, "tree": {}}, f)

    return unhook


def new_ctl(tick: int = 0, record: bool = True, kill_after: int | None = None, fail_writes: Any = (),
            user_mods: list[str] | None = None) -> dict[str, Any]:
    return {"nops": 0, "nwrites": 0, "tick": tick, "trace": [], "record": record, "kill_after": kill_after,
            "fail_writes": set(fail_writes), "user_mods": user_mods if user_mods is not None else ["a", "b", "c", "d", "e", "p", "p.x", "p.y"],
            "on_kill": lambda: None}


def _build_child(root: str, sources: list[tuple[str, str]], opts_kw: dict[str, Any], ctl: dict[str, Any], wfd: int) -> None:
    """Runs in the forked child; never returns."""
    out: dict[str, Any] = {"killed": False}

    def finish(code: int) -> None:
        out["trace"] = ctl["trace"]
        out["tick"] = ctl["tick"]
        out["nops"] = ctl["nops"]
        out["nwrites"] = ctl["nwrites"]
        data = json.dumps(out).encode()
        with os.fdopen(wfd, "wb") as f:
            f.write(data)
        os._exit(code)

    def on_kill() -> None:
        out["killed"] = True
        finish(9)

    ctl["on_kill"] = on_kill
    try:
        out.update(build_in_process(root, sources, opts_kw, ctl))
        finish(0)
    except SystemExit:
        raise
    except BaseException as e:  # internal error of mypy (or of the harness)
        import traceback

        out["crash"] = "".join(traceback.format_exception(type(e), e, e.__traceback__))[-3000:]
        out["messages"] = []
        out["status"] = 3
        finish(0)


def preload() -> None:
    """Import mypy in the parent so that forked children start warm."""
    import mypy.build  # noqa: F401
    import mypy.checker  # noqa: F401
    import mypy.semanal  # noqa: F401


def run_build(root: str, *, cache_dir: str | None, store: str = "fs", fmt: str = "ff", tick: int = 0,
              kill_after: int | None = None, fail_writes: set[int] | frozenset[int] = frozenset(),
              sources: list[tuple[str, str]] | None = None, record: bool = True,
              user_mods: Any = None, extra_opts: dict[str, Any] | None = None) -> dict[str, Any]:
    """One build in a forked child. Returns dict(messages, status, trace, tick, nops, nwrites, killed)."""
    sources = sources or [("a.py", "a")]
    ctl: dict[str, Any] = {"nops": 0, "nwrites": 0, "tick": tick, "trace": [], "record": record,
                           "kill_after": kill_after, "fail_writes": set(fail_writes),
                           "user_mods": None if user_mods == "*" else (user_mods or ["a", "b", "c", "d", "e", "p", "p.x", "p.y"])}
    opts_kw = dict(cache_dir=cache_dir, store=store, fmt=fmt, **(extra_opts or {}))
    rfd, wfd = os.pipe()
    sys.stdout.flush(); sys.stderr.flush()
    pid = os.fork()
    if pid == 0:
        os.close(rfd)
        try:
            _build_child(root, sources, opts_kw, ctl, wfd)
        finally:
            os._exit(70)
    os.close(wfd)
    chunks = []
    with os.fdopen(rfd, "rb") as f:
        while True:
            b = f.read(1 << 16)
            if not b:
                break
            chunks.append(b)
    _, st = os.waitpid(pid, 0)
    data = b"".join(chunks)
    if not data:
        return {"messages": [], "status": 4, "crash": "child died without result (wait status %d)" % st,
                "trace": [], "tick": tick, "nops": 0, "nwrites": 0, "killed": False}
    return json.loads(data)


def norm(res: dict[str, Any]) -> tuple[Any, ...]:
    """What C02/C04/C09 compare between two runs: exit status, and per file the sequence of messages."""
    per: dict[str, list[str]] = {}
    for m in res["messages"]:
        f = m.split(":", 1)[0]
        per.setdefault(f, []).append(m)
    return (res["status"], tuple(sorted((f, tuple(v)) for f, v in per.items())))


def same_up_to_cross_file_order(r1: dict[str, Any], r2: dict[str, Any]) -> bool:
    return norm(r1) == norm(r2)


def clear_cache(cache_dir: str) -> None:
    shutil.rmtree(cache_dir, ignore_errors=True)
