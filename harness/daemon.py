"""Real dmypy Server driven in-process (no socket; C16 covers the socket): edit histories replayed with
a request after every step, each response compared with a fresh non-incremental build (C03)."""
from __future__ import annotations

import json
import os
import shutil
import sys
from typing import Any

from harness import world as W

DVARIANTS = {
    "c": dict(W.MVARIANTS["c"], **{"c[bad]": "def f( -> int:\n    return 1\n", "c-": None}),
    "b": dict(W.MVARIANTS["b"], **{"noimport": "def f() -> int:\n    return 1\n"}),
    "a": dict(W.MVARIANTS["a"]),
}
for _m, _vs in DVARIANTS.items():
    for _k, _t in _vs.items():
        W.VARIANTS[_m].setdefault(_k, _t)


def d_worlds() -> list[dict[str, str]]:
    return [{"a": a, "b": b, "c": c} for a in DVARIANTS["a"] for b in DVARIANTS["b"] for c in DVARIANTS["c"]]


def fresh_check(root: str, follow: str, files: list[str]) -> dict[str, Any]:
    """A fresh, non-incremental mypy run on the files as they are (forked, fixtures)."""
    srcs = [(f, f[:-3]) for f in files if os.path.exists(os.path.join(root, f))]
    r = W.run_build(root, cache_dir=None, record=False, sources=srcs,
                    extra_opts={"follow_imports": follow, "local_partial_types": True})
    return r


def _daemon_child(root: str, steps: list[dict[str, Any]], follow: str, files: list[str], wfd: int, use_cache: bool,
                  cache_world: dict[str, str] | None = None) -> None:
    out: dict[str, Any] = {"responses": []}
    try:
        os.chdir(root)
        from mypy.dmypy_server import Server
        from mypy.modulefinder import BuildSource
        import mypy.build as B

        o = W.make_options(root, None)
        o.follow_imports = follow
        o.local_partial_types = True
        if use_cache:
            # start from a fine-grained cache written by an ordinary `mypy --cache-fine-grained` run on an EARLIER state of the files
            o.use_fine_grained_cache = True
            o.incremental = True
            o.cache_dir = os.path.join(root, "fgcache")
            o.fixed_format_cache = True
            o.sqlite_cache = False
        # make build.build find the tree's modules the way the drivers do (fixtures + tree root)
        orig_build = B.build

        def build(sources: Any, options: Any, alt_lib_path: Any = None, **kw: Any) -> Any:
            return orig_build(sources, options, alt_lib_path=root, **kw)

        import mypy.dmypy_server as DS
        DS.mypy.build.build = build  # type: ignore[attr-defined]
        server = Server(o, os.path.join(root, ".status.json"))
        t = W.Tree(root)
        if use_cache:
            t.world = dict(cache_world or {})     # the files are as the cache-building run left them
        for st in steps:
            t.world = dict(st.get("before", t.world))
            t.tick = st["tick"]
            t.apply(st["world"])
            present = [f for f in files if os.path.exists(os.path.join(root, f))]
            srcs = [BuildSource(f, f[:-3], None) for f in present]
            try:
                if st.get("recheck") and server.fine_grained_manager:
                    resp = server.cmd_recheck(is_tty=False, terminal_width=80, export_types=False)
                else:
                    resp = server.check(srcs, False, False, 80)
                out["responses"].append({"out": resp.get("out", ""), "err": resp.get("err", ""), "status": resp.get("status")})
            except BaseException as e:
                import traceback
                out["responses"].append({"crash": "".join(traceback.format_exception(type(e), e, e.__traceback__))[-2500:], "status": 3, "out": "", "err": ""})
                break
    except BaseException as e:
        import traceback
        out["crash"] = "".join(traceback.format_exception(type(e), e, e.__traceback__))[-2500:]
    data = json.dumps(out).encode()
    with os.fdopen(wfd, "wb") as f:
        f.write(data)
    os._exit(0)


def run_daemon_history(root: str, worlds: list[dict[str, str]], follow: str, files: list[str], recheck: bool = False,
                       cache_world: dict[str, str] | None = None) -> dict[str, Any]:
    """Apply worlds one after another (a request after every step) to one real Server in a forked child.
    cache_world: first write that world, build a fine-grained cache from it with a batch run, then start the daemon on it."""
    steps = []
    if cache_world is not None:
        t0 = W.Tree(root)
        t0.tick = 500
        t0.apply(cache_world)
        present = [(f, f[:-3]) for f in files if os.path.exists(os.path.join(root, f))]
        W.run_build(root, cache_dir=os.path.join(root, "fgcache"), record=False, sources=present,
                    extra_opts={"follow_imports": follow, "local_partial_types": True, "cache_fine_grained": True})
    t = W.Tree(root)   # only to compute ticks deterministically; the child re-applies
    tick = 1000
    for i, w in enumerate(worlds):
        steps.append({"world": w, "tick": tick, "recheck": recheck and i > 0})
        tick += 10
    rfd, wfd = os.pipe()
    sys.stdout.flush(); sys.stderr.flush()
    pid = os.fork()
    if pid == 0:
        os.close(rfd)
        try:
            _daemon_child(root, steps, follow, files, wfd, cache_world is not None, cache_world)
        finally:
            os._exit(70)
    os.close(wfd)
    with os.fdopen(rfd, "rb") as f:
        data = f.read()
    os.waitpid(pid, 0)
    if not data:
        return {"responses": [], "crash": "daemon child died"}
    return json.loads(data)


def norm_resp(resp: dict[str, Any]) -> tuple[Any, ...]:
    msgs = [l for l in (resp.get("out", "") + resp.get("err", "")).splitlines() if l.strip()]
    per: dict[str, list[str]] = {}
    for m in msgs:
        per.setdefault(m.split(":", 1)[0], []).append(m)
    return (resp.get("status"), tuple(sorted((f, tuple(v)) for f, v in per.items())))


def norm_fresh(r: dict[str, Any]) -> tuple[Any, ...]:
    per: dict[str, list[str]] = {}
    for m in r["messages"]:
        per.setdefault(m.split(":", 1)[0], []).append(m)
    return (r["status"], tuple(sorted((f, tuple(v)) for f, v in per.items())))


# ----------------------------------------------------------------------------- catalogue D2: more constructs
# c: four independent interface features; b: several ways of depending on c; a: uses of b
def _c2(ret: int, attr: int, params: int, base: int, dflt: int = 0, kind: int = 0) -> str:
    conv = "def conv(p: int) -> int:\n    return p\n" if kind == 0 else "class conv:\n    def __init__(self, p: str) -> None: ...\n"
    return ("class B1:\n    def m(self) -> int:\n        return 1\n"
            "class B2:\n    def n(self) -> int:\n        return 1\n"
            "class K(%s):\n    x: %s = %s\n"
            "def f() -> %s:\n    return %s\n"
            "def g(%s) -> int:\n    return 1\n"
            "def g2(p: int%s) -> int:\n    return p\n"
            "%s"
            "v: int = 1\n") % (("B1", "B2")[base], ("int", "str")[attr], ("0", "''")[attr], ("int", "str")[ret], ("1", "''")[ret],
                                ("p: int", "p: int, q: int")[params], (" = 0", "")[dflt], conv)


D2: dict[str, dict[str, str]] = {
    "c": dict({"k%d%d%d%d" % (r, t, p, b): _c2(r, t, p, b) for r in (0, 1) for t in (0, 1) for p in (0, 1) for b in (0, 1)},
              **{"k0000d": _c2(0, 0, 0, 0, dflt=1), "k0000c": _c2(0, 0, 0, 0, kind=1), "k1000d": _c2(1, 0, 0, 0, dflt=1),
                 # export status only: the same definitions, with an __all__ that lists everything / leaves g and v out
                 "k0000e": _c2(0, 0, 0, 0) + "__all__ = ['B1', 'B2', 'K', 'f', 'g', 'g2', 'conv', 'v']\n",
                 "k0000f": _c2(0, 0, 0, 0) + "__all__ = ['B1', 'B2', 'K', 'f', 'g2', 'conv']\n",
                 # the class K is gone (renamed): every TYPE position that mentions c.K has to be looked at again
                 "k0000n": _c2(0, 0, 0, 0).replace("class K(", "class KK(")}),
    "b": {
        "star": "from c import *\n",
        "sub": "import c\nclass L(c.K):\n    def use(self) -> int:\n        return self.x + self.m()\n",
        "call": "import c\ndef h() -> int:\n    return c.g(1)\ny = c.f()\n",
        "deco": "import c\nfrom typing import Callable\ndef d(fn: Callable[[], int]) -> Callable[[], int]:\n    return fn\n@d\ndef w() -> int:\n    return c.f()\nclass L(c.K): pass\n",
        "reexp": "from c import g2 as g2, conv as conv, f as f\ny = f()\n",
        # (type positions are exercised by fgcorpus.EXTRA_CASES, which can use the full typing fixtures)
    },
    "a": {
        "ustar": "import b\nz: int = b.f()\nk = b.K()\nq: int = k.x\n",
        "usub": "import b\ndef t() -> int:\n    return b.L().x\n",
        "ucall": "import b\nr: int = b.y\ns: int = b.h()\n",
        "udflt": "import b\nfrom b import conv\ndef t() -> int:\n    return b.g2()\ndef u() -> None:\n    conv(1)\n",
        "umeth": "import b\nimport c\nclass M:\n    def g(self) -> None:\n        b.y + c.f()\n",
        "ustarg": "import b\nn: int = b.g(1)\nm: int = b.v\n",
    },
}
for _m, _vs in D2.items():
    for _k, _t in _vs.items():
        W.VARIANTS[_m][_k] = _t


def d2_worlds() -> list[dict[str, str]]:
    return [{"a": a, "b": b, "c": c} for a in D2["a"] for b in D2["b"] for c in D2["c"]]
