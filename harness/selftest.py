"""setup-time self test: every specification parses (SANY), mypy imports from /repo."""
import glob, os, sys
from concurrent.futures import ThreadPoolExecutor
from harness.common import SPEC, sany, MachineryError

def main() -> int:
    import mypy.build  # noqa: F401  (from /repo's working tree)
    import json
    from harness.common import VERIF
    claimed = {c["property_id"] for c in json.load(open(os.path.join(VERIF, "MANIFEST.json")))["checks"]}
    reg = json.load(open(os.path.join(VERIF, "harness", "specs.json")))
    mods = sorted({os.path.join(SPEC, m + ".tla") for p, ms in reg.items() if p in claimed for m in ms})
    bad = []
    def one(m):
        try:
            sany(m); return None
        except MachineryError as e:
            return str(e)
    with ThreadPoolExecutor(8) as ex:
        for m, r in zip(mods, ex.map(one, mods)):
            if r: bad.append(r)
    for b in bad: print(b, file=sys.stderr)
    print("selftest: %d specification roots parsed, %d failed" % (len(mods), len(bad)))
    return 1 if bad else 0

if __name__ == "__main__":
    sys.exit(main())
