"""setup-time self test: every specification parses (SANY), mypy imports from /repo."""
import glob, os, sys
from concurrent.futures import ThreadPoolExecutor
from harness.common import SPEC, sany, MachineryError

def main() -> int:
    import mypy.build  # noqa: F401  (from /repo's working tree)
    mods = sorted(glob.glob(os.path.join(SPEC, "MC_*.tla")) + glob.glob(os.path.join(SPEC, "Trace_*.tla")))
    bad = []
    def one(m):
        try:
            sany(m); return None
        except MachineryError as e:
            return str(e)
    with ThreadPoolExecutor(8) as ex:
        for m, r in zip(mods, ex.map(one, mods)):
            if r: bad.append(r)
    for b in bad: print(b, file=sys.stderr)
    print("selftest: %d specification roots parsed, %d failed" % (len(mods), len(bad)))
    return 1 if bad else 0

if __name__ == "__main__":
    sys.exit(main())
