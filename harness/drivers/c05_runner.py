"""Child process of the C05 check: imports the generated modules that sit next to this file (either
the .py sources = CPython baseline, or the mypyc-built extension modules) and performs the calls of
plan.json from INTERPRETED code.  One line `RESULT <json>` per call; `BEGIN <id>` before it, so the
parent knows during which call the process died.  Not imported by the harness; copied into scratch."""
import io
import json
import os
import sys


def outcome(fn):
    """(stdout text, ("ret", repr) | ("exc", type name, str))"""
    buf = io.StringIO()
    old = sys.stdout
    sys.stdout = buf
    try:
        try:
            r = ("ret", repr(fn()))
        except BaseException as e:  # noqa: B902 - the type is what is compared
            r = ("exc", type(e).__name__, str(e))
    finally:
        sys.stdout = old
    return buf.getvalue(), r


def main():
    here = os.path.dirname(os.path.abspath(__file__))
    sys.path.insert(0, here)
    with open(os.path.join(here, "plan.json")) as f:
        plan = json.load(f)
    want_compiled = sys.argv[1] == "compiled"
    real = sys.__stdout__
    mods = {}
    for name in plan["modules"]:
        m = __import__(name)
        is_ext = not m.__file__.endswith(".py")
        if is_ext != want_compiled:
            real.write("WRONGKIND %s %s\n" % (name, m.__file__))
            real.flush()
            sys.exit(3)
        mods[name] = m
    real.write("LOADED %s\n" % json.dumps({n: os.path.basename(m.__file__) for n, m in mods.items()}))
    ns = dict(plan.get("ns", {}))
    for k, v in list(ns.items()):
        if isinstance(v, list):
            ns[k] = tuple(v)
    exec(plan.get("prelude", ""), ns)   # helper functions of the interpreted side
    skip = set(plan.get("skip", []))
    for cid, mod, expr in plan["calls"]:
        if cid in skip:
            continue
        real.write("BEGIN %s\n" % cid)
        real.flush()
        env = dict(ns)
        env["m"] = mods[mod]
        code = compile(expr, "<call %s>" % cid, "eval")
        out, r = outcome(lambda: eval(code, env))
        real.write("RESULT %s\n" % json.dumps([cid, out, list(r)]))
    real.write("DONE\n")
    real.flush()


if __name__ == "__main__":
    main()
