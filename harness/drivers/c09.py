"""C09 — changing options between runs never yields stale results.

Specification: spec/CacheKey.tla (options as validity key; rendered diagnostics stored in the cache;
print options applied at replay).  Its constants are extracted from the code: the option table
(every bool attribute of Options settable through a config file or a flag, plus a table of valued
options), InKey (options.OPTIONS_AFFECTING_CACHE), PostApplied (options read by
Errors.format_messages* — found by an AST scan), and Affects is MEASURED (cold A vs cold B on a
witness program).  TLC lists the options for which a stale history exists in the model; every
affected option is replayed on real mypy: warm-up with A, second run with B on the same cache,
compared with a cold run with B (both directions, global section / command line / per-module
section as the place of the change, A;B and A;B;A histories).  The verdict is real-vs-real.
"""
from __future__ import annotations

import ast
import json
import os

os.environ["VERIF_NO_ROUNDTRIP"] = "1"  # the record round-trip binding (world._hook_roundtrip) belongs to C02
import random
import shutil
import sys
from concurrent.futures import ProcessPoolExecutor
from typing import Any

from harness.common import MachineryError, REPO, SPEC, Verdict, coverage_summary, parse_args, sany, scratch, tla_value, tlc
from harness import world as W

PID = "C09"

# ----------------------------------------------------------------------------- witness programs
WITNESSES: dict[str, dict[str, str]] = {
    "generic": {
        "a.py": "import b\nfrom b import C\nfrom b import T as TT\nv: int = b.k()\nw = b.untyped(1)\n\ndef top(q):\n    return q\n",
        "b.py": (
            "from typing import Any, Optional, cast, List, Generic, TypeVar\n"
            "import missing_mod\n"
            "T = TypeVar('T')\n"
            "def untyped(x):\n    return x + ''\n"
            "def partially(x: int, y):\n    return x\n"
            "def impl(x: int = None) -> int:\n    return 1\n"
            "def opt(x: Optional[int]) -> int:\n    return x + 1\n"
            "y = cast(int, 1)\n"
            "def h() -> Any: ...\n"
            "def k() -> int:\n    return h()\n"
            "z: int = untyped(1)\n"
            "def nr(c: int) -> int:\n    if c:\n        return 1\n"
            "x: int = 1  # type: ignore\n"
            "xx: int = ''  # type: ignore\n"
            "def unreach(a: int) -> int:\n    if isinstance(a, int):\n        return 1\n    return 2\n"
            "class C(missing_mod.Base):\n    def m(self):\n        return 1\n"
            "class G(Generic[T]): pass\n"
            "def gen(g: G) -> List: ...\n"
            "def anyexp(p: Any) -> None:\n    q = p\n"
            "def deco(f): return f\n"
            "@deco\ndef decorated(x: int) -> int: return x\n"
            "def eq(a: int, b: str) -> bool:\n    return a == b\n"
            "def redef(x: int) -> None:\n    y = 1\n    y = ''\n"
            "gl = []\n"
            "def pt() -> None:\n    pl = None\n    if int():\n        pl = 1\n"
            "def cat(a: List[int]) -> None:\n    for i in a:\n        i.nope\n"
            "def u2():\n    zz: int = ''\n"
            "gx = None\ndef setg() -> None:\n    global gx\n    gx = 1\n"
            "import sys\nif sys.platform == 'win32':\n    1 + ''\nelse:\n    '' + 1\n"
            "def eqn(a: int) -> bool:\n    return a == None\n"
            "reveal_type(opt)\n"
            "from typing_extensions import deprecated\n@deprecated('use g2')\ndef oldf() -> None: ...\noldf()\n"
            "def rd2() -> None:\n    q = 1\n    q = ''\n    q + 1\n"
        ),
        "builtins.pyi": "@fixtures/isinstancelist.pyi",
    },
    "display": {
        "a.py": "import b\n\nclass K:\n    def m(self) -> int:\n        return ''\n\ndef f(x: int,\n      y: str) -> int:\n    return (x +\n            y)\n",
        "b.py": "def g() -> int:\n    return ''\n\nclass B:\n    def n(self) -> str:\n        def inner() -> int:\n            return ''\n        return 1\n",
    },
    "imports": {
        "a.py": "import b\nimport nothere\nfrom b import nope\nx: int = b.y\n",
        "b.py": "import c\nfrom c import *\ny = c.z\n",
        "c.py": "z: str = ''\n_p = 1\nimport d\n",
        "d.py": "q: int = ''\n",
    },
    "semanal": {
        "a.py": "import b\nx: int = b.undefined_name\n",
        "b.py": "def f() -> int:\n    return ''\nclass A(Undefined): pass\n",
    },
    "bytes": {
        "a.py": "import b\n",
        "b.py": "def f(x: bytes) -> None: ...\nf(bytearray(b''))\nf(memoryview(b''))\n",
        "builtins.pyi": "@fixtures/primitives.pyi",
    },
    # checked against the bundled typeshed (TypedDict.update, ParamSpec, deprecated, tuple unpacking need the real stubs)
    "typeshed": {
        "a.py": "import b\nfrom b import Optional as O2\nv: int = b.r2()\n",
        "b.py": (
            "from typing import TypedDict, Callable, Optional, TypeVar, List\n"
            "from typing_extensions import deprecated\n"
            "T = TypeVar('T'); S = TypeVar('S'); U = TypeVar('U')\n"
            "def dec(f: Callable[[T], S]) -> Callable[[T], List[S]]:\n    raise NotImplementedError\n"
            "def ident(x: U) -> U:\n    return x\n"
            "reveal_type(dec(ident))\n"
            "def redef(a: int) -> None:\n    a = str(a)\n    reveal_type(a)\n"
            "def r2() -> int:\n    y = 1\n    print(y)\n    y = ''\n    reveal_type(y)\n    return 1\n"
            "class Foo(TypedDict):\n    a: int\n"
            "class Bar(TypedDict):\n    a: int\n    b: int\n"
            "def test(foo: Foo, bar: Bar) -> None:\n    bar.update(foo)\n"
            "def eqn(a: int) -> bool:\n    return a == None\n"
            "@deprecated('use g2')\ndef oldf() -> None:\n    pass\noldf()\n"
            "tp = (1, *[2, 3])\nreveal_type(tp)\n"
            "def unr(a: int) -> int:\n    if isinstance(a, int):\n        return 1\n    a.nope\n    return 2\n"
        ),
    },
    # two plugins that hook the same function: the first one listed wins
    "plugins": {
        "a.py": "import lib\nx: int = lib.make()\ny: str = lib.make()\n",
        "lib.py": "def make() -> object: ...\n",
        "p1.py": "from mypy.plugin import Plugin\nclass P(Plugin):\n    def get_function_hook(self, fullname):\n        if fullname == 'lib.make':\n            return lambda ctx: ctx.api.named_generic_type('builtins.int', [])\n        return None\ndef plugin(version):\n    return P\n",
        "p2.py": "from mypy.plugin import Plugin\nclass P(Plugin):\n    def get_function_hook(self, fullname):\n        if fullname == 'lib.make':\n            return lambda ctx: ctx.api.named_generic_type('builtins.str', [])\n        return None\ndef plugin(version):\n    return P\n",
    },
}

# valued (non-boolean) options: name -> list of (A, B) pairs, each a dict(cli=[...]) and/or dict(ini="key = value")
VALUED: dict[str, list[tuple[dict[str, Any], dict[str, Any]]]] = {
    "platform": [({"cli": ["--platform", "linux"]}, {"cli": ["--platform", "win32"]})],
    "always_true": [({}, {"cli": ["--always-true", "FLAG"]})],
    "always_false": [({}, {"cli": ["--always-false", "FLAG"]})],
    "disable_error_code": [({}, {"cli": ["--disable-error-code", c]}) for c in ("assignment", "return-value", "operator", "import-not-found", "attr-defined", "name-defined")],
    "enable_error_code": [({}, {"cli": ["--enable-error-code", c]}) for c in ("ignore-without-code", "redundant-expr", "truthy-bool", "possibly-undefined", "unused-awaitable", "redundant-self", "explicit-override", "mutable-override", "unimported-reveal", "deprecated")],
    "follow_imports": [({}, {"cli": ["--follow-imports", v]}) for v in ("silent", "skip", "error")],
    "untyped_calls_exclude": [({"cli": ["--disallow-untyped-calls"]}, {"cli": ["--disallow-untyped-calls", "--untyped-calls-exclude", "b"]})],
    "enable_incomplete_feature": [({}, {"cli": ["--enable-incomplete-feature", "PreciseTupleTypes"]})],
    "many_errors_threshold": [({}, {"ini": "many_errors_threshold = 2"})],
    "python_version": [],   # the cache directory is per version: not the same cache
    # order matters: plugins are chained in the configured order
    "plugins": [({"ini": "plugins = p1.py, p2.py"}, {"ini": "plugins = p2.py, p1.py"}),
                ({"ini": "plugins = p1.py"}, {"ini": "plugins = p1.py, p2.py"}),
                ({}, {"ini": "plugins = p2.py"})],
}
# options that only meet in pairs: X is toggled while Y keeps a non-default value in both runs
CONTEXT_FLAGS = {"show_error_code_links": "--show-error-code-links", "hide_error_codes": "--hide-error-codes", "show_column_numbers": "--show-column-numbers",
                 "show_error_end": "--show-error-end", "show_error_context": "--show-error-context", "pretty": "--pretty",
                 "show_absolute_path": "--show-absolute-path", "warn_unused_ignores": "--warn-unused-ignores", "strict_optional": "--no-strict-optional",
                 "ignore_missing_imports": "--ignore-missing-imports", "check_untyped_defs": "--check-untyped-defs",
                 "strict_equality": "--strict-equality", "strict_equality_for_none": "--strict-equality-for-none",
                 "report_deprecated_as_note": "--report-deprecated-as-note"}
# contexts that are not themselves toggled
CTX_ONLY = {"enable_deprecated": "--enable-error-code=deprecated",
            # the validity key must still be compared when the version check is skipped
            "skip_version_check": "--skip-version-check"}
# what the (slow) typeshed witness is used for
TYPESHED_OPTS = {"allow_redefinition_old", "extra_checks", "implicit_reexport", "enable_incomplete_feature", "check_unreachable", "old_type_inference",
                 "strict_optional", "warn_unreachable", "allow_redefinition", "strict_equality", "local_partial_types", "strict_bytes"}
TYPESHED_CTX = {("strict_equality_for_none", "strict_equality"), ("report_deprecated_as_note", "enable_deprecated")}
FLAG_WITNESS_EXTRA = {"always_true": "FLAG = 0\nif FLAG:\n    1 + ''\nelse:\n    2 + ''\n", "always_false": "FLAG = 0\nif FLAG:\n    1 + ''\nelse:\n    2 + ''\n"}


def materialise(root: str, wname: str, tick: int = 1000) -> None:
    os.makedirs(root, exist_ok=True)
    for fn, txt in WITNESSES[wname].items():
        if txt.startswith("@fixtures/"):
            with open(os.path.join(REPO, "test-data", "unit", txt[1:])) as f:
                txt = f.read()
        if fn == "b.py" and wname == "generic":
            txt += FLAG_WITNESS_EXTRA["always_true"]
        with open(os.path.join(root, fn), "w") as f:
            f.write(txt)
        t = 1_000_000 + tick * 10
        os.utime(os.path.join(root, fn), (t, t))


def write_ini(root: str, setting: dict[str, Any]) -> list[str]:
    """Returns cli args; writes (or removes) mypy.ini for the setting."""
    ini = os.path.join(root, "mypy.ini")
    lines = ["[mypy]"]
    if setting.get("ini"):
        lines.append(setting["ini"])
    if setting.get("permod"):
        lines += ["[mypy-%s]" % setting.get("section", "b"), setting["permod"]]
    with open(ini, "w") as f:
        f.write("\n".join(lines) + "\n")
    os.utime(ini, (1_000_000, 1_000_000))
    return list(setting.get("cli", []))


def run(root: str, setting: dict[str, Any], cache: str | None, tick: int, real_typeshed: bool = False) -> dict[str, Any]:
    args = write_ini(root, setting)
    return W.run_build(root, cache_dir=cache, tick=tick, record=False, extra_opts={"cli_args": args, "real_typeshed": real_typeshed})


def case_worker(case: dict[str, Any]) -> dict[str, Any]:
    """Measure Affects for (option, place, witness) and, if affected, replay the histories."""
    W.preload()
    root = scratch("c09-")
    src = os.path.join(root, "src")
    res: dict[str, Any] = {"case": {k: case[k] for k in ("opt", "place", "witness", "idx")}, "affects": False, "stale": [], "runs": 0, "set_ok": True}
    materialise(src, case["witness"])
    A, B = case["A"], case["B"]
    rt = case["witness"] == "typeshed"
    coldA = run(src, A, None, 0, rt)
    coldB = run(src, B, None, 0, rt)
    res["runs"] += 2
    if coldA.get("crash") or coldB.get("crash"):
        res["crash"] = (coldA.get("crash") or coldB.get("crash"))[-500:]
        shutil.rmtree(root, ignore_errors=True)
        return res
    res["affects"] = W.norm(coldA) != W.norm(coldB)
    if res["affects"]:
        for name, seq in (("A;B", [A, B]), ("B;A", [B, A]), ("A;B;A", [A, B, A]), ("B;A;B", [B, A, B])):
            cache = os.path.join(root, "cache-" + name.replace(";", ""))
            tick = 5000
            last = None
            for i, s in enumerate(seq):
                r = run(src, s, cache, tick, rt); tick = r["tick"]
                res["runs"] += 1
                cold_ = coldA if s is A else coldB
                if r.get("crash") or W.norm(r) != W.norm(cold_):
                    res["stale"].append({"history": name, "at": i + 1, "warm": r["messages"][:6], "warm_status": r["status"],
                                         "cold": cold_["messages"][:6], "cold_status": cold_["status"], "crash": (r.get("crash") or "")[-300:]})
                    break
    shutil.rmtree(root, ignore_errors=True)
    return res


def option_table() -> tuple[list[dict[str, Any]], dict[str, Any]]:
    """Every option with both of its settings, from the code: bool attributes of Options (config file,
    command-line flag when one exists, per-module section when allowed) + the valued table."""
    import io
    from mypy.main import define_options, process_options
    from mypy.options import Options, PER_MODULE_OPTIONS, OPTIONS_AFFECTING_CACHE

    parser, _, _ = define_options(stdout=io.StringIO(), stderr=io.StringIO())
    flag_for: dict[str, dict[bool, str]] = {}
    for a in parser._actions:
        if a.option_strings and a.nargs == 0 and isinstance(a.const, bool) and not a.dest.startswith("special-opts:"):
            flag_for.setdefault(a.dest, {})[a.const] = a.option_strings[0]
    defaults = Options()
    skip = {"incremental", "use_builtins_fixtures", "sqlite_cache", "fixed_format_cache", "show_traceback", "pdb", "raise_exceptions",
            "verbosity", "dump_graph", "dump_deps", "dump_type_stats", "dump_inference_stats", "dump_build_stats", "debug_cache",
            "skip_version_check", "skip_cache_mtime_checks", "fine_grained_incremental", "cache_fine_grained", "use_fine_grained_cache",
            "install_types", "non_interactive", "bazel", "mypyc", "preserve_asts", "export_types", "fast_exit", "local_partial_types_",
            "logical_deps", "debug_serialize", "test_env", "inspections", "native_parser", "error_summary", "color_output",
            "warn_unused_configs", "scripts_are_modules", "namespace_packages", "explicit_package_bases", "fast_module_lookup",
            "export_ref_info", "timing_stats", "line_checking_stats", "enable_incomplete_features", "no_site_packages", "no_silence_site_packages",
            "allow_empty_bodies", "disable_expression_cache", "mypyc_skip_c_generation", "mypyc_annotation_file", "transform_source"}
    table: list[dict[str, Any]] = []
    for name, dv in sorted(vars(defaults).items()):
        if not isinstance(dv, bool) or name.startswith("_") or name in skip:
            continue
        places = [("ini", {"ini": "%s = %s" % (name, dv)}, {"ini": "%s = %s" % (name, not dv)})]
        if name in flag_for and (not dv) in flag_for[name]:
            places.append(("cli", {}, {"cli": [flag_for[name][not dv]]}))
        if name in PER_MODULE_OPTIONS:
            places.append(("permod", {"permod": "%s = %s" % (name, dv)}, {"permod": "%s = %s" % (name, not dv)}))
        if name in PER_MODULE_OPTIONS:
            # the global value toggles while a [mypy-b] section pins the same option for b
            places.append(("ini+pinned-b", {"ini": "%s = %s" % (name, dv), "permod": "%s = %s" % (name, dv)},
                           {"ini": "%s = %s" % (name, not dv), "permod": "%s = %s" % (name, dv)}))
        if name in PER_MODULE_OPTIONS:
            # the option reaches b only through a wildcard section ([mypy-b.*] covers b and its submodules)
            places.append(("permod-glob", {"permod": "%s = %s" % (name, dv), "section": "b.*"}, {"permod": "%s = %s" % (name, not dv), "section": "b.*"}))
        if name in CONTEXT_FLAGS:
            for ctx, cflag in sorted(dict(CONTEXT_FLAGS, **CTX_ONLY).items()):
                if ctx != name:
                    places.append(("cli+ctx:" + ctx, {"cli": [cflag]}, {"cli": [cflag, CONTEXT_FLAGS[name]]}))
        for place, A, B in places:
            table.append({"opt": name, "place": place, "A": A, "B": B, "idx": 0})
    for name, pairs in VALUED.items():
        for i, (A, B) in enumerate(pairs):
            table.append({"opt": name, "place": "cli" if "cli" in B else "ini", "A": A, "B": B, "idx": i})
            if name in ("enable_error_code", "disable_error_code", "always_true", "always_false"):
                # the same change while a [mypy-b] section gives b its OWN value of that option (a list option: the
                # section's list replaces the global one, the derived per-module sets merge both)
                own = {"enable_error_code": "enable_error_code = unused-awaitable", "disable_error_code": "disable_error_code = no-redef",
                       "always_true": "always_true = OTHER", "always_false": "always_false = OTHER"}[name]
                table.append({"opt": name, "place": "cli+own-section-b", "A": dict(A, permod=own), "B": dict(B, permod=own), "idx": i})
    info = {"in_key": sorted(OPTIONS_AFFECTING_CACHE), "per_module": sorted(PER_MODULE_OPTIONS),
            "bool_options": sorted({t["opt"] for t in table if t["opt"] not in VALUED}), "flags": len(flag_for)}
    return table, info


def post_applied_from_source() -> list[str]:
    """Options read when cached (already rendered) diagnostics are formatted for printing."""
    with open(os.path.join(REPO, "mypy", "errors.py")) as f:
        tree = ast.parse(f.read())
    names: set[str] = set()
    for node in ast.walk(tree):
        if isinstance(node, ast.FunctionDef) and node.name in ("format_messages", "format_messages_default"):
            for n in ast.walk(node):
                if isinstance(n, ast.Attribute) and isinstance(n.value, ast.Attribute) and n.value.attr == "options":
                    names.add(n.attr)
    return sorted(names)


def main(argv: list[str]) -> int:
    tier, seed, replay = parse_args(argv)
    v = Verdict(PID, tier, seed)
    rnd = random.Random(seed)
    W.preload()
    table, info = option_table()
    post = post_applied_from_source()
    if len(info["bool_options"]) < 40 or len(info["in_key"]) < 30 or not post:
        raise MachineryError("option table extraction looks wrong: %r" % {k: len(x) if isinstance(x, list) else x for k, x in info.items()})
    # ---- 1. measure + replay on the real code: every option x place x witness
    cases = []
    wnames = list(WITNESSES)
    for t in table:
        for wn in wnames:
            if (wn == "plugins") != (t["opt"] == "plugins"):
                continue
            if t["place"].startswith("cli+ctx:") and wn not in ("generic", "display", "imports", "typeshed"):
                continue
            if wn == "typeshed":
                if t["place"].startswith("cli+ctx:"):
                    if (t["opt"], t["place"].split(":", 1)[1]) not in TYPESHED_CTX:
                        continue
                elif t["opt"] not in TYPESHED_OPTS:
                    continue
                elif tier == "quick" and t["place"] not in ("cli", "permod"):
                    continue      # the typeshed witness is slow: quick uses two places, thorough all
            cases.append(dict(t, witness=wn))
    results = []
    with ProcessPoolExecutor(16) as pex:
        for res in pex.map(case_worker, cases, chunksize=4):
            results.append(res)
    affected: dict[str, list[Any]] = {}
    stale: dict[str, list[Any]] = {}
    crashes = []
    for r in results:
        c = r["case"]
        if r.get("crash"):
            crashes.append((c, r["crash"]))
        if r["affects"]:
            affected.setdefault(c["opt"], []).append(c)
        for s in r["stale"]:
            stale.setdefault(c["opt"], []).append(dict(c, **s))
    all_opts = sorted({t["opt"] for t in table})
    not_exercised = [o for o in all_opts if o not in affected]
    # ---- 2. the model, with the extracted constants
    in_key = set(info["in_key"])
    # --disable/enable-error-code feed disabled_error_codes / enabled_error_codes, which are in the key
    alias = {"disable_error_code": "disabled_error_codes", "enable_error_code": "enabled_error_codes"}
    mod_inkey = sorted(o for o in all_opts if o in in_key or alias.get(o) in in_key)
    d = scratch("c09spec-")
    with open(os.path.join(d, "MC_CacheKey.tla"), "w") as f:
        f.write("---- MODULE MC_CacheKey ----\nEXTENDS CacheKey\n")
        f.write("OptionsDef == %s\nInKeyDef == %s\nPostDef == %s\nAffectsDef == %s\n" % (
            tla_value(set(all_opts)), tla_value(set(mod_inkey)), tla_value(set(p for p in post if p in all_opts)), tla_value(set(affected))))
        f.write('Report == (runs > 0 /\\ out # Fresh(opt, cur)) => PrintT(<<"STALE", opt>>)\n====\n')
    shutil.copy(os.path.join(SPEC, "CacheKey.tla"), d)
    with open(os.path.join(d, "MC_CacheKey.cfg"), "w") as f:
        f.write("SPECIFICATION Spec\nCONSTANTS\n Options <- OptionsDef\n InKey <- InKeyDef\n PostApplied <- PostDef\n Affects <- AffectsDef\n MaxRuns = 3\nINVARIANT Report\n")
    r = tlc("MC_CacheKey", os.path.join(d, "MC_CacheKey.cfg"), cwd=d, workers=4)
    if not r.ok:
        raise MachineryError("TLC CacheKey: %s %s" % (r.violated, r.error))
    import re as _re
    predicted = sorted({m.group(1) for line in r.printed for m in [_re.match(r'<<"STALE", "(\w+)">>', line)] if m})
    # ---- 3. verdicts (real-vs-real); the model's list is the second opinion
    for opt, lst in sorted(stale.items()):
        first = lst[0]
        v.violation("stale-option:" + opt, {"option": opt, "cases": lst[:6]},
                    "option %s (%s, witness %s, history %s): warm run differs from a cold run with the second run's options: warm %r vs cold %r"
                    % (opt, first["place"], first["witness"], first["history"], first["warm"][:2], first["cold"][:2]))
    for c, tb in crashes[:3]:
        v.notes.append("internal error while measuring %s: %s" % (c, tb[-200:]))
    drift = {"predicted_not_measured": [o for o in predicted if o not in stale], "measured_not_predicted": [o for o in stale if o not in predicted]}
    if not affected or sum(x["runs"] for x in results) == 0:
        raise MachineryError("conformance step did not run")
    coverage = {
        "states": r.distinct, "transitions": r.generated,
        "traces_validated_against_impl": sum(1 for x in results if x["affects"]) * 4,
        "evaluations": len(cases), "distinct_nontrivial": len(affected), "runs": sum(x["runs"] for x in results),
        "options_in_table": len(all_opts), "options_exercised": sorted(affected), "options_not_exercised": not_exercised,
        "in_key": mod_inkey, "post_applied_from_source": post, "model_predicted_stale": predicted, "measured_stale": sorted(stale),
        "model_drift": drift,
        "rule": "every bool attribute of Options (config file global section, command-line flag if any, [mypy-b] section if per-module) and a table of "
                "valued options, x 5 witness programs; Affects measured (cold A vs cold B); every affected (option, place, witness) replayed as "
                "A;B, B;A, A;B;A, B;A;B on one cache, each run compared with the cold run of its options; distinct_nontrivial = options with a witness",
        "samples": [x for x in results if x["affects"]][:3],
        "tlc": coverage_summary(r), "exhaustive": True,
    }
    return v.finish("model_checking", coverage, [
        "A-clock; A-fixtures: in-process build.build, Options built by main.process_options from real mypy.ini / argv",
        "options without a witness program in the catalogue are listed as not exercised and not counted",
        "options that change the cache location (python_version, cache_dir) or the harness itself are excluded",
    ])


if __name__ == "__main__":
    try:
        sys.exit(main(sys.argv[1:]))
    except MachineryError as e:
        print("MACHINERY FAILURE:", e, file=sys.stderr)
        sys.exit(2)
    except Exception:  # an unexpected failure of the machinery is never a verdict about mypy
        import traceback
        traceback.print_exc()
        print("MACHINERY FAILURE: unexpected failure of the machinery", file=sys.stderr)
        sys.exit(2)
