"""Child-process runner for C06's dynamic binding (copied to a scratch dir by the driver; it does
not import the harness).  usage: python c06_runner.py <module name> <iterations> <seed>

For every probe case it prints   BEGIN <case>   before touching compiled code (so that a crash can be
attributed) and then one line   RESULT <json>   with the observed outcomes and the change of
sys.getrefcount() of the tracked objects after <iterations> calls (0 = balanced)."""
import gc
import importlib
import json
import random
import sys


class T:
    __slots__ = ("n", "__weakref__")

    def __init__(self, n):
        self.n = n

    def __repr__(self):
        return "T%d" % self.n


def raiser(exc):
    def f():
        raise exc("boom")
    return f


def ok():
    return None


KINDS = {
    "inst": lambda i: T(i),
    "str": lambda i: "".join(["c06-", str(i), "-str"]),
    "int": lambda i: (1 << 80) + 12345 + i,
    "bytes": lambda i: b"c06" + bytes([65 + i]) * 7,
    "float": lambda i: 12345.25 + i * 1e9,
    "tuple": lambda i: (T(i), i + 1000),
    "list": lambda i: [T(i)],
    "smallint": lambda i: i + 3,      # immortal: a control, its count cannot move
}


def make_tracked(kind):
    """'inst' -> two objects of that kind; 'int+str' -> a of the first kind, b of the second."""
    ka, _, kb = kind.partition("+")
    return KINDS[ka](1), KINDS[kb or ka](2)


def canon(x, depth=0):
    """A process-independent rendering of a result (object identities and hash order do not matter)."""
    if depth > 6:
        return "..."
    if isinstance(x, (set, frozenset)):
        return "{" + ",".join(sorted(canon(i, depth + 1) for i in x)) + "}"
    if isinstance(x, (list, tuple)):
        o, c = ("[", "]") if isinstance(x, list) else ("(", ")")
        return o + ",".join(canon(i, depth + 1) for i in x) + c
    if isinstance(x, dict):
        return "{" + ",".join(canon(k, depth + 1) + ":" + canon(v, depth + 1) for k, v in x.items()) + "}"
    if isinstance(x, (int, float, str, bytes, bool, T, type(None))):
        return repr(x)
    if hasattr(x, "__next__") or type(x).__name__ in ("dict_keys", "dict_values", "dict_items"):
        return type(x).__name__ + canon(list(x), depth + 1)
    if hasattr(x, "c06_fields"):
        return type(x).__name__ + canon(x.c06_fields(), depth + 1)
    return "<" + type(x).__name__ + ">"
ANY = ("inst", "str", "int")
PAD = 1000
KEEP = []

VE, KE = raiser(ValueError), raiser(KeyError)


def drain(g):
    return list(g)


def gen_send_all(m, a, b):
    g = m.gen_send()
    next(g)
    g.send(a)
    try:
        g.send(b)
    except StopIteration as e:
        return e.value
    return None


def gen_close_early(m, a, b):
    g = m.gen_try(a)
    next(g)
    g.close()
    return None


def gen_throw(m, a, b):
    g = m.gen_try(a)
    next(g)
    try:
        g.throw(ValueError("x"))
    except ValueError:
        pass
    return None


def gen_abandon(m, a, b):
    g = m.gen_temp(a, b)
    next(g)
    return None


def gen_temp_all(m, a, b):
    g = m.gen_temp(a, b)
    next(g)
    r = g.send(b)
    return r


def gen_close_no_builtins(m, a, b):
    """close() of a native generator after `del builtins.GeneratorExit, builtins.StopIteration`
    (CPython's own generators do not look these names up).  Run in its own child process."""
    import builtins
    saved = builtins.GeneratorExit, builtins.StopIteration
    g = m.gen_two(a)
    next(g)
    del builtins.GeneratorExit
    del builtins.StopIteration
    try:
        g.close()
    except AttributeError:
        pass          # the compiled generator looks the names up; an exception is acceptable, a crash is not
    finally:
        builtins.GeneratorExit, builtins.StopIteration = saved
    return None


def gen_lit(m, a, b):
    g = m.gen_lit_bytes()
    next(g)
    try:
        g.send(b"!")
    except StopIteration as e:
        return e.value


def gen_lit_t(m, a, b):
    g = m.gen_lit_tuple()
    next(g)
    try:
        g.send(b)
    except StopIteration as e:
        return e.value


# (case name, function the case exercises, object kinds, call, typed)
#   typed = the call passes a value of the wrong static type on purpose: the compiled code raises
#   TypeError where the interpreter does not check, so outcomes are not compared with CPython.
CASES = [
    ("ret_arg", "ret_arg", ANY, lambda m, a, b: m.ret_arg(a), False),
    ("ret_other.t", "ret_other", ANY, lambda m, a, b: m.ret_other(a, b, True), False),
    ("ret_other.f", "ret_other", ANY, lambda m, a, b: m.ret_other(a, b, False), False),
    ("swap_loop", "swap_loop", ANY, lambda m, a, b: m.swap_loop(a, b, 3), False),
    ("drop", "drop", ANY, lambda m, a, b: m.drop(a), False),
    ("last_of", "last_of", ANY, lambda m, a, b: m.last_of([a, b, a]), False),
    ("last_of.empty", "last_of", ANY, lambda m, a, b: m.last_of([]), False),
    ("opt_arg.1", "opt_arg", ANY, lambda m, a, b: m.opt_arg(a), False),
    ("opt_arg.2", "opt_arg", ANY, lambda m, a, b: m.opt_arg(a, b), False),
    ("kw_args", "kw_args", ANY, lambda m, a, b: m.kw_args(a, b=b), False),
    ("star_call", "star_call", ANY, lambda m, a, b: m.star_call(a, b), False),
    ("mk_pair", "mk_pair", ANY, lambda m, a, b: m.mk_pair(a, b), False),
    ("box_pair", "box_pair", ANY, lambda m, a, b: m.box_pair(a, b), False),
    ("dup_steal", "dup_steal", ANY, lambda m, a, b: m.dup_steal(a), False),
    ("dup_steal_list", "dup_steal_list", ANY, lambda m, a, b: m.dup_steal_list(a), False),
    ("unpack_first", "unpack_first", ANY, lambda m, a, b: m.unpack_first((a, b)), False),
    ("unpack_first.bad", "unpack_first", ANY, lambda m, a, b: m.unpack_first((a, b, a)), True),
    ("unpack_call", "unpack_call", ANY, lambda m, a, b: m.unpack_call(a, b), False),
    ("nested_tuple", "nested_tuple", ANY, lambda m, a, b: m.nested_tuple(a, b), False),
    ("unbox_pair", "unbox_pair", ANY, lambda m, a, b: m.unbox_pair((a, b)), False),
    ("unbox_pair.bad", "unbox_pair", ANY, lambda m, a, b: m.unbox_pair([a, b]), True),
    ("tuple_loop", "tuple_loop", ANY, lambda m, a, b: m.tuple_loop(a, 3), False),
    ("list_build", "list_build", ANY, lambda m, a, b: m.list_build(a, b), False),
    ("list_get", "list_get", ANY, lambda m, a, b: m.list_get([a, b], 1), False),
    ("list_get.oob", "list_get", ANY, lambda m, a, b: m.list_get([a, b], 5), False),
    ("list_set", "list_set", ANY, lambda m, a, b: m.list_set([a, b], 0, b), False),
    ("list_set.oob", "list_set", ANY, lambda m, a, b: m.list_set([a, b], 7, b), False),
    ("list_append_pop", "list_append_pop", ANY, lambda m, a, b: m.list_append_pop(a), False),
    ("list_comp", "list_comp", ANY, lambda m, a, b: m.list_comp([a, None, b]), False),
    ("dict_roundtrip", "dict_roundtrip", ANY, lambda m, a, b: m.dict_roundtrip(a, b), False),
    ("dict_roundtrip.unhashable", "dict_roundtrip", ANY, lambda m, a, b: m.dict_roundtrip([a], b), False),
    ("dict_get", "dict_get", ANY, lambda m, a, b: m.dict_get({a: b}, a), False),
    ("dict_get.missing", "dict_get", ANY, lambda m, a, b: m.dict_get({a: b}, b), False),
    ("dict_iter", "dict_iter", ANY, lambda m, a, b: m.dict_iter({a: b, b: a}), False),
    ("set_ops", "set_ops", ANY, lambda m, a, b: m.set_ops(a, b), False),
    ("str_append", "str_append", ("str",), lambda m, a, b: m.str_append(a, b), False),
    ("str_format", "str_format", ("str",), lambda m, a, b: m.str_format(a, b), False),
    ("str_join", "str_join", ("str",), lambda m, a, b: m.str_join([a, b, a], b), False),
    ("str_join.bad", "str_join", ("str",), lambda m, a, b: m.str_join([a, 5, b], b), True),
    ("big_add", "big_add", ("int",), lambda m, a, b: m.big_add(a, b), False),
    ("int_loop", "int_loop", ("int",), lambda m, a, b: m.int_loop(a, 4), False),
    ("cast_str.ok", "cast_str", ("str",), lambda m, a, b: m.cast_str(a), False),
    ("cast_str.bad", "cast_str", ("inst", "int"), lambda m, a, b: m.cast_str(a), True),
    ("cast_keep.ok", "cast_keep", ("str",), lambda m, a, b: m.cast_keep(a), False),
    ("cast_keep.bad", "cast_keep", ("inst",), lambda m, a, b: m.cast_keep(a), True),
    ("unbox_int.ok", "unbox_int", ("int",), lambda m, a, b: m.unbox_int(a), False),
    ("unbox_int.bad", "unbox_int", ("inst", "str"), lambda m, a, b: m.unbox_int(a), True),
    ("cast_list_item.ok", "cast_list_item", ("str",), lambda m, a, b: m.cast_list_item(a), False),
    ("cast_list_item.bad", "cast_list_item", ("inst",), lambda m, a, b: m.cast_list_item(a), True),
    ("isinstance_narrow", "isinstance_narrow", ANY, lambda m, a, b: m.isinstance_narrow(a), False),
    ("attr_swap", "attr_swap", ANY, lambda m, a, b: m.attr_swap(m.Box(a), b), False),
    ("attr_chain", "attr_chain", ANY, lambda m, a, b: m.attr_chain(a), False),
    ("attr_maybe.def", "attr_maybe", ANY, lambda m, a, b: m.attr_maybe(a, True), False),
    ("attr_maybe.undef", "attr_maybe", ANY, lambda m, a, b: m.attr_maybe(a, False), False),
    ("attr_del", "attr_del", ANY, lambda m, a, b: m.attr_del(a), False),
    ("prop_set", "prop_set", ANY, lambda m, a, b: m.prop_set(a), False),
    ("method_call", "method_call", ANY, lambda m, a, b: m.method_call(a), False),
    ("call_raises.ok", "call_raises", ANY, lambda m, a, b: m.call_raises(a, ok), False),
    ("call_raises.raise", "call_raises", ANY, lambda m, a, b: m.call_raises(a, VE), False),
    ("try_except.ok", "try_except", ANY, lambda m, a, b: m.try_except(a, ok), False),
    ("try_except.caught", "try_except", ANY, lambda m, a, b: m.try_except(a, VE), False),
    ("try_except.other", "try_except", ANY, lambda m, a, b: m.try_except(a, KE), False),
    ("try_finally.ok", "try_finally", ANY, lambda m, a, b: m.try_finally(a, ok), False),
    ("try_finally.raise", "try_finally", ANY, lambda m, a, b: m.try_finally(a, VE), False),
    ("try_except_as.ok", "try_except_as", ANY, lambda m, a, b: m.try_except_as(a, ok), False),
    ("try_except_as.caught", "try_except_as", ANY, lambda m, a, b: m.try_except_as(a, VE), False),
    ("try_except_as.reraise", "try_except_as", ANY, lambda m, a, b: m.try_except_as(a, KE), False),
    ("nested_try.ok", "nested_try", ANY, lambda m, a, b: m.nested_try(a, ok, ok), False),
    ("nested_try.f", "nested_try", ANY, lambda m, a, b: m.nested_try(a, KE, ok), False),
    ("nested_try.g", "nested_try", ANY, lambda m, a, b: m.nested_try(a, ok, KE), False),
    ("nested_try.fg", "nested_try", ANY, lambda m, a, b: m.nested_try(a, VE, VE), False),
    ("raise_with", "raise_with", ANY, lambda m, a, b: m.raise_with(a), False),
    ("reraise_from", "reraise_from", ANY, lambda m, a, b: m.reraise_from(a, VE), False),
    ("with_stmt.ok", "with_stmt", ANY, lambda m, a, b: m.with_stmt(a, ok, False), False),
    ("with_stmt.raise", "with_stmt", ANY, lambda m, a, b: m.with_stmt(a, VE, False), False),
    ("with_stmt.swallow", "with_stmt", ANY, lambda m, a, b: m.with_stmt(a, VE, True), False),
    ("loop_break", "loop_break", ANY, lambda m, a, b: m.loop_break([a, b], VE), False),
    ("undef_local.def", "undef_local", ANY, lambda m, a, b: m.undef_local(True, a), False),
    ("undef_local.undef", "undef_local", ANY, lambda m, a, b: m.undef_local(False, a), False),
    ("undef_after_del.def", "undef_after_del", ANY, lambda m, a, b: m.undef_after_del(a, False), False),
    ("undef_after_del.undef", "undef_after_del", ANY, lambda m, a, b: m.undef_after_del(a, True), False),
    ("undef_int.def", "undef_int", ("inst",), lambda m, a, b: m.undef_int(True), False),
    ("undef_int.undef", "undef_int", ("inst",), lambda m, a, b: m.undef_int(False), False),
    ("undef_in_loop.def", "undef_in_loop", ANY, lambda m, a, b: m.undef_in_loop([a, b]), False),
    ("undef_in_loop.undef", "undef_in_loop", ANY, lambda m, a, b: m.undef_in_loop([]), False),
    ("undef_try.def", "undef_try", ANY, lambda m, a, b: m.undef_try(a, ok), False),
    ("undef_try.undef", "undef_try", ANY, lambda m, a, b: m.undef_try(a, VE), False),
    ("closure", "closure", ANY, lambda m, a, b: m.closure(a), False),
    ("lambda_capture", "lambda_capture", ANY, lambda m, a, b: m.lambda_capture(a), False),
    ("gen_all", "gen_two", ANY, lambda m, a, b: m.gen_all(a), False),
    ("gen_partial", "gen_two", ANY, lambda m, a, b: m.gen_partial(a), False),
    ("gen_send", "gen_send", ANY, gen_send_all, False),
    ("gen_try.drain", "gen_try", ANY, lambda m, a, b: drain(m.gen_try(a)), False),
    ("gen_try.close", "gen_try", ANY, gen_close_early, False),
    ("gen_try.throw", "gen_try", ANY, gen_throw, False),
    ("gen_temp.all", "gen_temp", ANY, gen_temp_all, False),
    ("gen_temp.abandon", "gen_temp", ANY, gen_abandon, False),
    ("gen_close_no_builtins", "gen_two", ("inst",), gen_close_no_builtins, True),
    ("gen_lit_bytes", "gen_lit_bytes", ("lit_bytes",), gen_lit, False),
    ("gen_lit_tuple", "gen_lit_tuple", ("lit_tuple",), gen_lit_t, False),
]


def measure(m, call, a, b, n, vals=None):
    pad = [a] * PAD + [b] * PAD
    outs = []
    base = (sys.getrefcount(a), sys.getrefcount(b))
    for _ in range(n):
        try:
            r = call(m, a, b)
            out = "ret"
            if vals is not None and not vals:
                vals.append(canon(r))
        except Exception as e:
            out = type(e).__name__
        r = None
        if out not in outs:
            outs.append(out)
    delta = (sys.getrefcount(a) - base[0], sys.getrefcount(b) - base[1])
    if delta != (0, 0):      # garbage cycles may still hold references: collect and look again
        gc.collect()
        delta = (sys.getrefcount(a) - base[0], sys.getrefcount(b) - base[1])
    if min(delta) < 0:
        KEEP.append(pad)   # over-released: never drop the padding, the object must not reach zero
    del pad
    return outs, delta


ISOLATED = {"gen_close_no_builtins"}    # cases that may kill the process: only run when asked for by name


def main():
    modname, n, seed = sys.argv[1], int(sys.argv[2]), int(sys.argv[3])
    only = sys.argv[4] if len(sys.argv) > 4 else None
    m = importlib.import_module(modname)
    rnd = random.Random(seed)
    global CASES
    if modname in ("c06gen", "c06def"):
        # the generated / definedness families: every function with every combination of
        # (callee behaviour, flag)
        pre = "g" if modname == "c06gen" else "d"
        CASES = []
        i = 0
        while hasattr(m, "%s%d" % (pre, i)):
            nm = "%s%d" % (pre, i)
            for fname, fobj in (("ok", ok), ("VE", VE), ("KE", KE)):
                for c in (False, True):
                    CASES.append(("%s.%s.%d" % (nm, fname, c), nm, ("inst", "int"),
                                  (lambda m, a, b, nm=nm, fobj=fobj, c=c: getattr(m, nm)(a, b, fobj, c)), False))
            i += 1
    import os
    if os.path.exists(modname + "_cases.json"):
        # table-driven families (primitive contracts, wrappers): the call is an expression over
        # m (the module), a, b (the tracked objects) and the helpers of this file
        with open(modname + "_cases.json") as f:
            table = json.load(f)
        CASES = []
        for c in table:
            code = compile(c["call"], c["name"], "eval")
            CASES.append((c["name"], c["fn"], tuple(c["kinds"]),
                          (lambda m, a, b, code=code: eval(code, {"m": m, "a": a, "b": b, "T": T, "ok": ok, "VE": VE, "KE": KE})),
                          bool(c.get("typed"))))
    skip = set(json.loads(os.environ.get("C06_SKIP", "[]")))   # "case/kind" entries already run (or fatal) in an earlier child
    order = list(range(len(CASES)))
    rnd.shuffle(order)   # the seed only permutes the order of the cases
    for ci in order:
        name, fn, kinds, call, typed = CASES[ci]
        if (name != only) if only else (name in ISOLATED):
            continue
        for kind in kinds:
            if kind == "lit_bytes":
                a, b = m.lit_bytes(), T(0)
            elif kind == "lit_tuple":
                a, b = m.lit_tuple(), T(0)
            else:
                a, b = make_tracked(kind)
            if "%s/%s" % (name, kind) in skip:
                continue
            print("BEGIN %s/%s" % (name, kind), flush=True)
            vals = []
            outs, delta = measure(m, call, a, b, n, vals)
            print("RESULT " + json.dumps({"case": name, "fn": fn, "kind": kind, "outs": outs,
                                          "delta": list(delta), "n": n, "typed": typed,
                                          "value": vals[0] if vals else None}), flush=True)
    print("DONE", flush=True)


if __name__ == "__main__":
    main()
