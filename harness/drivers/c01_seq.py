"""C01, fragment 2: `match` with sequence patterns over tuple- / list-typed subjects (spec/SeqMatch.tla).

TLC enumerates (subject type, case list) programs, checks the soundness of the transcribed refutability / possibility /
capture rules against the exact run-time semantics of sequence patterns, and emits every program with the static
verdicts and, per value length, how many member values each case matches.  Every program is rendered as Python and
  (i)   checked by the real mypy (real typeshed, in-process, incremental cache for typeshed only): reachability of every
        case body and of the code after the match, and the revealed capture types, must equal the specification's
        (a difference is model drift);
  (ii)  executed by CPython on every member value of the subject type of length 0..4: the matched case counts must equal
        the specification's (binds the specification's run-time semantics to CPython: a difference is a machinery
        failure); for programs mypy accepts, no probe mypy did not reveal may fire, the subject and every capture must be
        members of the types mypy revealed for them -- a difference is a VIOLATION (real mypy vs CPython).
Programs on which the pinned mypy crashes (specification: Crash) are replayed one per module and must crash.
"""
from __future__ import annotations

import contextlib
import io
import itertools
import json
import os
import re
import time
from typing import Any

from harness.common import MachineryError

ELEMS = [0, 1, "a"]
MAXLEN = 4
ITEM_TEXT = {"I": "int", "S": "str"}


# =========================================================================== rendering
def type_text(t: list[Any]) -> str:
    k, pre, star, suf = t
    if k == "fix":
        return "tuple[%s]" % (", ".join(ITEM_TEXT[x] for x in pre) if pre else "()")
    if k == "var":
        items = [ITEM_TEXT[x] for x in pre] + ["*tuple[%s, ...]" % ITEM_TEXT[star]] + [ITEM_TEXT[x] for x in suf]
        return "tuple[%s]" % ", ".join(items)
    if k == "hom":
        return "tuple[%s, ...]" % ITEM_TEXT[star]
    return "list[%s]" % ITEM_TEXT[star]


def subject_text(subj: list[Any]) -> str:
    return " | ".join(type_text(t) for t in subj)


def pattern_text(p: list[str], k: int) -> str:
    out = []
    for i, q in enumerate(p):
        out.append({"cap": "c%d_%d" % (k, i), "wild": "_", "lit0": "0", "int": "int()", "str": "str()",
                    "scap": "*c%d_%d" % (k, i), "swild": "*_"}[q])
    return "[%s]" % ", ".join(out)


def key_of(rec: dict[str, Any]) -> str:
    return "match t: %s { %s }" % (subject_text(rec["subj"]),
                                   " ".join("case %s:" % pattern_text(p, k + 1) for k, p in enumerate(rec["cases"])))


def decode(arr: list[Any]) -> dict[str, Any]:
    subj, cases, reach, after, caps, counts, vague, status = arr
    return {"subj": subj, "cases": cases, "reach": reach, "after": after, "caps": caps, "counts": counts, "vague": vague,
            "status": status, "crash": status == "crash", "opaque": status == "opaque"}


PRELUDE = "def P(f: int, k: int, s: int, v: object) -> None: pass\n"


def render(recs: list[dict[str, Any]]) -> tuple[str, list[dict[str, Any]]]:
    lines = PRELUDE.rstrip("\n").split("\n")
    infos = []
    for fi, rec in enumerate(recs):
        info: dict[str, Any] = {"first": len(lines) + 1, "probe": {}}
        lines.append("def s%d(t: %s) -> int:" % (fi, subject_text(rec["subj"])))
        lines.append("    match t:")
        for k, p in enumerate(rec["cases"], 1):
            lines.append("        case %s:" % pattern_text(p, k))
            lines.append("            P(%d, %d, 0, reveal_type(t))" % (fi, k))
            info["probe"][(k, 0)] = len(lines)
            for i, q in enumerate(p):
                if q in ("cap", "scap"):
                    lines.append("            P(%d, %d, %d, reveal_type(c%d_%d))" % (fi, k, i + 1, k, i))
                    info["probe"][(k, i + 1)] = len(lines)
            lines.append("            return %d" % k)
        lines.append("    P(%d, 0, 0, reveal_type(t))" % fi)
        info["probe"][(0, 0)] = len(lines)
        lines.append("    return 0")
        info["last"] = len(lines)
        infos.append(info)
    return "\n".join(lines) + "\n", infos


# =========================================================================== types revealed by mypy -> predicates
def split_top(s: str, sep: str) -> list[str]:
    out, depth, cur = [], 0, ""
    i = 0
    while i < len(s):
        ch = s[i]
        if ch == "[":
            depth += 1
        elif ch == "]":
            depth -= 1
        if depth == 0 and s.startswith(sep, i):
            out.append(cur)
            cur = ""
            i += len(sep)
            continue
        cur += ch
        i += 1
    out.append(cur)
    return [x.strip() for x in out]


def member(v: Any, t: str) -> bool:
    """Is the run-time value v a member of the type mypy printed as t?  (Only the forms of this fragment.)"""
    parts = split_top(t, " | ")
    if len(parts) > 1:
        return any(member(v, p) for p in parts)
    t = t.strip()
    if t in ("int", "builtins.int"):
        return type(v) is int
    if t in ("str", "builtins.str"):
        return type(v) is str
    if t == "Never":
        return False
    m = re.fullmatch(r"Literal\[(.*)\]", t)
    if m:
        lit = m.group(1)
        return (type(v) is int and str(v) == lit) or (type(v) is str and repr(v) in (lit, lit.replace("'", '"')))
    if t.startswith("list[") and t.endswith("]"):
        return type(v) is list and all(member(e, t[5:-1]) for e in v)
    if t.startswith("tuple[") and t.endswith("]"):
        if type(v) is not tuple:
            return False
        inner = t[6:-1]
        if inner == "()":
            return len(v) == 0
        items = split_top(inner, ", ")
        if len(items) == 2 and items[1] == "...":
            return all(member(e, items[0]) for e in v)
        stars = [i for i, it in enumerate(items) if it.startswith("*")]
        if not stars:
            return len(v) == len(items) and all(member(e, it) for e, it in zip(v, items))
        if len(stars) != 1:
            raise MachineryError("tuple type with two unpacks: " + t)
        u = stars[0]
        pre, suf = items[:u], items[u + 1:]
        mm = re.fullmatch(r"\*tuple\[(.*), \.\.\.\]", items[u])
        if not mm:
            raise MachineryError("unparsed unpack item: " + t)
        if len(v) < len(pre) + len(suf):
            return False
        mid = v[len(pre): len(v) - len(suf)]
        return (all(member(e, it) for e, it in zip(v, pre)) and all(member(e, mm.group(1)) for e in mid)
                and all(member(e, it) for e, it in zip(v[len(v) - len(suf):], suf)))
    raise MachineryError("unparsed type from mypy: " + t)


def cap_classes(text: str, star: bool) -> set[str] | None:
    """Classes {I, S} of a revealed capture type (items of the list for a star capture); None if unparsed."""
    if star:
        res0: set[str] = set()
        for part in split_top(text, " | "):           # union subject: list[int] | list[str]
            if not (part.startswith("list[") and part.endswith("]")):
                return None
            inner = cap_classes(part[5:-1], False)
            if inner is None:
                return None
            res0 |= inner
        return res0
    res = set()
    for part in split_top(text, " | "):
        if part == "int" or part.startswith("Literal[") and not part.startswith("Literal['"):
            res.add("I")
        elif part == "str" or part.startswith("Literal['"):
            res.add("S")
        elif part == "Never":
            pass
        else:
            return None
    return res


# =========================================================================== real mypy
_RE_MSG = re.compile(r"^[^:]+:(\d+): (error|note): (.*)$")
_RE_REV = re.compile(r'^Revealed type is "(.*)"$')


def run_mypy(text: str, cache_dir: str, name: str = "seqm") -> dict[str, Any]:
    from mypy import build
    from mypy.modulefinder import BuildSource
    from mypy.options import Options

    o = Options()
    o.python_version = (3, 12)
    o.incremental = True
    o.cache_dir = cache_dir
    o.show_traceback = False
    o.many_errors_threshold = -1
    o.error_summary = False
    o.color_output = False
    so, se = io.StringIO(), io.StringIO()
    try:
        with contextlib.redirect_stdout(so), contextlib.redirect_stderr(se):
            res = build.build([BuildSource(name + ".py", name, text)], o)
        msgs = res.errors
        crash = None
    except SystemExit:
        msgs = []
        crash = (so.getvalue() + se.getvalue())[-600:]
    except Exception as e:  # mypy reports internal errors through report_internal_error -> SystemExit; be safe
        msgs = []
        crash = "%s: %s" % (type(e).__name__, e)
    reveals: dict[int, str] = {}
    errors: dict[int, list[str]] = {}
    for m in msgs:
        mm = _RE_MSG.match(m)
        if not mm:
            continue
        line, sev, msg = int(mm.group(1)), mm.group(2), mm.group(3)
        r = _RE_REV.match(msg)
        if sev == "note" and r:
            reveals[line] = r.group(1)
        elif sev == "error":
            errors.setdefault(line, []).append(msg)
    return {"reveals": reveals, "errors": errors, "crash": crash}


# =========================================================================== CPython
def values_of(subj: list[Any]) -> list[Any]:
    out = []
    for n in range(MAXLEN + 1):
        for combo in itertools.product(ELEMS, repeat=n):
            for t in subj:
                k, pre, star, suf = t
                cls = ["S" if type(e) is str else "I" for e in combo]
                if k == "fix":
                    ok = cls == list(pre)
                elif k == "var":
                    ok = (n >= len(pre) + len(suf) and cls[:len(pre)] == list(pre) and cls[n - len(suf):] == list(suf)
                          and all(c == star for c in cls[len(pre): n - len(suf)]))
                else:
                    ok = all(c == star for c in cls)
                if ok:
                    out.append(list(combo) if k == "list" else tuple(combo))
                    break
    return out


def check_chunk(job: tuple[int, list[dict[str, Any]], str]) -> dict[str, Any]:
    cid, recs, root = job
    cache = os.path.join(root, "seqcache-%d" % os.getpid())
    text, infos = render(recs)
    t0 = time.time()
    mres = run_mypy(text, cache)
    if mres["crash"]:
        raise MachineryError("mypy crashed on a sequence-pattern module without predicted crash: " + mres["crash"][-300:])
    t_mypy = time.time() - t0
    g: dict[str, Any] = {}
    exec(compile(text, "seqm.py", "exec"), g)
    g["reveal_type"] = lambda v: v
    state: dict[str, Any] = {"exp": None, "bad": None, "hit": None}

    def P(f: int, k: int, s: int, v: Any) -> None:
        if s == 0:
            state["hit"] = k
        exp = state["exp"]
        if exp is None or state["bad"] is not None:
            return
        t = exp.get((k, s))
        if t is None:
            state["bad"] = ("unreachable-executed", "%s runs, mypy treated it as unreachable"
                            % ("the code after the match" if k == 0 else "the body of case %d" % k))
        elif not member(v, t):
            state["bad"] = ("member", "%s holds %r, mypy says %s" % ("t" if s == 0 else "capture %d of case %d" % (s - 1, k), v, t))

    g["P"] = P
    drift, bad = [], []
    rejected: list[str] = []
    n_exec = n_acc = n_probe = 0
    for fi, rec in enumerate(recs):
        info = infos[fi]
        errs = {ln: m for ln, m in mres["errors"].items() if info["first"] <= ln <= info["last"]}
        rev = {pt: mres["reveals"].get(ln) for pt, ln in info["probe"].items()}
        accepted = not errs
        n_acc += accepted
        # (i) specification vs mypy (not for the programs the specification leaves opaque)
        why = None
        if rec.get("opaque"):
            why = ""
        elif errs:
            # e.g. "Incompatible types in capture pattern" from the first pass that infers one variable type per
            # capture name over the un-narrowed subject: mypy rejects the program; rejections are not modelled here
            why = ""
            rejected.append(key_of(rec))
        for k, p in enumerate(rec["cases"], 1):
            if why is not None:
                break
            n_probe += 1
            if rec["vague"][k - 1] and not rec["reach"][k - 1]:
                continue        # impossible sub-pattern on a variadic tuple: mypy's answer is not specified
            if (rev[(k, 0)] is not None) != rec["reach"][k - 1]:
                why = "case %d: spec %s, mypy %s" % (k, "possible" if rec["reach"][k - 1] else "impossible",
                                                    "reachable" if rev[(k, 0)] is not None else "unreachable")
                break
            if rev[(k, 0)] is None:
                continue
            for i, q in enumerate(p):
                if q in ("cap", "scap"):
                    got = rev[(k, i + 1)]
                    cl = None if got is None else cap_classes(got, q == "scap")
                    if cl is None or cl != set(rec["caps"][k - 1][i]):
                        why = "case %d capture %d: mypy reveals %s, spec %s" % (k, i, got, sorted(rec["caps"][k - 1][i]))
                        break
        if why is None and (rev[(0, 0)] is not None) != rec["after"]:
            why = "after the match: spec %s, mypy %s" % ("reachable" if rec["after"] else "unreachable",
                                                          "reachable" if rev[(0, 0)] is not None else "unreachable")
        if why:
            drift.append({"prog": key_of(rec), "why": why, "accepted_by_mypy": accepted})
        # (ii) CPython on every member value; (iii) the specification's run-time semantics
        fn = g["s%d" % fi]
        counts = [[0] * (len(rec["cases"]) + 1) for _ in range(MAXLEN + 1)]
        state["exp"] = {pt: t for pt, t in rev.items()} if accepted else None
        first_bad = None
        for v in values_of(rec["subj"]):
            state["bad"] = None
            state["hit"] = None
            n_exec += 1
            try:
                r = fn(v)
                outcome = None if type(r) is int else ("return", "returns %r, declared int" % (r,))
            except (TypeError, AttributeError) as e:
                outcome, r = ("exception", "%s: %s" % (type(e).__name__, e)), None
            if r is not None:
                counts[len(v)][r] += 1
            problem = state["bad"] or outcome
            if accepted and problem and first_bad is None:
                first_bad = {"kind": problem[0], "what": problem[1], "value": repr(v)}
        if counts != rec["counts"]:
            raise MachineryError("specification and CPython disagree on which case matches: %s spec %s CPython %s"
                                 % (key_of(rec), rec["counts"], counts))
        if first_bad:
            bad.append(dict(first_bad, prog=key_of(rec), status=rec.get("status", "?"),
                            rec={"subj": rec["subj"], "cases": rec["cases"]}))
    sample = None
    if cid == 0 and recs:
        fi = min(len(recs) - 1, 7)
        sample = {"program": key_of(recs[fi]), "python": text.split("\n")[infos[fi]["first"] - 1: infos[fi]["last"]],
                  "mypy_revealed": {str(k): v for k, v in sorted(((pt, mres["reveals"].get(ln)) for pt, ln in infos[fi]["probe"].items()))}}
    return {"cid": cid, "n": len(recs), "accepted": n_acc, "drift": drift, "bad": bad, "executions": n_exec,
            "probes": n_probe, "t_mypy": t_mypy, "sample": sample, "rejected": len(rejected)}


def check_crash(job: tuple[int, dict[str, Any], str]) -> dict[str, Any]:
    """A program the specification predicts mypy crashes on: alone in its module."""
    cid, rec, root = job
    text, _ = render([rec])
    mres = run_mypy(text, os.path.join(root, "seqcache-%d" % os.getpid()), "seqc%d" % cid)
    return {"prog": key_of(rec), "crashed": mres["crash"] is not None, "errors": bool(mres["errors"]),
            "detail": (mres["crash"] or "")[-200:]}


def recheck(rec: dict[str, Any], root: str) -> list[dict[str, Any]]:
    """Run one program (without specification verdicts) alone: used for reproduction and minimisation."""
    full = dict(rec, reach=[True] * len(rec["cases"]), after=True, caps=[[[] for _ in p] for p in rec["cases"]],
                counts=None, crash=False)
    text, infos = render([full])
    mres = run_mypy(text, os.path.join(root, "seqcache-%d" % os.getpid()), "seqr")
    if mres["crash"]:
        return []
    info = infos[0]
    if any(info["first"] <= ln <= info["last"] for ln in mres["errors"]):
        return []
    rev = {pt: mres["reveals"].get(ln) for pt, ln in info["probe"].items()}
    g: dict[str, Any] = {}
    exec(compile(text, "seqr.py", "exec"), g)
    g["reveal_type"] = lambda v: v
    st: dict[str, Any] = {"bad": None}

    def P(f: int, k: int, s: int, v: Any) -> None:
        if st["bad"] is not None:
            return
        t = rev.get((k, s))
        if t is None:
            st["bad"] = ("unreachable-executed", "%s runs, mypy treated it as unreachable"
                         % ("the code after the match" if k == 0 else "the body of case %d" % k))
        elif not member(v, t):
            st["bad"] = ("member", "%s holds %r, mypy says %s" % ("t" if s == 0 else "capture %d of case %d" % (s - 1, k), v, t))

    g["P"] = P
    out = []
    for v in values_of(rec["subj"]):
        st["bad"] = None
        try:
            g["s0"](v)
        except (TypeError, AttributeError) as e:
            st["bad"] = st["bad"] or ("exception", str(e))
        if st["bad"]:
            out.append({"kind": st["bad"][0], "what": st["bad"][1], "value": repr(v)})
            break
    return out


def minimise(rec: dict[str, Any], root: str) -> dict[str, Any]:
    """1-minimal failing program: drop a case, drop a pattern item, or weaken an item to a wildcard."""
    cur = {"subj": rec["subj"], "cases": rec["cases"]}
    for _ in range(30):
        cands = []
        if len(cur["subj"]) > 1:
            for j in range(len(cur["subj"])):
                cands.append({"subj": cur["subj"][:j] + cur["subj"][j + 1:], "cases": cur["cases"]})
        if len(cur["cases"]) > 1:
            for k in range(len(cur["cases"])):
                cands.append({"subj": cur["subj"], "cases": cur["cases"][:k] + cur["cases"][k + 1:]})
        for k, p in enumerate(cur["cases"]):
            for i, q in enumerate(p):
                cands.append({"subj": cur["subj"], "cases": cur["cases"][:k] + [p[:i] + p[i + 1:]] + cur["cases"][k + 1:]})
                weak = "swild" if q in ("scap", "swild") else "wild"
                if q != weak:
                    cands.append({"subj": cur["subj"], "cases": cur["cases"][:k] + [p[:i] + [weak] + p[i + 1:]] + cur["cases"][k + 1:]})
        for c in cands:
            if recheck(c, root):
                cur = c
                break
        else:
            break
    return cur
