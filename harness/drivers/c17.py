"""C17 -- configuration sources are equivalent and precedence is as documented.

Specification: spec/Config.tla.  It holds, side by side, the DOCUMENTED precedence rule
(`Resolve`, written from docs/source/config_file.rst + inline_config.rst) and a transcription of
the implementation (process_options -> build_per_module_cache -> clone_for_module ->
compile_glob -> inline comment), one action per step of the code.  TLC compares the two over
every bounded configuration and emits every configuration together with the documented value
of the option for each of 39 module names.

Binding: every emitted configuration is written as a real config file (mypy.ini / setup.cfg /
pyproject.toml / a discovered mypy.ini) + command line + `# mypy:` comment and pushed through the
real mypy.main.process_options, Options.process_error_codes, Options.clone_for_module,
mypy.util.get_mypy_comments, config_parser.parse_mypy_comments and Options.apply_changes (the
steps of build.State.apply_inline_configuration); a sample also through real builds
(State.options + diagnostics of witness programs) and the real command line.  The ORACLE is
the documented rule as evaluated by TLC; the model's implementation side and its `cache` /
`globs` / `base` variables are compared too (drift detection, never a verdict).

Second part (source equivalence): for every flag of main.define_options and every key of
config_parser.ini_config_types the same setting is supplied through each source that accepts it
and the resulting Options snapshots are compared pairwise (real vs real).
"""
from __future__ import annotations

import io
import itertools
import json
import multiprocessing
import os
import random
import re
import subprocess
import sys
import time
from concurrent.futures import ThreadPoolExecutor
from typing import Any

from harness.common import (MachineryError, PY, REPO, SPEC, Verdict, coverage_summary, parse_args,
                            repo_env, sany, scratch, tlc)

PID = "C17"
LETTERS = "abc"
MODS = ([x for x in LETTERS] + [".".join(t) for t in itertools.product(LETTERS, repeat=2)]
        + [".".join(t) for t in itertools.product(LETTERS, repeat=3)])
UNSET = "-"
FORMATS = ("ini", "toml", "setupcfg", "discover")
# the reference spelling used when a failing configuration is minimised
FILLERS = ("warn_unused_ignores", "warn_unreachable")


# =========================================================================== option tables
def _parser() -> Any:
    from mypy.main import define_options
    return define_options("mypy", "", io.StringIO(), io.StringIO(), False)[0]


def _inversions(dest: str, template: Any) -> list[str]:
    """Config-file names that mean `not dest` (docs: "Inverting option values")."""
    res = []
    if not dest.startswith("no_"):
        res.append("no_" + dest)
    for a, b in (("disallow_", "allow_"), ("allow_", "disallow_"), ("show_", "hide_"), ("hide_", "show_")):
        if dest.startswith(a):
            cand = b + dest[len(a):]
            if not hasattr(template, cand):
                res.append(cand)
    return res


def build_optmaps() -> dict[str, Any]:
    """Refinement maps model value -> real spelling per source, read off the real tables."""
    import argparse
    from mypy.options import PER_MODULE_OPTIONS, Options

    parser = _parser()
    tmpl = Options()
    flags: dict[str, dict[Any, list[str]]] = {}
    for a in parser._actions:
        if not a.option_strings or a.dest.startswith("special-opts:"):
            continue
        if isinstance(a, (argparse._StoreTrueAction, argparse._StoreFalseAction)):
            for s in a.option_strings:
                if s.startswith("--"):
                    flags.setdefault(a.dest, {}).setdefault(a.const, []).append(s)
    maps: dict[str, Any] = {}
    # every option that may appear in a [mypy-...] section / inline comment and is boolean
    for dest in sorted(PER_MODULE_OPTIONS):
        dv = getattr(tmpl, dest, None)
        if not isinstance(dv, bool) or dest == "mypyc":
            continue
        real = {"p": (not dv), "q": dv, "d": dv}
        cfgsp = {}
        for ch in "pq":
            v = real[ch]
            cfgsp[ch] = [(dest, v)] + [(k, not v) for k in _inversions(dest, tmpl)]
        cmd = {ch: [[f] for f in flags.get(dest, {}).get(real[ch], [])] for ch in "pq"}
        maps[dest] = {"dest": dest, "kind": "bool", "per_module": True, "real": real, "cfg": cfgsp,
                      "cmd": cmd, "has_cmd": all(cmd[ch] for ch in "pq")}
    # the enum-like per-module option
    real = {"p": "skip", "q": "silent", "r": "error", "d": "normal"}
    maps["follow_imports"] = {
        "dest": "follow_imports", "kind": "enum", "per_module": True, "real": real,
        "cfg": {ch: [("follow_imports", real[ch])] for ch in "pqr"},
        "cmd": {ch: [["--follow-imports=" + real[ch]], ["--follow-imports", real[ch]]] for ch in "pqr"},
        "has_cmd": True}
    # global-only booleans (command line vs [mypy]); both polarities must be expressible somewhere
    for dest in sorted(flags):
        if dest in maps or dest in PER_MODULE_OPTIONS:
            continue
        dv = getattr(tmpl, dest, None)
        if not isinstance(dv, bool):
            continue
        real = {"p": (not dv), "q": dv, "d": dv}
        cfgsp = {ch: [(dest, real[ch])] + [(k, not real[ch]) for k in _inversions(dest, tmpl)] for ch in "pq"}
        cmd = {ch: [[f] for f in flags.get(dest, {}).get(real[ch], [])] for ch in "pq"}
        maps[dest] = {"dest": dest, "kind": "bool", "per_module": False, "real": real, "cfg": cfgsp,
                      "cmd": cmd, "has_cmd": all(cmd[ch] for ch in "pq")}
    return maps


# =========================================================================== rendering
INI_TRUE = ("True", "true", "yes", "on", "1")
INI_FALSE = ("False", "false", "no", "off", "0")


def ini_value(v: Any, rnd: random.Random) -> str:
    if isinstance(v, bool):
        return rnd.choice(INI_TRUE if v else INI_FALSE) if rnd.random() < 0.3 else str(v)
    if isinstance(v, (list, tuple)):
        return ", ".join(str(x) for x in v)
    return str(v)


def toml_value(v: Any, rnd: random.Random) -> str:
    if isinstance(v, bool):
        return "true" if v else "false"
    if isinstance(v, int):
        return str(v)
    if isinstance(v, (list, tuple)):
        if rnd.random() < 0.5:
            return json.dumps(", ".join(str(x) for x in v))
        return "[" + ", ".join(json.dumps(str(x)) for x in v) + "]"
    return json.dumps(str(v))


def render_config(fmt: str, glob_kv: list[tuple[str, Any]], sections: list[tuple[list[str], list[tuple[str, Any]]]],
                  rnd: random.Random) -> str:
    """sections: [(patterns sharing one header, key/values)] in file order."""
    out: list[str] = []
    if fmt == "toml":
        out.append("[build-system]\nrequires = []\n\n[tool.mypy]")
        for k, v in glob_kv:
            out.append("%s = %s" % (k, toml_value(v, rnd)))
        for pats, kv in sections:
            out.append("\n[[tool.mypy.overrides]]")
            if len(pats) == 1 and rnd.random() < 0.7:
                out.append("module = %s" % json.dumps(pats[0]))
            else:
                out.append("module = [%s]" % ", ".join(json.dumps(p) for p in pats))
            for k, v in kv:
                out.append("%s = %s" % (k, toml_value(v, rnd)))
    else:
        if fmt == "setupcfg":
            out.append("[metadata]\nname = x\n")
        out.append("[mypy]")
        for k, v in glob_kv:
            out.append("%s = %s" % (k, ini_value(v, rnd)))
        for pats, kv in sections:
            out.append("\n[mypy-%s]" % ",".join(pats))
            for k, v in kv:
                out.append("%s = %s" % (k, ini_value(v, rnd)))
    return "\n".join(out) + "\n"


def inline_comment(key: str, v: Any, rnd: random.Random) -> str:
    name = key.replace("_", "-") if rnd.random() < 0.7 else key
    if v is True and rnd.random() < 0.5:
        return "# mypy: " + name
    if isinstance(v, (list, tuple)):
        return '# mypy: %s="%s"' % (name, ",".join(v))
    return "# mypy: %s=%s" % (name, v)


FILE_NAMES = {"ini": "mypy.ini", "toml": "pyproject.toml", "setupcfg": "setup.cfg", "discover": "mypy.ini"}


class Plan:
    """One abstract configuration (a TLC record) refined to concrete text under an option map."""

    def __init__(self, rec: dict[str, Any], om: dict[str, Any], fmt: str, salt: int, plain: bool = False) -> None:
        rnd = random.Random(salt)
        self.rec, self.om, self.fmt = rec, om, fmt
        pick = (lambda xs: xs[0]) if plain else (lambda xs: rnd.choice(xs))
        dest = om["dest"]
        filler = next(f for f in FILLERS if f != dest)
        glob_kv = [pick(om["cfg"][rec["g"]])] if rec["g"] != UNSET else []
        secs: list[tuple[list[str], list[tuple[str, Any]]]] = []
        for pat, val in rec["s"]:
            if val != UNSET:
                kv = [pick(om["cfg"][val])]
            else:
                kv = [(filler, True)] if (not plain and rnd.random() < 0.5) else []
            # adjacent sections with identical settings may share one header (PATTERN1,PATTERN2)
            if secs and secs[-1][1] == kv and not plain and rnd.random() < 0.5:
                secs[-1][0].append(pat)
            else:
                secs.append(([pat], kv))
        self.text = render_config(fmt, glob_kv, secs, rnd)
        self.cmd = list(pick(om["cmd"][rec["c"]])) if rec["c"] != UNSET else []
        self.cmd_first = (not plain) and rnd.random() < 0.5
        self.inline = {UNSET: ""}
        for ch in om["cfg"]:
            k, v = pick(om["cfg"][ch])
            self.inline[ch] = inline_comment(k, v, rnd)

    def argv(self, path: str | None) -> list[str]:
        cf = ["--config-file", path] if path is not None else []
        return (self.cmd + cf if self.cmd_first else cf + self.cmd) + ["-c", "pass"]


# =========================================================================== real code under test
def real_options(plan: Plan, wdir: str) -> tuple[Any, str]:
    """process_options + the error-code step of build.build, as the real front end does them."""
    from mypy.main import process_options

    path = os.path.join(wdir, FILE_NAMES[plan.fmt])
    for n in set(FILE_NAMES.values()):
        p = os.path.join(wdir, n)
        if os.path.exists(p):
            os.unlink(p)
    with open(path, "w") as f:
        f.write(plan.text)
    so, se = io.StringIO(), io.StringIO()
    cwd = os.getcwd()
    try:
        if plan.fmt == "discover":
            os.chdir(wdir)
            argv = plan.argv(None)
        else:
            argv = plan.argv(path)
        try:
            _, options = process_options(argv, stdout=so, stderr=se)
        except SystemExit as e:
            return None, "SystemExit(%s) %s %s" % (e.code, so.getvalue()[-300:], se.getvalue()[-300:])
    finally:
        os.chdir(cwd)
    msgs: list[str] = []
    options.process_error_codes(error_callback=msgs.append)
    complaint = (so.getvalue() + se.getvalue() + "".join(msgs)).strip()
    return options, complaint


def final_options(options: Any, module: str, comment: str) -> tuple[Any, list[Any]]:
    """Options a module is checked with: clone_for_module, then State.parse_inline_configuration's steps."""
    from mypy.config_parser import parse_mypy_comments
    from mypy.util import get_mypy_comments

    om = options.clone_for_module(module)
    errs: list[Any] = []
    if comment:
        flags = get_mypy_comments(comment + "\nx = 1\n")
        if flags:
            changes, errs = parse_mypy_comments(flags, om)
            om = om.apply_changes(changes)
    return om, errs


def replay_plan(plan: Plan, wdir: str, inline_seq: list[str]) -> dict[str, Any]:
    """Push one configuration through the real code; compare with the documented value (doc) and the
    model's implementation side (imp) for every module x inline choice."""
    rec, om = plan.rec, plan.om
    dest, real = om["dest"], om["real"]
    res: dict[str, Any] = {"viol": [], "drift": [], "evals": 0, "complaint": ""}
    options, complaint = real_options(plan, wdir)
    if options is None:
        res["viol"].append({"m": None, "i": None, "why": "rejected: " + complaint})
        return res
    res["complaint"] = complaint
    # projection of the real state on the specification's variables
    if getattr(options, dest) != real[rec["b"]]:
        res["drift"].append("base: real %r model %r" % (getattr(options, dest), real[rec["b"]]))
    rows = []
    for mi, m in enumerate(MODS):
        for j, inl in enumerate(inline_seq):
            fin, errs = final_options(options, m, plan.inline[inl])
            got = getattr(fin, dest)
            res["evals"] += 1
            doc, imp = real[rec["doc"][j][mi]], real[rec["imp"][j][mi]]
            if errs:
                res["viol"].append({"m": m, "i": inl, "why": "inline comment rejected: %r" % (errs,)})
            elif got != doc:
                res["viol"].append({"m": m, "i": inl, "got": got, "doc": doc, "imp": imp})
            elif got != imp:
                res["drift"].append("module %s inline %s: real %r = doc, model impl %r" % (m, inl, got, imp))
        rows.append(m)
    cache = getattr(options, "_per_module_cache") or {}
    got_cache = [[k, getattr(v, dest)] for k, v in cache.items()]
    want_cache = [[k, real[v]] for k, v in rec["k"]]
    if got_cache != want_cache:
        res["drift"].append("_per_module_cache: real %r model %r" % (got_cache, want_cache))
    got_globs = [k for k, _ in getattr(options, "_glob_options")]
    if got_globs != rec["gl"]:
        res["drift"].append("_glob_options: real %r model %r" % (got_globs, rec["gl"]))
    return res


_W: dict[str, Any] = {}


def _winit(root: str) -> None:
    d = os.path.join(root, "w%d" % os.getpid())
    os.makedirs(d, exist_ok=True)
    _W["dir"] = d


def _wreplay(task: tuple[list[Any], list[str]]) -> list[Any]:
    items, inline_seq = task
    out = []
    for idx, rec, om, fmt, salt in items:
        plan = Plan(rec, om, fmt, salt)
        r = replay_plan(plan, _W["dir"], inline_seq)
        if r["viol"] or r["drift"] or r["complaint"]:
            out.append((idx, om["dest"], fmt, salt, r))
        else:
            out.append((idx, None, None, None, {"evals": r["evals"]}))
    return out


# =========================================================================== keys / minimisation
def rec_key(secs: list[list[str]], g: str, c: str) -> str:
    return json.dumps([secs, g, c])


def canon(secs: list[list[str]], g: str, c: str, i: str, m: str | None) -> str:
    """Value-renaming-invariant name of a configuration (first value seen -> x, second -> y ...)."""
    names: dict[str, str] = {}

    def nm(v: str) -> str:
        if v == UNSET:
            return UNSET
        if v not in names:
            names[v] = "xyz"[len(names)]
        return names[v]
    s = ",".join("%s=%s" % (p, nm(v)) for p, v in secs)
    return "s=[%s];g=%s;c=%s;i=%s|m=%s" % (s, nm(g), nm(c), nm(i), m)


class Minimiser:
    def __init__(self, index: dict[str, dict[str, Any]], wdir: str, inline_seq: list[str]) -> None:
        self.index, self.wdir, self.inline_seq = index, wdir, inline_seq

    def check(self, secs: list[list[str]], g: str, c: str, i: str, m: str, om: dict[str, Any]) -> tuple[bool, Any] | None:
        rec = self.index.get(rec_key(secs, g, c))
        if rec is None:
            return None
        plan = Plan(rec, om, "ini", 0, plain=True)
        options, complaint = real_options(plan, self.wdir)
        if options is None:
            return None
        j, mi = self.inline_seq.index(i), MODS.index(m)
        fin, errs = final_options(options, m, plan.inline[i])
        got = getattr(fin, om["dest"])
        doc, imp = om["real"][rec["doc"][j][mi]], om["real"][rec["imp"][j][mi]]
        return (got != doc, {"got": got, "doc": doc, "imp": imp, "config": plan.text, "argv": plan.argv("mypy.ini"),
                             "inline": plan.inline[i]})

    def minimise(self, rec: dict[str, Any], i: str, m: str, om: dict[str, Any]) -> tuple[str, dict[str, Any]]:
        secs, g, c = [list(x) for x in rec["s"]], rec["g"], rec["c"]
        first = self.check(secs, g, c, i, m, om)
        if first is None or not first[0]:
            # does not reproduce in the plain spelling: spelling-specific; keep the full configuration
            return "", {}
        detail = first[1]
        changed = True
        while changed:
            changed = False
            cands: list[tuple[list[list[str]], str, str, str]] = []
            for k in range(len(secs)):
                cands.append((secs[:k] + secs[k + 1:], g, c, i))
            for k in range(len(secs)):
                if secs[k][1] != UNSET:
                    cands.append((secs[:k] + [[secs[k][0], UNSET]] + secs[k + 1:], g, c, i))
            if g != UNSET:
                cands.append((secs, UNSET, c, i))
            if c != UNSET:
                cands.append((secs, g, UNSET, i))
            if i != UNSET:
                cands.append((secs, g, c, UNSET))
            for s2, g2, c2, i2 in cands:
                r = self.check(s2, g2, c2, i2, m, om)
                if r is not None and r[0]:
                    secs, g, c, i, detail = s2, g2, c2, i2, r[1]
                    changed = True
                    break
        kind = "design" if detail["got"] == detail["imp"] else "code:" + om["dest"]
        return kind + ":" + canon(secs, g, c, i, m), detail


# =========================================================================== real builds
WITNESS = """def w_untyped(x): pass
def w_optional() -> int:
    return None
w_undefined_name
from typing import Any
w_any: Any = 1
def w_unchecked():
    z: int = ''
def w_noreturn(c: int) -> int:
    if c:
        return 1
"""
WITNESS_OPTS = ("disallow_untyped_defs", "ignore_errors", "strict_optional", "disallow_any_explicit",
                "check_untyped_defs", "warn_no_return")


def mod_path(m: str) -> str:
    parts = m.split(".")
    return os.path.join(*parts) + ".py" if len(parts) == 3 else os.path.join(*(parts + ["__init__.py"]))


def write_tree(root: str, comments: dict[str, str]) -> None:
    for m in MODS:
        p = os.path.join(root, mod_path(m))
        os.makedirs(os.path.dirname(p), exist_ok=True)
        c = comments.get(m, "")
        with open(p, "w") as f:
            f.write((c + "\n" if c else "") + WITNESS)


def per_module_diags(errors: list[str]) -> dict[str, list[str]]:
    byfile: dict[str, list[str]] = {}
    for line in errors:
        mm = re.match(r"([^:]+):(\d+): (.*)", line)
        if mm:
            byfile.setdefault(mm.group(1), []).append(mm.group(3))
    return {m: byfile.get(mod_path(m), []) for m in MODS}


def inproc_build(tree: str, argv_extra: list[str], cfg_text: str | None, fmt: str) -> tuple[dict[str, Any], dict[str, list[str]], str]:
    """A real build (fixtures typeshed) of the 39-module tree; per-module State.options and diagnostics."""
    from mypy import build
    from mypy.main import process_options

    cwd = os.getcwd()
    os.chdir(tree)
    try:
        for n in set(FILE_NAMES.values()):
            if os.path.exists(n):
                os.unlink(n)
        argv = list(argv_extra)
        if cfg_text is not None:
            with open(FILE_NAMES[fmt], "w") as f:
                f.write(cfg_text)
            if fmt != "discover":
                argv = ["--config-file", FILE_NAMES[fmt]] + argv
        else:
            argv = ["--config-file="] + argv
        so, se = io.StringIO(), io.StringIO()
        sources, options = process_options(argv + ["a", "b", "c"], stdout=so, stderr=se)
        options.use_builtins_fixtures = True
        options.incremental = False
        options.cache_dir = os.devnull
        options.show_traceback = True
        options.error_summary = False
        res = build.build(sources, options, alt_lib_path=tree, stdout=so, stderr=se)
        opts = {m: res.graph[m].options for m in MODS if m in res.graph}
        return opts, per_module_diags(res.errors), (so.getvalue() + se.getvalue()).strip()
    finally:
        os.chdir(cwd)


def _wbuild(task: tuple[int, dict[str, Any], dict[str, Any], str, int, list[str]]) -> dict[str, Any]:
    """One sampled configuration through a real build; every module gets a (seeded) inline choice."""
    idx, rec, om, fmt, salt, inline_seq = task
    rnd = random.Random(salt * 7919 + 13)
    plan = Plan(rec, om, fmt, salt)
    choice = {m: rnd.choice(inline_seq) for m in MODS}
    tree = os.path.join(_W["dir"], "tree")
    write_tree(tree, {m: plan.inline[choice[m]] for m in MODS})
    out: dict[str, Any] = {"idx": idx, "viol": [], "drift": [], "evals": 0, "dest": om["dest"], "fmt": fmt, "salt": salt}
    try:
        opts, diags, noise = inproc_build(tree, plan.cmd, plan.text, fmt)
    except SystemExit as e:
        out["viol"].append({"m": None, "i": None, "why": "build front end exited: %r" % (e.code,)})
        return out
    if len(opts) != len(MODS):
        out["machinery"] = "build did not load all modules: %d" % len(opts)
        return out
    dest, real = om["dest"], om["real"]
    base = _W.setdefault("baseline", {})
    for m in MODS:
        j, mi = inline_seq.index(choice[m]), MODS.index(m)
        doc, imp = real[rec["doc"][j][mi]], real[rec["imp"][j][mi]]
        got = getattr(opts[m], dest)
        out["evals"] += 1
        if got != doc:
            out["viol"].append({"m": m, "i": choice[m], "got": got, "doc": doc, "imp": imp, "via": "State.options"})
            continue
        if got != imp:
            out["drift"].append("build: module %s real %r = doc, model impl %r" % (m, got, imp))
        if dest in WITNESS_OPTS:
            # diagnostics oracle: what the unconfigured module reports when the option has the
            # documented value for everybody (learned from a real run with only that one setting)
            bkey = (dest, doc)
            if bkey not in base:
                write_tree(os.path.join(_W["dir"], "btree"), {})
                kv = render_config("ini", [(dest, doc)], [], random.Random(0))
                _, bd, _ = inproc_build(os.path.join(_W["dir"], "btree"), [], kv, "ini")
                base[bkey] = bd
            want = base[bkey][m]
            if plan.inline[choice[m]]:
                want = [w for w in want]  # the comment adds a first line; line numbers are not compared
            if diags[m] != want:
                out["viol"].append({"m": m, "i": choice[m], "got": diags[m], "doc": want, "imp": None, "via": "diagnostics"})
    return out


def cli_run(tree: str, argv: list[str]) -> tuple[int, dict[str, list[str]], str]:
    p = subprocess.run([PY, "-m", "mypy", "--no-error-summary", "--hide-error-context", "--no-incremental",
                        "--cache-dir", os.devnull] + argv + ["a", "b", "c"],
                       cwd=tree, env=repo_env(), capture_output=True, text=True, timeout=600)
    return p.returncode, per_module_diags(p.stdout.splitlines()), p.stderr.strip()


def _wcli(task: tuple[int, dict[str, Any], dict[str, Any], str, int, list[str], str]) -> dict[str, Any]:
    """One sampled configuration through the real command line (subprocess, real typeshed)."""
    idx, rec, om, fmt, salt, inline_seq, root = task
    rnd = random.Random(salt * 104729 + 7)
    plan = Plan(rec, om, fmt, salt)
    choice = {m: rnd.choice(inline_seq) for m in MODS}
    tree = os.path.join(root, "cli%d" % idx)
    write_tree(tree, {m: plan.inline[choice[m]] for m in MODS})
    with open(os.path.join(tree, FILE_NAMES[fmt]), "w") as f:
        f.write(plan.text)
    argv = plan.cmd + ([] if fmt == "discover" else ["--config-file", FILE_NAMES[fmt]])
    rc, diags, err = cli_run(tree, argv)
    out: dict[str, Any] = {"idx": idx, "viol": [], "evals": 0, "dest": om["dest"], "fmt": fmt, "salt": salt, "rc": rc}
    if rc not in (0, 1) or err:
        out["viol"].append({"m": None, "i": None, "why": "mypy exit %s stderr %s" % (rc, err[-400:])})
        return out
    dest, real = om["dest"], om["real"]
    # baselines: the same tree without comments, the option set for everybody by a single [mypy] line
    btree = os.path.join(root, "clibase")
    base: dict[Any, dict[str, list[str]]] = {}
    for m in MODS:
        j, mi = inline_seq.index(choice[m]), MODS.index(m)
        doc = real[rec["doc"][j][mi]]
        if doc not in base:
            bt = btree + "-%s-%s" % (dest, doc)
            if not os.path.exists(os.path.join(bt, "done.json")):
                write_tree(bt, {})
                with open(os.path.join(bt, "mypy.ini"), "w") as f:
                    f.write(render_config("ini", [(dest, doc)], [], random.Random(0)))
                brc, bd, berr = cli_run(bt, ["--config-file", "mypy.ini"])
                if brc not in (0, 1) or berr:
                    out["machinery"] = "baseline CLI run failed: %s %s" % (brc, berr[-300:])
                    return out
                with open(os.path.join(bt, "done.json.tmp%d" % os.getpid()), "w") as f:
                    json.dump(bd, f)
                os.replace(os.path.join(bt, "done.json.tmp%d" % os.getpid()), os.path.join(bt, "done.json"))
            with open(os.path.join(bt, "done.json")) as f:
                base[doc] = json.load(f)
        out["evals"] += 1
        if diags[m] != base[doc][m]:
            out["viol"].append({"m": m, "i": choice[m], "got": diags[m], "doc": base[doc][m], "imp": None, "via": "cli-diagnostics"})
    return out


# =========================================================================== source equivalence
SNAP_IGNORE = {"config_file", "per_module_options"}


def snap(o: Any, extra_ignore: set[str] = set()) -> dict[str, Any]:
    d = {k: v for k, v in o.snapshot().items() if k not in SNAP_IGNORE and k not in extra_ignore}
    for k in ("disabled_error_codes", "enabled_error_codes"):
        if k in d:
            d[k] = sorted(c.code for c in d[k])
    return d


def run_source(wdir: str, kind: str, key: str, value: Any, cmdline: list[str], module: str, salt: int) -> tuple[Any, Any, str]:
    """Supply ONE setting through one source.  Returns (global Options, Options of `module`, complaints)."""
    rnd = random.Random(salt)
    comment = ""
    if kind == "cmd":
        class P:  # minimal Plan look-alike
            fmt = "ini"; text = "[mypy]\n"
            def argv(self, path: str | None) -> list[str]:
                return ["--config-file", path] + cmdline + ["--no-site-packages", "-c", "pass"]
        plan: Any = P()
    else:
        fmt = {"ini": "ini", "setupcfg": "setupcfg", "toml": "toml", "ini-section": "ini", "toml-section": "toml",
               "inline": "ini"}[kind]
        if kind in ("ini", "setupcfg", "toml"):
            text = render_config(fmt, [(key, value)], [], rnd)
        elif kind in ("ini-section", "toml-section"):
            text = render_config(fmt, [], [([module], [(key, value)])], rnd)
        else:
            text = render_config(fmt, [], [], rnd)
            comment = inline_comment(key, value, rnd)

        class Q:
            def argv(self, path: str | None) -> list[str]:
                return ["--config-file", path, "--no-site-packages", "-c", "pass"]
        plan = Q()
        plan.fmt, plan.text = fmt, text
    options, complaint = real_options(plan, wdir)
    if options is None:
        return None, None, complaint
    fin, errs = final_options(options, module, comment)
    if errs:
        complaint += " inline: %r" % (errs,)
    return options, fin, complaint


def equivalence_settings() -> list[dict[str, Any]]:
    """Every setting of the option table, with its spelling on the command line (if any) and the
    config-file key/value that the documentation gives for it (flag name with underscores)."""
    import argparse
    from mypy.config_parser import ini_config_types
    from mypy.options import PER_MODULE_OPTIONS, Options

    parser = _parser()
    tmpl = Options()
    ver = "%d.%d" % sys.version_info[:2]
    sample: dict[str, Any] = {
        "follow_imports": "skip", "platform": "win32", "custom_typing_module": "mytyping", "cache_dir": "/tmp/c17-cache-x",
        "junit_xml": "/tmp/c17-junit.xml", "junit_format": "per_file", "always_true": ["FOO", "BAR"],
        "always_false": ["BAZ"], "disable_error_code": ["attr-defined", "misc"], "enable_error_code": ["truthy-bool"],
        "exclude": ["^build/"], "enable_incomplete_feature": ["PreciseTupleTypes"], "untyped_calls_exclude": ["foo.bar"],
        "deprecated_calls_exclude": ["foo.baz"], "custom_typeshed_dir": os.path.join(REPO, "mypy", "typeshed"),
        "verbosity": 1, "num_workers": 2, "sqlite_num_shards": 4, "many_errors_threshold": 5, "output": "json",
        "quickstart_file": "/tmp/c17-qs", "timing_stats": "/tmp/c17-ts", "line_checking_stats": "/tmp/c17-lcs",
        "mypyc_annotation_file": "/tmp/c17-ann.html", "python_version": ver, "python_executable": sys.executable,
        "mypy_path": ["/tmp/c17-p1", "/tmp/c17-p2"], "plugins": [], "files": ["x.py"], "modules": ["m1"], "packages": ["p1"],
    }
    settings: list[dict[str, Any]] = []
    seen_cfg: set[tuple[str, str]] = set()
    for a in parser._actions:
        if not a.option_strings or isinstance(a, (argparse._HelpAction,)) or a.dest in ("version", "config_file"):
            continue
        dest = a.dest.split(":", 1)[1] if a.dest.startswith("special-opts:") else a.dest
        longs = [s for s in a.option_strings if s.startswith("--")] or a.option_strings
        for flag in longs:
            name = flag.lstrip("-").replace("-", "_")
            per_module = dest in PER_MODULE_OPTIONS
            if isinstance(a, (argparse._StoreTrueAction, argparse._StoreFalseAction)):
                if dest in ("strict",):
                    spell = [("strict", True)]
                elif dest == "no_executable":
                    spell = [("no_site_packages", True)]
                else:
                    spell = [(name, True)]
                    # the Options attribute itself, and the documented inversions of the flag name
                    if hasattr(tmpl, dest) and isinstance(getattr(tmpl, dest), bool):
                        spell.append((dest, a.const))
                        spell += [(k, not a.const) for k in _inversions(dest, tmpl)]
                settings.append({"id": flag, "dest": dest, "cmd": [flag], "cfg": _dedupe(spell), "per_module": per_module,
                                 "bool": True})
            elif isinstance(a, argparse._CountAction):
                settings.append({"id": flag, "dest": dest, "cmd": [flag], "cfg": [(dest, 1)], "per_module": False, "bool": False})
            elif isinstance(a, (argparse._StoreAction, argparse._AppendAction)) and a.nargs is None:
                if dest.endswith("_report"):
                    val: Any = "/tmp/c17-report"
                    key = dest.replace("-", "_")
                elif dest in sample:
                    val, key = sample[dest], dest
                else:
                    continue
                if isinstance(val, list):
                    cmd = [x for v in val for x in (flag, v)]
                else:
                    cmd = [flag, str(val)]
                settings.append({"id": flag, "dest": dest, "cmd": cmd, "cfg": _dedupe([(name, val), (key, val)]),
                                 "per_module": per_module, "bool": False})
            for k, _ in settings[-1]["cfg"] if settings else []:
                seen_cfg.add((dest, k))
    # config-file-only keys of the option table
    for key in sorted(ini_config_types):
        if any(key == k for s in settings for k, _ in s["cfg"]):
            continue
        if key in sample:
            settings.append({"id": "cfg:" + key, "dest": key, "cmd": None, "cfg": [(key, sample[key])], "per_module": False,
                             "bool": False})
        elif key in ("strict", "no_site_packages"):
            settings.append({"id": "cfg:" + key, "dest": key, "cmd": None, "cfg": [(key, True)], "per_module": False, "bool": True})
    # per-module booleans that have no flag at all
    for dest in sorted(PER_MODULE_OPTIONS):
        dv = getattr(tmpl, dest, None)
        if isinstance(dv, bool) and not any(s["dest"] == dest for s in settings):
            for v in (True, False):
                spell = [(dest, v)] + [(k, not v) for k in _inversions(dest, tmpl)]
                settings.append({"id": "cfg:%s=%s" % (dest, v), "dest": dest, "cmd": None, "cfg": spell, "per_module": True,
                                 "bool": True})
    return settings


def _dedupe(xs: list[Any]) -> list[Any]:
    out = []
    for x in xs:
        if x not in out:
            out.append(x)
    return out


def _wequiv(task: tuple[dict[str, Any], int]) -> dict[str, Any]:
    """All sources x all spellings of one setting; pairwise comparison of the Options they produce."""
    st, seed = task
    wdir = _W["dir"]
    module = "pkg.mod"
    runs: list[tuple[str, str, Any, Any, str]] = []   # (source, spelling, global snapshot, module snapshot, complaint)
    n = 0
    if st["cmd"] is not None:
        o, f, c = run_source(wdir, "cmd", "", None, st["cmd"], module, seed)
        runs.append(("cmd", " ".join(st["cmd"]), o, f, c)); n += 1
    for key, val in st["cfg"]:
        for kind in ("ini", "setupcfg", "toml"):
            o, f, c = run_source(wdir, kind, key, val, [], module, seed + n)
            runs.append((kind, "%s=%r" % (key, val), o, f, c)); n += 1
        if st["per_module"]:
            for kind in ("ini-section", "toml-section", "inline"):
                o, f, c = run_source(wdir, kind, key, val, [], module, seed + n)
                runs.append((kind, "%s=%r" % (key, val), o, f, c)); n += 1
    out: dict[str, Any] = {"id": st["id"], "runs": n, "accepted": [], "rejected": [], "diff": [], "pairs": 0}
    ok = []
    for src, sp, o, f, c in runs:
        if o is None or c:
            out["rejected"].append([src, sp, (c or "")[:200]])
        else:
            ok.append((src, sp, o, f))
            out["accepted"].append([src, sp])
    glob_scope = [r for r in ok if r[0] in ("cmd", "ini", "setupcfg", "toml")]
    mod_scope = [r for r in ok if r[0] in ("ini-section", "toml-section", "inline")]
    dest = st["dest"]
    for grp, which, ign in ((glob_scope, 2, set()), (mod_scope, 3, {"ignore_missing_imports_per_module"} - {""})):
        for x, y in itertools.combinations(grp, 2):
            out["pairs"] += 1
            sx, sy = snap(x[which], ign if which == 3 else set()), snap(y[which], ign if which == 3 else set())
            if sx != sy:
                d = {k: [repr(sx.get(k)), repr(sy.get(k))] for k in set(sx) | set(sy) if sx.get(k) != sy.get(k)}
                out["diff"].append({"a": list(x[:2]), "b": list(y[:2]), "scope": "global" if which == 2 else "module", "diff": d})
    # across scopes: the module's view of the option itself must be the same
    if glob_scope and mod_scope and hasattr(glob_scope[0][3], dest):
        x, y = glob_scope[0], mod_scope[0]
        out["pairs"] += 1
        vx, vy = getattr(x[3], dest), getattr(y[3], dest)
        if vx != vy:
            out["diff"].append({"a": list(x[:2]), "b": list(y[:2]), "scope": "cross", "diff": {dest: [repr(vx), repr(vy)]}})
    return out


EQUIV_WITNESS = ("--disallow-untyped-defs", "--no-strict-optional", "--disallow-any-explicit", "--check-untyped-defs",
                 "--no-warn-no-return", "--allow-untyped-defs", "--strict-optional")


def _wequiv_diag(task: tuple[dict[str, Any], int]) -> dict[str, Any]:
    """Diagnostics of the witness tree with one setting supplied through each global source and, for the
    module a.b.c alone, through each module-scope source."""
    st, seed = task
    tree = os.path.join(_W["dir"], "etree")
    out: dict[str, Any] = {"id": st["id"], "runs": 0, "diff": []}
    key, val = st["cfg"][0]
    results = []
    write_tree(tree, {})
    rnd = random.Random(seed)
    for src in ("cmd", "ini", "setupcfg", "toml"):
        if src == "cmd":
            _, d, noise = inproc_build(tree, st["cmd"], "[mypy]\n", "ini")
        else:
            _, d, noise = inproc_build(tree, [], render_config(src, [(key, val)], [], rnd), src)
        results.append((src, d)); out["runs"] += 1
    for (sa, da), (sb, db) in itertools.combinations(results, 2):
        if da != db:
            out["diff"].append({"a": sa, "b": sb, "scope": "global-diagnostics"})
    mres = []
    for src in ("ini-section", "toml-section", "inline"):
        fmt = "toml" if src.startswith("toml") else "ini"
        if src == "inline":
            write_tree(tree, {"a.b.c": inline_comment(key, val, rnd)})
            _, d, _ = inproc_build(tree, [], render_config("ini", [], [], rnd), "ini")
            write_tree(tree, {})
        else:
            _, d, _ = inproc_build(tree, [], render_config(fmt, [], [(["a.b.c"], [(key, val)])], rnd), fmt)
        mres.append((src, d)); out["runs"] += 1
    for (sa, da), (sb, db) in itertools.combinations(mres, 2):
        if da != db:
            out["diff"].append({"a": sa, "b": sb, "scope": "module-diagnostics"})
    # the module-scope setting changes a.b.c exactly as the global one does, and nothing else
    g, mdl = results[0][1], mres[0][1]
    if mdl["a.b.c"] != g["a.b.c"]:
        out["diff"].append({"a": "cmd", "b": mres[0][0], "scope": "cross-diagnostics"})
    return out


# =========================================================================== TLC phase
def run_tlc(tier: str, seed: int) -> dict[str, Any]:
    thorough = tier == "thorough"
    jobs: dict[str, Any] = {}
    with ThreadPoolExecutor(16) as ex:
        def go(name: str, cfg: str, **kw: Any) -> None:
            kw.setdefault("heap", "2g")
            jobs[name] = ex.submit(tlc, "MC_Config", cfg, **kw)
        # emission runs first: the replay waits for them
        go("gen3", "Gen_Config_3.cfg", coverage=False, workers=4, timeout=1500, heap="3g")
        go("gen3v", "Gen_Config_3v.cfg", coverage=False, workers=2, timeout=900)
        if thorough:
            for k in range(1, 7):
                go("gen4:%d" % k, "Gen_Config_4_%d.cfg" % k, coverage=False, workers=2, timeout=1700, heap="3g")
            go("genB", "Gen_Config_B.cfg", coverage=False, workers=2, timeout=1500, heap="3g")
        else:
            go("sim4", "Gen_Config_4.cfg", coverage=False, workers=2, timeout=600, simulate="num=1500", depth=12,
               seed=seed + 1)
        go("mc", "MC_Config_4.cfg" if thorough else "MC_Config.cfg", timeout=1700, workers=8 if thorough else 6,
           heap="4g")
        go("mc3v", "MC_Config_3v.cfg", timeout=900, workers=2)
        go("doc", "MC_Config_Doc.cfg", coverage=False, workers=1, heap="1g")
        for m in ("NoSort", "ConcreteFirst", "FirstGlobWins"):
            go("mut:" + m, "Mut_Config_%s.cfg" % m, coverage=False, workers=1, heap="1g")
        if thorough:
            go("mcB", "MC_Config_B.cfg", timeout=1500, workers=4)
        return {k: f.result() for k, f in jobs.items()}


# =========================================================================== main
def main(argv: list[str]) -> int:
    tier, seed, replay = parse_args(argv)
    v = Verdict(PID, tier, seed)
    thorough = tier == "thorough"
    root = scratch("c17-")
    sany(os.path.join(SPEC, "MC_Config.tla"))
    t0 = time.time()
    R = run_tlc(tier, seed)
    t_tlc = time.time() - t0
    cov: dict[str, Any] = {}
    states = transitions = 0

    # ---- 1. model checking results
    for name in ("mc", "mc3v", "mcB"):
        if name not in R:
            continue
        r = R[name]
        if r.error:
            raise MachineryError("TLC %s: %s" % (name, r.error))
        if r.violated:
            v.violation("model:Config:%s:%s" % (name, r.violated), {"trace": r.trace_text},
                        "the implementation as transcribed deviates from the documented rule: invariant %s" % r.violated)
        states += r.distinct; transitions += r.generated
        cov[name] = dict(coverage_summary(r), states=r.distinct, transitions=r.generated, wall_s=round(r.wall, 1))
        if r.never_fired() and not r.violated:
            raise MachineryError("actions never fired in %s: %s" % (name, r.never_fired()))
    rd = R["doc"]
    if rd.error:
        raise MachineryError("TLC doc-literal config: " + rd.error)
    cov["documentation_read_literally"] = {
        "violated": rd.violated, "states": rd.distinct,
        "counterexample_last_state": rd.trace_text.strip().split("State ")[-1][:600] if rd.violated else None,
        "note": "LeadingStarZero=TRUE: 'stars match zero or more module components' applied to a leading star; "
                "the exhaustive configs use the reading under which a leading star needs one component; the replay "
                "oracle is the literal reading"}
    mut = {}
    for m, inv in (("NoSort", "ParentsFirst"), ("ConcreteFirst", "PrecedenceAsDocumented"), ("FirstGlobWins", "PrecedenceAsDocumented")):
        rm = R["mut:" + m]
        mut[m] = rm.violated
        if rm.violated != inv:
            raise MachineryError("specification mutant %s not rejected as expected: %s %s" % (m, rm.violated, rm.error))
    cov["spec_mutants_rejected"] = mut

    # ---- 2. configurations emitted by TLC
    def records(r: Any, what: str) -> list[dict[str, Any]]:
        if r.error or r.violated:
            raise MachineryError("Gen %s: %s %s" % (what, r.violated, r.error))
        mods = r.json_lines("MODS")
        if not mods or mods[0] != MODS:
            raise MachineryError("module order of the specification differs from the driver's")
        return r.json_lines("CFG")

    recs2 = records(R["gen3"], "gen3")
    if len(recs2) != 31761:
        raise MachineryError("expected 31761 configurations with <=3 sections, TLC emitted %d" % len(recs2))
    index = {rec_key(r["s"], r["g"], r["c"]): r for r in recs2}
    recs3v = records(R["gen3v"], "gen3v")
    extra: list[dict[str, Any]] = []
    if thorough:
        for k in range(1, 7):
            for r in records(R["gen4:%d" % k], "gen4:%d" % k):
                key = rec_key(r["s"], r["g"], r["c"])
                if key not in index:
                    index[key] = r
                    extra.append(r)
        recsB = records(R["genB"], "genB")
    else:
        for r in records(R["sim4"], "sim4"):
            key = rec_key(r["s"], r["g"], r["c"])
            if key not in index and len(r["s"]) == 4:
                index[key] = r
                extra.append(r)
        recsB = []
        if len(extra) < 50:
            raise MachineryError("simulation produced too few 4-section configurations: %d" % len(extra))
    if thorough and len(recs2) + len(extra) != 294201:
        raise MachineryError("expected 294201 configurations with <=4 sections, got %d" % (len(recs2) + len(extra)))

    # ---- 3. refinement maps
    maps = build_optmaps()
    pm_bool = [m for m in maps.values() if m["per_module"] and m["kind"] == "bool"]
    pm_bool_cmd = [m for m in pm_bool if m["has_cmd"]]
    enum = maps["follow_imports"]
    if len(pm_bool) < 25 or len(pm_bool_cmd) < 20:
        raise MachineryError("option tables look wrong: %d per-module booleans" % len(pm_bool))
    inline2, inline3 = [UNSET, "p", "q"], [UNSET, "p", "q", "r"]

    def pick_map(idx: int, rec: dict[str, Any]) -> dict[str, Any]:
        pool = pm_bool_cmd if rec["c"] != UNSET else pm_bool
        k = (idx * 7 + seed * 13) % (len(pool) + 3)
        return enum if k >= len(pool) else pool[k]

    tasks: list[Any] = []
    all_recs: list[tuple[dict[str, Any], list[str]]] = []
    for rec in recs2 + extra:
        all_recs.append((rec, inline2))
    for rec in recs3v:
        all_recs.append((rec, inline3))
    items2: list[Any] = []
    items3: list[Any] = []
    nfmt = len(FORMATS)
    for idx, (rec, inl) in enumerate(all_recs):
        if inl is inline3:
            items3.append((idx, rec, enum, FORMATS[(idx + seed) % nfmt], seed * 1000003 + idx))
        else:
            om = pick_map(idx, rec)
            items2.append((idx, rec, om, FORMATS[(idx + seed) % nfmt], seed * 1000003 + idx))
            if thorough or idx % 2 == 0:
                # a second pass in another file format and with the next option
                om2 = pick_map(idx + 1, rec)
                items2.append((idx, rec, om2, FORMATS[(idx + seed + 1 + idx // nfmt) % nfmt], seed * 1000003 + idx + 500009))
    # per-option sweep: every option x every configuration of <=1 section x every source pair
    small = [r for r in recs2 if len(r["s"]) <= 1]
    base_idx = len(all_recs)
    for oi, om in enumerate(sorted(maps.values(), key=lambda m: m["dest"])):
        for si, rec in enumerate(small):
            if rec["c"] != UNSET and not om["cmd"].get(rec["c"]):
                continue
            if om["kind"] == "enum" and False:
                continue
            if not om["per_module"] and rec["s"]:
                continue
            it = (base_idx + oi * 1000 + si, rec, om, FORMATS[(oi + si + seed) % nfmt], seed * 7 + oi * 1000 + si)
            if om["per_module"]:
                items2.append(it)
            else:
                items2.append(it + ("noinline",))
    # global-only options have no inline / section source: replay with inline choices restricted to Unset
    g_items = [it[:5] for it in items2 if len(it) == 6]
    items2 = [it for it in items2 if len(it) == 5]

    def chunks(items: list[Any], inl: list[str], n: int = 150) -> list[Any]:
        return [(items[i:i + n], inl) for i in range(0, len(items), n)]
    work = chunks(items2, inline2) + chunks(items3, inline3) + chunks(g_items, [UNSET])
    random.Random(seed).shuffle(work)

    # ---- 4. replay into the real code
    ctx = multiprocessing.get_context("fork")
    nproc = min(16, os.cpu_count() or 4)
    t1 = time.time()
    replayed = evals = 0
    bad: list[Any] = []
    rec_of = {}
    for it in items2 + items3 + g_items:
        rec_of[(it[0], it[2]["dest"], it[3], it[4])] = it
    with ctx.Pool(nproc, initializer=_winit, initargs=(root,)) as pool:
        for out in pool.imap_unordered(_wreplay, work):
            for idx, dest, fmt, salt, r in out:
                replayed += 1
                evals += r["evals"]
                if dest is not None:
                    bad.append((idx, dest, fmt, salt, r))
        t_replay = time.time() - t1

        # ---- 5. a sample through real builds, and through the real command line
        t2 = time.time()
        witness_maps = [maps[d] for d in WITNESS_OPTS]
        pool_recs = recs2 + extra
        rnd = random.Random(seed)
        nb = 1600 if thorough else 240
        # deterministic part: every configuration of <=1 section for the first witness option
        btasks = [(i, rec, witness_maps[i % len(witness_maps)] if (rec["c"] == UNSET or witness_maps[i % len(witness_maps)]["has_cmd"]) else witness_maps[0],
                   FORMATS[i % nfmt], seed * 31 + i, inline2) for i, rec in enumerate(small)]
        for i in range(nb):
            rec = rnd.choice(pool_recs)
            om = rnd.choice(witness_maps + [enum])
            if rec["c"] != UNSET and not om["has_cmd"]:
                om = witness_maps[0]
            btasks.append((1000 + i, rec, om, rnd.choice(FORMATS), seed * 31 + 1000 + i, inline2))
        builds = build_evals = 0
        bbad: list[Any] = []
        for out in pool.imap_unordered(_wbuild, btasks, chunksize=4):
            if "machinery" in out:
                raise MachineryError(out["machinery"])
            builds += 1
            build_evals += out["evals"]
            if out["viol"] or out["drift"]:
                bbad.append(out)
        t_build = time.time() - t2

        # ---- 6. source equivalence over the option table
        t3 = time.time()
        settings = equivalence_settings()
        eq = list(pool.imap_unordered(_wequiv, [(s, seed) for s in settings], chunksize=2))
        wit = [s for s in settings if s["id"] in EQUIV_WITNESS]
        eqd = list(pool.imap_unordered(_wequiv_diag, [(s, seed) for s in wit]))
        t_equiv = time.time() - t3

    # ---- 7. the real command line (subprocess, real typeshed)
    t4 = time.time()
    ncli = 48 if thorough else 12
    rnd = random.Random(seed + 99)
    cli_maps = [maps["disallow_untyped_defs"], maps["strict_optional"], maps["ignore_errors"]]
    ctasks = []
    for i in range(ncli):
        rec = small[(i * 37 + seed) % len(small)] if i % 2 == 0 else rnd.choice(recs2 + extra)
        om = cli_maps[i % len(cli_maps)]
        if rec["c"] != UNSET and not om["has_cmd"]:
            om = cli_maps[0]
        ctasks.append((i, rec, om, FORMATS[i % nfmt], seed * 17 + i, inline2, root))
    cli_runs = cli_evals = 0
    cbad: list[Any] = []
    with ThreadPoolExecutor(min(12, nproc)) as ex:
        for out in ex.map(_wcli, ctasks):
            if "machinery" in out:
                raise MachineryError(out["machinery"])
            cli_runs += 1
            cli_evals += out["evals"]
            if out["viol"]:
                cbad.append(out)
    t_cli = time.time() - t4

    if replayed == 0 or builds == 0 or cli_runs == 0 or not eq:
        raise MachineryError("conformance step did not run")

    # ---- 8. verdicts
    _winit(root)
    mini = Minimiser(index, _W["dir"], inline2)
    drift: list[str] = []
    complaints: list[str] = []
    reported: dict[str, int] = {}
    n_disagree = 0
    for idx, dest, fmt, salt, r in sorted(bad, key=lambda b: (b[0], b[1], b[2])):
        drift += ["cfg %d (%s,%s): %s" % (idx, dest, fmt, d) for d in r["drift"][:3]]
        it = rec_of[(idx, dest, fmt, salt)]
        rec, om = it[1], it[2]
        if r["complaint"]:
            complaints.append("cfg %d (%s,%s): %s" % (idx, dest, fmt, r["complaint"][:300]))
            key = "complaint:%s:%s" % (dest, re.sub(r"[^A-Za-z ]+", " ", r["complaint"])[:80].strip())
            v.violation(key, {"config": Plan(rec, om, fmt, salt).text, "argv": Plan(rec, om, fmt, salt).argv(FILE_NAMES[fmt])},
                        "a documented spelling was not accepted silently: " + r["complaint"][:300])
        for vi in r["viol"]:
            n_disagree += 1
            plan = Plan(rec, om, fmt, salt)
            if vi.get("m") is None or "why" in vi:
                key = "rejected:%s:%s:%s" % (dest, fmt, canon(rec["s"], rec["g"], rec["c"], vi.get("i") or UNSET, vi.get("m")))
                v.violation(key, {"config": plan.text, "argv": plan.argv(FILE_NAMES[fmt]), "inline": plan.inline},
                            "configuration not accepted: %s" % vi.get("why"))
                continue
            key, detail = ("", {})
            if len(rec["doc"]) == 3:
                ck = (json.dumps(rec["s"]), rec["g"], rec["c"], vi["i"], vi["m"], dest)
                key, detail = mini.minimise(rec, vi["i"], vi["m"], om)
            if not key:
                kind = "design" if vi["got"] == vi["imp"] else "code:" + dest
                key = kind + ":" + fmt + ":" + canon(rec["s"], rec["g"], rec["c"], vi["i"], vi["m"])
                detail = {"got": vi["got"], "doc": vi["doc"], "imp": vi["imp"], "config": plan.text,
                          "argv": plan.argv(FILE_NAMES[fmt]), "inline": plan.inline[vi["i"]]}
            reported[key] = reported.get(key, 0) + 1
            v.violation(key, dict(detail, module=vi["m"], option=dest, original={"config": plan.text, "fmt": fmt}),
                        "module %s: option %s is %r, the documented precedence gives %r (model of the code: %r)\n%s"
                        % (vi["m"], dest, detail.get("got"), detail.get("doc"), detail.get("imp"), detail.get("config", "")))
    for out in bbad + cbad:
        drift += out.get("drift", [])[:3]
        it_rec = None
        for vi in out["viol"]:
            n_disagree += 1
            src = btasks if out in bbad else ctasks
            t = next(t for t in src if t[0] == out["idx"])
            rec, om, fmt, salt = t[1], t[2], t[3], t[4]
            plan = Plan(rec, om, fmt, salt)
            key, detail = ("", {})
            if vi.get("m") is not None and "why" not in vi:
                key, detail = mini.minimise(rec, vi["i"], vi["m"], om)
            if not key:
                key = "build:%s:%s:%s" % (om["dest"], vi.get("via", vi.get("why", ""))[:40],
                                          canon(rec["s"], rec["g"], rec["c"], vi.get("i") or UNSET, vi.get("m")))
                detail = {"got": vi.get("got"), "doc": vi.get("doc"), "config": plan.text, "argv": plan.cmd}
            reported[key] = reported.get(key, 0) + 1
            v.violation(key, dict(detail, module=vi.get("m"), option=om["dest"], via=vi.get("via")),
                        "real %s, module %s: option %s gives %r, documented %r" %
                        ("build" if out in bbad else "command line", vi.get("m"), om["dest"], vi.get("got"), vi.get("doc")))
    eq_runs = sum(e["runs"] for e in eq) + sum(e["runs"] for e in eqd)
    eq_pairs = sum(e["pairs"] for e in eq)
    rejected = {e["id"]: e["rejected"] for e in eq if e["rejected"]}
    for e in sorted(eq, key=lambda e: e["id"]):
        for d in e["diff"]:
            key = "equiv:%s:%s~%s:%s" % (e["id"], d["a"][0], d["b"][0], ",".join(sorted(d["diff"])))
            v.violation(key, d, "setting %s: sources %s and %s give different Options: %s" % (e["id"], d["a"], d["b"], d["diff"]))
        if len(e["accepted"]) < 2 and e["runs"] >= 2:
            v.violation("equiv-accept:%s" % e["id"], e, "setting %s is accepted by fewer than two sources: %s" % (e["id"], e["rejected"][:3]))
    for e in eqd:
        for d in e["diff"]:
            v.violation("equiv-diag:%s:%s~%s:%s" % (e["id"], d["a"], d["b"], d["scope"]), d,
                        "setting %s: diagnostics differ between sources %s and %s" % (e["id"], d["a"], d["b"]))
    if drift:
        print("MODEL DRIFT (%d): %s" % (len(drift), drift[:5]), file=sys.stderr)

    # ---- 9. evidence
    nontrivial = 0
    for rec, _ in all_recs:
        vals = [x[1] for x in rec["s"] if x[1] != UNSET] + [x for x in (rec["g"], rec["c"]) if x != UNSET]
        if len(set(vals)) >= 2:
            nontrivial += 1
    sample_rec = recs2[len(recs2) // 2]
    sample_plan = Plan(sample_rec, maps["disallow_untyped_defs"], "ini", 1)
    coverage = {
        "states": states, "transitions": transitions,
        "traces_validated_against_impl": replayed + builds + cli_runs,
        "configurations_emitted": len(all_recs), "configurations_with_4_sections": len(extra),
        "replays_process_options": replayed, "value_comparisons": evals,
        "real_builds": builds, "real_build_module_comparisons": build_evals,
        "command_line_runs": cli_runs, "command_line_module_comparisons": cli_evals,
        "equivalence_settings": len(settings), "equivalence_runs": eq_runs, "equivalence_pairs_compared": eq_pairs,
        "equivalence_spellings_not_accepted": rejected,
        "equivalence_diagnostic_settings": len(eqd),
        "options_rotated": sorted(m["dest"] for m in maps.values()),
        "evaluations": evals + build_evals + cli_evals + eq_pairs,
        "distinct_nontrivial": nontrivial,
        "disagreements_seen": n_disagree, "disagreement_keys": reported,
        "model_drift": drift[:20], "complaints": complaints[:20],
        "rule": "every configuration TLC emits for Config.tla: all ordered selections of <=3 (thorough: <=4; quick: plus a "
                "TLC -simulate sample of 4) sections from {a, a.b, a.*, a.b.*, *.b, a.*.c}, each section / [mypy] / command "
                "line unset or one of 2 values (3 values for <=2 sections with follow_imports), x 39 module names x every "
                "inline choice; each is replayed under a rotating option (every per-module boolean + follow_imports) and "
                "file format; every option additionally on all <=1-section configurations; non-trivial = at least two "
                "sources give different values",
        "samples": [{"model_record": sample_rec, "config_file": sample_plan.text, "argv": sample_plan.argv("mypy.ini"),
                     "inline": sample_plan.inline}],
        "tlc": cov,
        "timing_s": {"tlc": round(t_tlc, 1), "replay": round(t_replay, 1), "builds": round(t_build, 1),
                     "equivalence": round(t_equiv, 1), "cli": round(t_cli, 1)},
        "exhaustive": thorough,
    }
    return v.finish("model_checking", coverage, [
        "module and pattern components are single letters (the code's string operations are transcribed on characters)",
        "a bare [mypy-*] section is outside the model (the documentation does not define it)",
        "list-valued options (always_true, enable/disable_error_code ...) accumulate rather than override and are "
        "covered by source equivalence only, not by precedence",
        "A-fixtures: in-process builds use the test fixtures' typeshed; a sample goes through `python -m mypy` with the real one",
    ])


if __name__ == "__main__":
    try:
        sys.exit(main(sys.argv[1:]))
    except MachineryError as e:
        print("MACHINERY FAILURE:", e, file=sys.stderr)
        sys.exit(2)
