"""C17 -- configuration sources are equivalent and precedence is as documented.

Specification: spec/Config.tla.  It holds, side by side, the DOCUMENTED precedence rule
(`Resolve`, written from docs/source/config_file.rst + inline_config.rst) and a transcription of
the implementation (process_options -> build_per_module_cache -> clone_for_module ->
compile_glob -> inline comment), one action per step of the code.  TLC compares the two over
every bounded configuration and emits every configuration together with the documented value
of the option for each of 39 module names.

Binding: every emitted configuration is written as a real config file (mypy.ini / setup.cfg /
pyproject.toml / a discovered mypy.ini) + command line + `# mypy:` comment and pushed through the
real mypy.main.process_options, Options.process_error_codes, Options.clone_for_module,
mypy.util.get_mypy_comments, config_parser.parse_mypy_comments and Options.apply_changes (the
steps of build.State.apply_inline_configuration); a sample also through real builds
(State.options + diagnostics of witness programs) and the real command line.  The ORACLE is
the documented rule as evaluated by TLC; the model's implementation side and its `cache` /
`globs` / `base` variables are compared too (drift detection, never a verdict).

Second part (source equivalence): for every flag of main.define_options and every key of
config_parser.ini_config_types the same setting is supplied through each source that accepts it
and the resulting Options are compared (real vs real); for settings with a witness program the
diagnostics are compared too.
"""
from __future__ import annotations

import contextlib
import io
import itertools
import json
import multiprocessing
import os
import random
import re
import subprocess
import sys
import time
from concurrent.futures import ThreadPoolExecutor
from typing import Any

from harness.common import (MachineryError, PY, REPO, SPEC, Verdict, coverage_summary, parse_args,
                            repo_env, sany, scratch, tlc)

PID = "C17"
LETTERS = "abc"
MODS = ([x for x in LETTERS] + [".".join(t) for t in itertools.product(LETTERS, repeat=2)]
        + [".".join(t) for t in itertools.product(LETTERS, repeat=3)])
UNSET = "-"
FORMATS = ("ini", "toml", "setupcfg", "discover")
FILLERS = ("warn_unused_ignores", "warn_unreachable")
# options whose final value is computed from another option by process_options (documented couplings);
# they cannot be used as the observed option of a precedence replay
COUPLED = {"disable_bytearray_promotion", "disable_memoryview_promotion"}   # := strict_bytes, unconditionally
ERRCODE = "truthy-bool"     # the error code observed by the enable/disable_error_code option map


def obs(o: Any, om: dict[str, Any]) -> Any:
    """The observed value of the option map's option on an Options object."""
    if om["kind"] == "errcode":
        en = {c.code for c in o.enabled_error_codes}
        dis = {c.code for c in o.disabled_error_codes}
        return "enabled" if ERRCODE in en else ("disabled" if ERRCODE in dis else "default")
    return getattr(o, om["dest"])


# =========================================================================== option tables
def _parser() -> Any:
    from mypy.main import define_options
    return define_options("mypy", "", io.StringIO(), io.StringIO(), False)[0]


def _inversions(dest: str, template: Any) -> list[str]:
    """Config-file names that mean `not dest`, as documented (config_file.rst "Inverting option
    values": add no_, or swap the prefix disallow <-> allow)."""
    res = []
    if not dest.startswith("no_"):
        res.append("no_" + dest)
    for a, b in (("disallow_", "allow_"), ("allow_", "disallow_")):
        if dest.startswith(a):
            cand = b + dest[len(a):]
            if not hasattr(template, cand):
                res.append(cand)
    return res


def build_optmaps() -> dict[str, Any]:
    """Refinement maps: model value -> real spelling per source, read off the real tables."""
    import argparse
    from mypy.options import PER_MODULE_OPTIONS, Options

    parser = _parser()
    tmpl = Options()
    flags: dict[str, dict[Any, list[str]]] = {}
    for a in parser._actions:
        if not a.option_strings or a.dest.startswith("special-opts:"):
            continue
        if isinstance(a, (argparse._StoreTrueAction, argparse._StoreFalseAction)):
            for s in a.option_strings:
                if s.startswith("--"):
                    flags.setdefault(a.dest, {}).setdefault(a.const, []).append(s)
    maps: dict[str, Any] = {}
    strict_members = dict(define_options_strict())

    def boolmap(dest: str, per_module: bool) -> None:
        dv = getattr(tmpl, dest)
        real = {"p": (not dv), "q": dv, "d": dv}
        cfgsp = {ch: [(dest, real[ch])] + [(k, not real[ch]) for k in _inversions(dest, tmpl)] for ch in "pq"}
        cmd = {ch: [[f] for f in flags.get(dest, {}).get(real[ch], [])] for ch in "pq"}
        if dest == "allow_redefinition":      # documented alias key (confval allow_redefinition_new)
            for ch in "pq":
                cfgsp[ch].append(("allow_redefinition_new", real[ch]))
        maps[dest] = {"dest": dest, "kind": "bool", "per_module": per_module, "real": real, "cfg": cfgsp,
                      "cmd": cmd, "has_cmd": all(cmd[ch] for ch in "pq")}
        # member of the --strict / strict=True group: the umbrella assigns the model value "p"
        if dest in strict_members and strict_members[dest] == real["p"]:
            maps[dest]["umbrella"] = {"cfg": ("strict", True), "cmd": "--strict"}
    for dest in sorted(PER_MODULE_OPTIONS):
        if isinstance(getattr(tmpl, dest, None), bool) and dest not in COUPLED and dest != "mypyc":
            boolmap(dest, True)
    real = {"p": "skip", "q": "silent", "r": "error", "d": "normal"}
    maps["follow_imports"] = {
        "dest": "follow_imports", "kind": "enum", "per_module": True, "real": real,
        "cfg": {ch: [("follow_imports", real[ch])] for ch in "pqr"},
        "cmd": {ch: [["--follow-imports=" + real[ch]], ["--follow-imports", real[ch]]] for ch in "pqr"},
        "has_cmd": True}
    # global-only valued options: two conflicting values each (command line vs [mypy])
    valued = {"platform": ("--platform", "win32", "darwin"), "cache_dir": ("--cache-dir", "/tmp/c17-cd-p", "/tmp/c17-cd-q"),
              "custom_typing_module": ("--custom-typing-module", "typing_p", "typing_q"),
              "junit_xml": ("--junit-xml", "/tmp/c17-p.xml", "/tmp/c17-q.xml"),
              "junit_format": ("--junit-format", "per_file", "global"), "num_workers": ("--num-workers", 2, 3),
              "sqlite_num_shards": ("--sqlite-num-shards", 4, 8), "quickstart_file": ("--quickstart-file", "/tmp/c17-qs-p", "/tmp/c17-qs-q")}
    # enabling / disabling ONE error code: per-module sections and inline comments "adjust" the global state
    # (error_codes.rst); observed through enabled_error_codes / disabled_error_codes
    ec = {"p": ("enable_error_code", "--enable-error-code", "enabled"), "q": ("disable_error_code", "--disable-error-code", "disabled")}
    maps["error_code"] = {
        "dest": "error_code", "kind": "errcode", "per_module": True,
        "real": {"p": "enabled", "q": "disabled", "d": "default"},
        "cfg": {ch: [(ec[ch][0], [ERRCODE])] for ch in "pq"},
        "cmd": {ch: [[ec[ch][1], ERRCODE], ["%s=%s" % (ec[ch][1], ERRCODE)]] for ch in "pq"}, "has_cmd": True,
        # on the global level (command line + [mypy]) "enabling overrides disabling" whatever the source
        # (config_file.rst, confval enable_error_code): configurations where the two disagree are left out
        "skip_global_conflict": True}
    mn = defaults_min_version()
    pvs = ["3.%d" % k for k in range(mn[1], mn[1] + 6) if (3, k) != tuple(sys.version_info[:2])][:2]
    maps["python_version"] = {
        "dest": "python_version", "kind": "valued", "per_module": False,
        "real": {"p": tuple(int(x) for x in pvs[0].split(".")), "q": tuple(int(x) for x in pvs[1].split(".")),
                 "d": tmpl.python_version},
        "cfg": {"p": [("python_version", pvs[0])], "q": [("python_version", pvs[1])]},
        "cmd": {"p": [["--python-version", pvs[0]]], "q": [["--python-version=" + pvs[1]]]}, "has_cmd": True,
        "ctx": ["--no-site-packages"]}      # (otherwise the command-line form looks for that interpreter)
    for dest, (flag, pv, qv) in valued.items():
        real = {"p": pv, "q": qv, "d": getattr(tmpl, dest)}
        maps[dest] = {"dest": dest, "kind": "valued", "per_module": False, "real": real,
                      "cfg": {ch: [(dest, real[ch])] for ch in "pq"},
                      "cmd": {ch: [[flag, str(real[ch])], ["%s=%s" % (flag, real[ch])]] for ch in "pq"}, "has_cmd": True}
    for dest in sorted(flags):      # global-only booleans: command line vs [mypy]
        if dest in maps or dest in PER_MODULE_OPTIONS or dest in COUPLED:
            continue
        if isinstance(getattr(tmpl, dest, None), bool):
            boolmap(dest, False)
    return maps


def define_options_strict() -> list[tuple[str, bool]]:
    from mypy.main import define_options
    return define_options("mypy", "", io.StringIO(), io.StringIO(), False)[2]


def defaults_min_version() -> tuple[int, int]:
    from mypy import defaults
    return defaults.PYTHON3_VERSION_MIN


# =========================================================================== rendering
INI_TRUE = ("True", "true", "yes", "on", "1")
INI_FALSE = ("False", "false", "no", "off", "0")


def ini_value(v: Any, rnd: random.Random) -> str:
    if isinstance(v, bool):
        return rnd.choice(INI_TRUE if v else INI_FALSE) if rnd.random() < 0.3 else str(v)
    if isinstance(v, (list, tuple)):
        return ", ".join(str(x) for x in v)
    return str(v)


def toml_value(v: Any, rnd: random.Random, list_as_string: bool = False) -> str:
    if isinstance(v, bool):
        return "true" if v else "false"
    if isinstance(v, int):
        return str(v)
    if isinstance(v, (list, tuple)):
        if list_as_string:
            return json.dumps(", ".join(str(x) for x in v))
        return "[" + ", ".join(json.dumps(str(x)) for x in v) + "]"
    return json.dumps(str(v))


def render_config(fmt: str, glob_kv: list[tuple[str, Any]], sections: list[tuple[list[str], list[tuple[str, Any]]]],
                  rnd: random.Random, list_as_string: bool = False) -> str:
    """sections: [(patterns sharing one header, key/values)] in file order."""
    out: list[str] = []
    if fmt == "toml":
        out.append("[build-system]\nrequires = []\n\n[tool.mypy]")
        for k, v in glob_kv:
            out.append("%s = %s" % (k, toml_value(v, rnd, list_as_string)))
        for pats, kv in sections:
            out.append("\n[[tool.mypy.overrides]]")
            if len(pats) == 1 and rnd.random() < 0.7:
                out.append("module = %s" % json.dumps(pats[0]))
            else:
                out.append("module = [%s]" % ", ".join(json.dumps(p) for p in pats))
            for k, v in kv:
                out.append("%s = %s" % (k, toml_value(v, rnd, list_as_string)))
    else:
        if fmt == "setupcfg":
            out.append("[metadata]\nname = x\n")
        out.append("[mypy]")
        for k, v in glob_kv:
            out.append("%s = %s" % (k, ini_value(v, rnd)))
        for pats, kv in sections:
            out.append("\n[mypy-%s]" % ",".join(pats))
            for k, v in kv:
                out.append("%s = %s" % (k, ini_value(v, rnd)))
    return "\n".join(out) + "\n"


def inline_comment(key: str, v: Any, rnd: random.Random) -> str:
    name = key.replace("_", "-") if rnd.random() < 0.7 else key
    if v is True and rnd.random() < 0.5:
        return "# mypy: " + name
    if isinstance(v, (list, tuple)):
        return '# mypy: %s="%s"' % (name, ",".join(v))
    return "# mypy: %s=%s" % (name, v)


FILE_NAMES = {"ini": "mypy.ini", "toml": "pyproject.toml", "setupcfg": "setup.cfg", "discover": "mypy.ini"}


class Plan:
    """One abstract configuration (a TLC record) refined to concrete text under an option map."""

    def __init__(self, rec: dict[str, Any], om: dict[str, Any], fmt: str, salt: int, plain: bool = False) -> None:
        rnd = random.Random(salt)
        self.rec, self.om, self.fmt = rec, om, fmt
        pick = (lambda xs: xs[0]) if plain else (lambda xs: rnd.choice(xs))
        dest = om["dest"]
        filler = next(f for f in FILLERS if f != dest)
        glob_kv = [pick(om["cfg"][rec["g"]])] if rec["g"] != UNSET else []
        if rec.get("gu"):       # the umbrella key, before or after the explicit key ("regardless of the order")
            glob_kv.insert(0 if (plain or rnd.random() < 0.5) else len(glob_kv), om["umbrella"]["cfg"])
        secs: list[tuple[list[str], list[tuple[str, Any]]]] = []
        # pyproject.toml only, a deterministic half (by salt) of the configurations with >= 2 sections: the TOML format lets one
        # module be named by several [[tool.mypy.overrides]] tables whose settings are merged.  Consecutive
        # sections are grouped into ONE list-valued table `module = [A, B, ..]` (carrying at most a filler
        # setting common to all of them) and each section's own setting of the observed option follows in a
        # LATER table that names the module again -- alone, or in a list with the other sections of the same
        # value.  per_module_options keeps first-appearance order, so the section order of the model is kept.
        self.split = (fmt == "toml" and not plain and len(rec["s"]) >= 2
                      and random.Random(salt ^ 0x5BD1E995).random() < 0.5)   # (independent of the format rotation)
        self.later_tables = 0
        if self.split:
            later: list[tuple[list[str], list[tuple[str, Any]]]] = []
            items = list(rec["s"])
            k = 0
            while k < len(items):
                size = min(len(items) - k, rnd.choice((2, 2, 3, 4)))
                group = items[k:k + size]
                k += size
                if len(group) == 1:
                    pat, val = group[0]
                    secs.append(([pat], [pick(om["cfg"][val])] if val != UNSET else []))
                    continue
                secs.append(([p_ for p_, _ in group], [(filler, True)] if rnd.random() < 0.5 else []))
                byval: dict[str, list[str]] = {}
                for pat, val in group:
                    if val != UNSET:
                        byval.setdefault(val, []).append(pat)
                for val, pats in byval.items():
                    kvp = pick(om["cfg"][val])
                    if len(pats) > 1 and rnd.random() < 0.5:
                        later.append((list(pats), [kvp]))          # overlapping list-valued table
                    else:
                        later += [([p_], [kvp]) for p_ in pats]    # single-module tables
            rnd.shuffle(later)
            self.later_tables = len(later)
            secs += later
        else:
            for pat, val in rec["s"]:
                if val != UNSET:
                    kv = [pick(om["cfg"][val])]
                else:
                    kv = [(filler, True)] if (not plain and rnd.random() < 0.5) else []
                # adjacent sections with identical settings may share one header (PATTERN1,PATTERN2)
                if secs and secs[-1][1] == kv and not plain and rnd.random() < 0.5:
                    secs[-1][0].append(pat)
                else:
                    secs.append(([pat], kv))
        self.text = render_config(fmt, glob_kv, secs, rnd)
        self.cmd = list(pick(om["cmd"][rec["c"]])) if rec["c"] != UNSET else []
        if rec.get("cu"):
            self.cmd = ([om["umbrella"]["cmd"]] + self.cmd) if (plain or rnd.random() < 0.5) else (self.cmd + [om["umbrella"]["cmd"]])
        self.cmd += om.get("ctx", [])
        self.cmd_first = (not plain) and rnd.random() < 0.5
        self.inline = {UNSET: ""}
        for ch in om["cfg"]:
            k, v = pick(om["cfg"][ch])
            self.inline[ch] = inline_comment(k, v, rnd)

    def argv(self, path: str | None) -> list[str]:
        cf = ["--config-file", path] if path is not None else []
        return (self.cmd + cf if self.cmd_first else cf + self.cmd) + ["-c", "pass"]


class RawPlan:
    """A config text + argv given directly (source equivalence runs)."""

    def __init__(self, fmt: str, text: str, argv_tail: list[str]) -> None:
        self.fmt, self.text, self.tail = fmt, text, argv_tail

    def argv(self, path: str | None) -> list[str]:
        return (["--config-file", path] if path is not None else []) + self.tail


# =========================================================================== real code under test
def real_options(plan: Any, wdir: str, chdir: bool = False) -> tuple[Any, str, Any]:
    """process_options + the error-code step of build.build, as the real front end does them."""
    from mypy.main import process_options

    path = os.path.join(wdir, FILE_NAMES[plan.fmt])
    for n in set(FILE_NAMES.values()):
        p = os.path.join(wdir, n)
        if os.path.exists(p):
            os.unlink(p)
    with open(path, "w") as f:
        f.write(plan.text)
    so, se, pr = io.StringIO(), io.StringIO(), io.StringIO()
    cwd = os.getcwd()
    try:
        if plan.fmt == "discover" or chdir:
            os.chdir(wdir)
        argv = plan.argv(None if plan.fmt == "discover" else path)
        try:
            with contextlib.redirect_stdout(pr):   # deprecation notes are print()ed, not complaints
                targets, options = process_options(argv, stdout=so, stderr=se)
        except SystemExit as e:
            return None, "SystemExit(%s) %s %s" % (e.code, so.getvalue()[-300:], se.getvalue()[-300:]), None
    finally:
        os.chdir(cwd)
    msgs: list[str] = []
    options.process_error_codes(error_callback=msgs.append)
    complaint = (so.getvalue() + se.getvalue() + "".join(msgs)).strip()
    return options, complaint, targets


def final_options(options: Any, module: str, comment: str) -> tuple[Any, list[Any]]:
    """Options a module is checked with: clone_for_module, then State.parse_inline_configuration's steps."""
    from mypy.config_parser import parse_mypy_comments
    from mypy.util import get_mypy_comments

    om = options.clone_for_module(module)
    errs: list[Any] = []
    if comment:
        flags = get_mypy_comments(comment + "\nx = 1\n")
        if not flags:
            errs = [(0, "comment not recognised by get_mypy_comments")]
        else:
            changes, errs = parse_mypy_comments(flags, om)
            om = om.apply_changes(changes)
    return om, errs


def replay_plan(plan: Plan, wdir: str, inline_seq: list[str], idx: int) -> dict[str, Any]:
    """Push one configuration through the real code; compare the value each module is checked with
    against the documented value (doc) and the model's implementation side (imp).  Without an inline
    comment all 39 modules are compared; with each inline choice a rotating subset of 6."""
    rec, om = plan.rec, plan.om
    dest, real = om["dest"], om["real"]
    res: dict[str, Any] = {"viol": [], "drift": [], "evals": 0, "complaint": ""}
    options, complaint, _ = real_options(plan, wdir)
    if options is None:
        res["viol"].append({"m": None, "i": None, "why": "rejected: " + complaint})
        return res
    res["complaint"] = complaint
    if obs(options, om) != real[rec["b"]]:
        res["drift"].append("base: real %r model %r" % (obs(options, om), real[rec["b"]]))
    n = len(MODS)
    with_inline = {(idx * 5 + k * 7) % n for k in range(6)}
    for mi, m in enumerate(MODS):
        for j, inl in enumerate(inline_seq):
            if inl != UNSET and mi not in with_inline:
                continue
            fin, errs = final_options(options, m, plan.inline[inl])
            got = obs(fin, om)
            res["evals"] += 1
            doc, imp = real[rec["doc"][j][mi]], real[rec["imp"][j][mi]]
            if errs:
                res["viol"].append({"m": m, "i": inl, "why": "inline comment rejected: %r" % (errs,)})
            elif got != doc:
                res["viol"].append({"m": m, "i": inl, "got": got, "doc": doc, "imp": imp})
            elif got != imp:
                res["drift"].append("module %s inline %s: real %r = doc, model impl %r" % (m, inl, got, imp))
    # a pyproject.toml whose tables name a module more than once must mean what the plain mypy.ini rendering
    # of the same configuration means (real vs real)
    if getattr(plan, "split", False):
        res["split"] = 1
        res["later"] = plan.later_tables
        twin = Plan(rec, om, "ini", 0, plain=True)
        o2, c2, _ = real_options(twin, wdir)
        if o2 is None or c2:
            res["drift"].append("ini twin of a split pyproject not accepted: %s" % c2)
        else:
            for m in MODS:
                a, b = obs(options.clone_for_module(m), om), obs(o2.clone_for_module(m), om)
                res["evals"] += 1
                if a != b:
                    res["viol"].append({"m": m, "i": UNSET, "got": a, "doc": b, "imp": real[rec["imp"][0][MODS.index(m)]],
                                        "via": "toml-vs-ini"})
    # projection of the real state on the specification's variables
    cache = getattr(options, "_per_module_cache") or {}
    got_cache = [[k, obs(val, om)] for k, val in cache.items()]
    want_cache = [[k, real[val]] for k, val in rec["k"]]
    if got_cache != want_cache:
        res["drift"].append("_per_module_cache: real %r model %r" % (got_cache, want_cache))
    got_globs = [k for k, _ in getattr(options, "_glob_options")]
    if got_globs != rec["gl"]:
        res["drift"].append("_glob_options: real %r model %r" % (got_globs, rec["gl"]))
    return res


_W: dict[str, Any] = {}


def _winit(root: str) -> None:
    d = os.path.join(root, "w%d" % os.getpid())
    os.makedirs(d, exist_ok=True)
    _W["dir"] = d


def _wreplay(task: tuple[list[Any], list[str]]) -> list[Any]:
    items, inline_seq = task
    out = []
    for idx, rec, om, fmt, salt in items:
        r = replay_plan(Plan(rec, om, fmt, salt), _W["dir"], inline_seq, idx)
        if r["viol"] or r["drift"] or r["complaint"]:
            out.append((idx, om["dest"], fmt, salt, r))
        else:
            out.append((idx, None, None, None, {"evals": r["evals"], "split": r.get("split", 0), "later": r.get("later", 0)}))
    return out


# =========================================================================== keys / minimisation
def rec_key(secs: list[list[str]], g: str, c: str, gu: bool = False, cu: bool = False) -> str:
    return json.dumps([secs, g, c, bool(gu), bool(cu)])


def rkey(rec: dict[str, Any]) -> str:
    return rec_key(rec["s"], rec["g"], rec["c"], rec.get("gu", False), rec.get("cu", False))


def canon(secs: list[list[str]], g: str, c: str, i: str, m: str | None, gu: bool = False, cu: bool = False) -> str:
    """Value-renaming-invariant name of a configuration (first value seen -> x, second -> y ...);
    +U marks the umbrella flag written at that place."""
    names: dict[str, str] = {}

    def nm(val: str) -> str:
        if val == UNSET:
            return UNSET
        if val not in names:
            names[val] = "xyz"[len(names)]
        return names[val]
    s = ",".join("%s=%s" % (p, nm(val)) for p, val in secs)
    return "s=[%s];g=%s%s;c=%s%s;i=%s|m=%s" % (s, nm(g), "+U" if gu else "", nm(c), "+U" if cu else "", nm(i), m)


def rcanon(rec: dict[str, Any], i: str, m: str | None) -> str:
    return canon(rec["s"], rec["g"], rec["c"], i, m, rec.get("gu", False), rec.get("cu", False))


class Minimiser:
    """Delta-minimises a (configuration, module) whose real value differs from the documented one: drops
    sections / unsets sources one at a time while the disagreement persists.  Every candidate is itself a
    configuration TLC emitted (looked up in `index`), so the oracle stays the specification's."""

    def __init__(self, index: dict[str, dict[str, Any]], wdir: str, ref: dict[str, Any]) -> None:
        self.index, self.wdir, self.ref = index, wdir, ref
        self.confirmed: dict[str, Any] = {}

    def check(self, cfg: tuple[Any, ...], m: str, om: dict[str, Any] | None) -> Any:
        """cfg = (secs, g, c, i, gu, cu).  om=None: decide from the specification's own tables (documented
        value vs transcribed implementation); used when the real code has been seen to agree with the
        transcription.  Otherwise run the real code."""
        secs, g, c, i, gu, cu = cfg
        rec = self.index.get(rec_key(secs, g, c, gu, cu))
        if rec is None:
            return None
        inline_seq = [UNSET, "p", "q", "r"][:len(rec["doc"])]
        j, mi = inline_seq.index(i), MODS.index(m)
        if om is None:
            return (rec["doc"][j][mi] != rec["imp"][j][mi], {})
        if (c != UNSET and not om["cmd"].get(c)) or (i not in om["cfg"] and i != UNSET) or ((gu or cu) and "umbrella" not in om):
            return None
        plan = Plan(rec, om, "ini", 0, plain=True)
        options, complaint, _ = real_options(plan, self.wdir)
        if options is None:
            return None
        fin, errs = final_options(options, m, plan.inline[i])
        got = obs(fin, om)
        doc, imp = om["real"][rec["doc"][j][mi]], om["real"][rec["imp"][j][mi]]
        return (got != doc, {"got": got, "doc": doc, "imp": imp, "config": plan.text, "argv": plan.argv("mypy.ini"),
                             "inline": plan.inline[i], "option_in_minimal_configuration": om["dest"]})

    def minimise(self, rec: dict[str, Any], i: str, m: str, om: dict[str, Any], design: bool) -> tuple[str, dict[str, Any]]:
        cfg: tuple[Any, ...] = ([list(x) for x in rec["s"]], rec["g"], rec["c"], i, bool(rec.get("gu")), bool(rec.get("cu")))
        umb = cfg[4] or cfg[5]
        if design:
            use: Any = None
            tag = "*"
            first = self.check(cfg, m, None)
        else:
            # under the reference option (follow_imports: all model values map to distinct real values)
            # when the disagreement is not specific to the option it was seen with
            use, tag = self.ref, "*"
            first = self.check(cfg, m, use)
            if first is None or not first[0]:
                use, tag = om, om["dest"]
                first = self.check(cfg, m, use)
        if first is None or not first[0]:
            return "", {}      # specific to the spelling / file format: caller keeps the full case
        detail = first[1]
        changed = True
        while changed:
            changed = False
            secs, g, c, i, gu, cu = cfg
            cands: list[tuple[Any, ...]] = []
            for k in range(len(secs)):
                cands.append((secs[:k] + secs[k + 1:], g, c, i, gu, cu))
            for k in range(len(secs)):
                if secs[k][1] != UNSET:
                    cands.append((secs[:k] + [[secs[k][0], UNSET]] + secs[k + 1:], g, c, i, gu, cu))
            if g != UNSET:
                cands.append((secs, UNSET, c, i, gu, cu))
            if c != UNSET:
                cands.append((secs, g, UNSET, i, gu, cu))
            if i != UNSET:
                cands.append((secs, g, c, UNSET, gu, cu))
            if gu:
                cands.append((secs, g, c, i, False, cu))
            if cu:
                cands.append((secs, g, c, i, gu, False))
            for cand in cands:
                r = self.check(cand, m, use)
                if r is not None and r[0]:
                    cfg, detail = cand, r[1]
                    changed = True
                    break
        secs, g, c, i, gu, cu = cfg
        name = canon(secs, g, c, i, m, gu, cu)
        if design:
            # the minimal configuration is confirmed against the real code (once per configuration)
            if name not in self.confirmed:
                self.confirmed[name] = self.check(cfg, m, om if (gu or cu or umb) and "umbrella" in om else self.ref)
            r = self.confirmed[name]
            if r is None or not r[0] or r[1]["got"] != r[1]["imp"]:
                return "", {}
            detail = r[1]
        return ("design:" if design else "code:%s:" % tag) + name, detail


# =========================================================================== real builds
WITNESS = """def w_untyped(x): pass
def w_optional() -> int:
    return None
w_undefined_name
from typing import Any
w_any: Any = 1
def w_unchecked():
    z: int = ''
def w_noreturn(c: int) -> int:
    if c:
        return 1
"""
WITNESS_OPTS = ("disallow_untyped_defs", "ignore_errors", "strict_optional", "disallow_any_explicit",
                "check_untyped_defs", "warn_no_return")


def mod_path(m: str) -> str:
    parts = m.split(".")
    return os.path.join(*parts) + ".py" if len(parts) == 3 else os.path.join(*(parts + ["__init__.py"]))


def write_tree(root: str, comments: dict[str, str]) -> None:
    for m in MODS:
        p = os.path.join(root, mod_path(m))
        os.makedirs(os.path.dirname(p), exist_ok=True)
        c = comments.get(m, "")
        # the comment goes on the LAST line so that line numbers of the diagnostics do not move
        with open(p, "w") as f:
            f.write(WITNESS + (c + "\n" if c else ""))


def per_module_diags(errors: list[str]) -> dict[str, list[str]]:
    byfile: dict[str, list[str]] = {}
    for line in errors:
        mm = re.match(r"([^:]+):(\d+): (.*)", line)
        if mm:
            byfile.setdefault(mm.group(1), []).append(mm.group(2) + ": " + mm.group(3))
    return {m: byfile.get(mod_path(m), []) for m in MODS}


def inproc_build(tree: str, argv_extra: list[str], cfg_text: str | None, fmt: str) -> tuple[dict[str, Any], dict[str, list[str]], str]:
    """A real build (fixtures typeshed) of the 39-module tree; per-module State.options and diagnostics."""
    from mypy import build
    from mypy.main import process_options

    cwd = os.getcwd()
    os.chdir(tree)
    try:
        for n in set(FILE_NAMES.values()):
            if os.path.exists(n):
                os.unlink(n)
        argv = list(argv_extra)
        if cfg_text is not None:
            with open(FILE_NAMES[fmt], "w") as f:
                f.write(cfg_text)
            if fmt != "discover":
                argv = ["--config-file", FILE_NAMES[fmt]] + argv
        else:
            argv = ["--config-file="] + argv
        so, se, pr = io.StringIO(), io.StringIO(), io.StringIO()
        with contextlib.redirect_stdout(pr):
            sources, options = process_options(argv + ["a", "b", "c"], stdout=so, stderr=se)
        options.use_builtins_fixtures = True
        options.incremental = False
        options.cache_dir = os.devnull
        options.show_traceback = True
        options.error_summary = False
        res = build.build(sources, options, alt_lib_path=tree, stdout=so, stderr=se)
        opts = {m: res.graph[m].options for m in MODS if m in res.graph}
        return opts, per_module_diags(res.errors), (so.getvalue() + se.getvalue()).strip()
    finally:
        os.chdir(cwd)


def _wbuild(task: tuple[int, dict[str, Any], dict[str, Any], str, int, list[str]]) -> dict[str, Any]:
    """One configuration through a real build; every module gets a (seeded) inline choice."""
    idx, rec, om, fmt, salt, inline_seq = task
    rnd = random.Random(salt * 7919 + 13)
    plan = Plan(rec, om, fmt, salt)
    choice = {m: rnd.choice(inline_seq) for m in MODS}
    tree = os.path.join(_W["dir"], "tree")
    write_tree(tree, {m: plan.inline[choice[m]] for m in MODS})
    out: dict[str, Any] = {"idx": idx, "viol": [], "drift": [], "evals": 0}
    try:
        opts, diags, noise = inproc_build(tree, plan.cmd, plan.text, fmt)
    except SystemExit as e:
        out["viol"].append({"m": None, "i": None, "why": "build front end exited: %r" % (e.code,)})
        return out
    if len(opts) != len(MODS):
        out["machinery"] = "build did not load all modules: %d" % len(opts)
        return out
    dest, real = om["dest"], om["real"]
    base = _W.setdefault("baseline", {})
    for m in MODS:
        j, mi = inline_seq.index(choice[m]), MODS.index(m)
        doc, imp = real[rec["doc"][j][mi]], real[rec["imp"][j][mi]]
        got = obs(opts[m], om)
        out["evals"] += 1
        if got != doc:
            out["viol"].append({"m": m, "i": choice[m], "got": got, "doc": doc, "imp": imp, "via": "State.options"})
            continue
        if got != imp:
            out["drift"].append("build: module %s real %r = doc, model impl %r" % (m, got, imp))
        if dest in WITNESS_OPTS:
            # diagnostics oracle: what the same module reports when the documented value is given to
            # everybody by one [mypy] line (learned from a real run of the real code)
            # when the configuration writes the umbrella flag, every OTHER member of the group has the
            # umbrella's value for every module: the baseline is then a run with --strict and the option's own flag
            umb = bool(rec.get("gu") or rec.get("cu"))
            for val in {doc, imp}:
                if (dest, val, umb) not in base:
                    bt = os.path.join(_W["dir"], "btree")
                    write_tree(bt, {})
                    kvs = ([om["umbrella"]["cfg"]] if umb else []) + [(dest, val)]    # same place: the explicit line wins
                    _, bd, _ = inproc_build(bt, [], render_config("ini", kvs, [], random.Random(0)), "ini")
                    if not any(bd.values()) and dest != "ignore_errors":
                        out["machinery"] = "baseline build reports nothing (vacuous witness)"
                        return out
                    base[(dest, val, umb)] = bd
            if diags[m] != base[(dest, doc, umb)][m]:
                out["viol"].append({"m": m, "i": choice[m], "got": diags[m], "doc": base[(dest, doc, umb)][m],
                                    "imp": base[(dest, imp, umb)][m], "via": "diagnostics"})
    return out


def cli_run(tree: str, argv: list[str]) -> tuple[int, dict[str, list[str]], str]:
    p = subprocess.run([PY, "-m", "mypy", "--no-error-summary", "--hide-error-context", "--no-incremental",
                        "--cache-dir", os.devnull] + argv + ["a", "b", "c"],
                       cwd=tree, env=repo_env(), capture_output=True, text=True, timeout=900)
    return p.returncode, per_module_diags(p.stdout.splitlines()), p.stderr.strip()


def _cli_baseline(task: tuple[str, str, Any, str]) -> tuple[str, Any, bool, Any]:
    """Diagnostics of the plain tree when the option has `val` for everybody (one [mypy] line); with `umb` the
    rest of the umbrella's group is switched on too (the umbrella key in the same [mypy] section, where the explicit line wins)."""
    root, dest, val, umb = task
    bt = os.path.join(root, "clibase-%s-%s-%s" % (dest, val, bool(umb)))
    write_tree(bt, {})
    with open(os.path.join(bt, "mypy.ini"), "w") as f:
        f.write(render_config("ini", ([("strict", True)] if umb else []) + [(dest, val)], [], random.Random(0)))
    rc, d, err = cli_run(bt, ["--config-file", "mypy.ini"])
    if rc not in (0, 1) or err:
        raise MachineryError("baseline CLI run failed: %s %s" % (rc, err[-300:]))
    return dest, val, bool(umb), d


def _wcli(task: tuple[int, dict[str, Any], dict[str, Any], str, int, list[str], str, dict[Any, Any]]) -> dict[str, Any]:
    """One configuration through the real command line (subprocess, real typeshed)."""
    idx, rec, om, fmt, salt, inline_seq, root, base = task
    rnd = random.Random(salt * 104729 + 7)
    plan = Plan(rec, om, fmt, salt)
    choice = {m: rnd.choice(inline_seq) for m in MODS}
    tree = os.path.join(root, "cli%d" % idx)
    write_tree(tree, {m: plan.inline[choice[m]] for m in MODS})
    with open(os.path.join(tree, FILE_NAMES[fmt]), "w") as f:
        f.write(plan.text)
    argv = plan.cmd + ([] if fmt == "discover" else ["--config-file", FILE_NAMES[fmt]])
    rc, diags, err = cli_run(tree, argv)
    out: dict[str, Any] = {"idx": idx, "viol": [], "evals": 0, "rc": rc}
    if rc not in (0, 1) or err:
        out["viol"].append({"m": None, "i": None, "why": "mypy exit %s stderr %s" % (rc, err[-400:])})
        return out
    dest, real = om["dest"], om["real"]
    for m in MODS:
        j, mi = inline_seq.index(choice[m]), MODS.index(m)
        doc = real[rec["doc"][j][mi]]
        out["evals"] += 1
        umb = bool(rec.get("gu") or rec.get("cu"))
        want = base[(dest, doc, umb)][m]
        if diags[m] != want:
            out["viol"].append({"m": m, "i": choice[m], "got": diags[m], "doc": want,
                                "imp": base[(dest, real[rec["imp"][j][mi]], umb)][m], "via": "cli-diagnostics"})
    return out


# =========================================================================== source equivalence
SNAP_IGNORE = {"config_file", "per_module_options"}
# inputs of process_options that are consumed there and have no reader afterwards
SNAP_INPUT_ONLY = {"no_site_packages", "files", "modules", "packages"}
GLOBAL_SOURCES = ("cmd", "ini", "setupcfg", "toml", "toml-str")
MODULE_SOURCES = ("ini-section", "toml-section", "toml-str-section", "inline")


def snap(o: Any, extra_ignore: set[str] = set()) -> dict[str, Any]:
    d = {k: v for k, v in o.snapshot().items() if k not in SNAP_IGNORE and k not in extra_ignore}
    for k in ("disabled_error_codes", "enabled_error_codes"):
        if k in d:
            d[k] = sorted(c.code for c in d[k])
    return d


def run_source(wdir: str, kind: str, key: str, value: Any, cmdline: list[str], module: str, salt: int,
               targets_in_config: bool) -> tuple[Any, Any, str, Any]:
    """Supply ONE setting through one source.  Returns (global Options, Options of `module`, complaints, targets)."""
    rnd = random.Random(salt)
    comment = ""
    tail = ["--no-site-packages"] + ([] if targets_in_config else ["-c", "pass"])
    las = "toml-str" in kind
    fmt = "toml" if kind.startswith("toml") else ("setupcfg" if kind == "setupcfg" else "ini")
    if kind == "cmd":
        plan = RawPlan("ini", "[mypy]\n", cmdline + tail)
    elif kind in GLOBAL_SOURCES:
        plan = RawPlan(fmt, render_config(fmt, [(key, value)], [], rnd, las), tail)
    elif kind == "inline":
        plan = RawPlan("ini", "[mypy]\n", tail)
        comment = inline_comment(key, value, rnd)
    else:
        plan = RawPlan(fmt, render_config(fmt, [], [([module], [(key, value)])], rnd, las), tail)
    options, complaint, targets = real_options(plan, wdir, chdir=True)
    if options is None:
        return None, None, complaint, None
    fin, errs = final_options(options, module, comment)
    if errs:
        complaint += " inline: %r" % (errs,)
    return options, fin, complaint, [(t.path, t.module, t.text) for t in targets]


def equivalence_settings() -> list[dict[str, Any]]:
    """Every setting of the option table with its spelling on the command line (if any) and the config-file
    spellings the documentation gives for it (flag name with underscores; Options attribute; inversions)."""
    import argparse
    from mypy.config_parser import ini_config_types
    from mypy.options import PER_MODULE_OPTIONS, Options

    parser = _parser()
    tmpl = Options()
    ver = "%d.%d" % sys.version_info[:2]
    sample: dict[str, Any] = {
        "follow_imports": "skip", "platform": "win32", "custom_typing_module": "mytyping", "cache_dir": "/tmp/c17-cache-x",
        "junit_xml": "/tmp/c17-junit.xml", "junit_format": "per_file", "always_true": ["FOO", "BAR"],
        "always_false": ["BAZ"], "disable_error_code": ["attr-defined", "misc"], "enable_error_code": ["truthy-bool"],
        "exclude": ["^build/"], "enable_incomplete_feature": ["PreciseTupleTypes"], "untyped_calls_exclude": ["foo.bar", "baz"],
        "deprecated_calls_exclude": ["foo.baz"], "custom_typeshed_dir": os.path.join(REPO, "mypy", "typeshed"),
        "verbosity": 1, "num_workers": 2, "sqlite_num_shards": 4, "many_errors_threshold": 5,
        "quickstart_file": "/tmp/c17-qs", "python_version": ver, "python_executable": sys.executable,
        "mypy_path": ["/tmp/c17-p1", "/tmp/c17-p2"], "plugins": [], "files": ["x.py"], "modules": ["m1"], "packages": ["p1"],
    }
    settings: list[dict[str, Any]] = []

    def dedupe(xs: list[Any]) -> list[Any]:
        out: list[Any] = []
        for x in xs:
            if x not in out:
                out.append(x)
        return out
    for a in parser._actions:
        if not a.option_strings or isinstance(a, argparse._HelpAction) or a.dest in ("version", "config_file"):
            continue
        dest = a.dest.split(":", 1)[1] if a.dest.startswith("special-opts:") else a.dest
        if dest in ("files", "modules", "packages", "command", "cache_map", "find_occurrences"):
            continue      # targets, not settings (the config-file keys files/modules/packages are below)
        longs = [s for s in a.option_strings if s.startswith("--")] or a.option_strings
        for flag in longs:
            name = flag.lstrip("-").replace("-", "_")
            per_module = dest in PER_MODULE_OPTIONS
            if isinstance(a, (argparse._StoreTrueAction, argparse._StoreFalseAction)):
                if dest == "strict":
                    spell = [("strict", True)]
                elif dest == "no_executable":
                    spell = [("no_site_packages", True)]
                else:
                    spell = [(name, True)]
                    if isinstance(getattr(tmpl, dest, None), bool):
                        spell.append((dest, a.const))
                        spell += [(k, not a.const) for k in _inversions(dest, tmpl)]
                settings.append({"id": flag, "dest": dest, "cmd": [flag], "cfg": dedupe(spell), "per_module": per_module})
            elif isinstance(a, argparse._CountAction):
                settings.append({"id": flag, "dest": dest, "cmd": [flag], "cfg": [(dest, 1)], "per_module": False})
            elif isinstance(a, (argparse._StoreAction, argparse._AppendAction)) and a.nargs is None:
                if dest.endswith("_report"):
                    val: Any = "/tmp/c17-report"
                    key = dest.replace("-", "_")
                elif dest in sample:
                    val, key = sample[dest], dest
                else:
                    continue      # no config-file counterpart exists (stats files, --output, -a ...)
                cmd = [x for one in val for x in (flag, one)] if isinstance(val, list) else [flag, str(val)]
                settings.append({"id": flag, "dest": dest, "cmd": cmd, "cfg": dedupe([(name, val), (key, val)]),
                                 "per_module": per_module})
    have = {k for s in settings for k, _ in s["cfg"]}
    for key in sorted(ini_config_types):      # config-file-only keys of the option table
        if key in have:
            continue
        if key in sample:
            settings.append({"id": "cfg:" + key, "dest": key, "cmd": None, "cfg": [(key, sample[key])], "per_module": False,
                             "targets": key in ("files", "modules", "packages")})
        elif key in ("strict", "no_site_packages"):
            settings.append({"id": "cfg:" + key, "dest": key, "cmd": None, "cfg": [(key, True)], "per_module": False})
    for dest in sorted(PER_MODULE_OPTIONS):   # per-module booleans that have no flag at all
        dv = getattr(tmpl, dest, None)
        if isinstance(dv, bool) and not any(s["dest"] == dest for s in settings):
            for val in (True, False):
                spell = [(dest, val)] + [(k, not val) for k in _inversions(dest, tmpl)]
                settings.append({"id": "cfg:%s=%s" % (dest, val), "dest": dest, "cmd": None, "cfg": spell, "per_module": True})
    return settings


def _wequiv(task: tuple[dict[str, Any], int]) -> dict[str, Any]:
    """All sources x all spellings of one setting; the Options they produce are grouped into classes."""
    st, seed = task
    wdir = _W["dir"]
    for n in ("x.py", "m1.py", os.path.join("p1", "__init__.py")):
        os.makedirs(os.path.dirname(os.path.join(wdir, n)) or wdir, exist_ok=True)
        open(os.path.join(wdir, n), "w").close()
    module = "pkg.mod"
    tic = bool(st.get("targets"))
    runs: list[tuple[str, str, Any, Any, str, Any]] = []
    n = 0
    if st["cmd"] is not None:
        o, f, c, t = run_source(wdir, "cmd", "", None, st["cmd"], module, seed, tic)
        runs.append(("cmd", " ".join(st["cmd"]), o, f, c, t)); n += 1
    for key, val in st["cfg"]:
        kinds = ["ini", "setupcfg", "toml"] + (["toml-str"] if isinstance(val, list) else [])
        if st["per_module"]:
            kinds += ["ini-section", "toml-section", "inline"] + (["toml-str-section"] if isinstance(val, list) else [])
        for kind in kinds:
            o, f, c, t = run_source(wdir, kind, key, val, [], module, seed + n, tic)
            runs.append((kind, "%s=%s" % (key, val) if isinstance(val, bool) else key, o, f, c, t)); n += 1
    out: dict[str, Any] = {"id": st["id"], "runs": n, "accepted": [], "rejected": [], "diff": [], "pairs": 0, "accept_diff": []}
    ok = []
    for src, sp, o, f, c, t in runs:
        if o is None or c:
            out["rejected"].append([src, sp, (c or "")[:160]])
        else:
            ok.append((src, sp, o, f, t))
            out["accepted"].append([src, sp])
    # a spelling is either understood by every config-file format or by none
    for key, val in st["cfg"]:
        for grp in (("ini", "setupcfg", "toml", "toml-str"), ("ini-section", "toml-section", "toml-str-section", "inline")):
            lab = "%s=%s" % (key, val) if isinstance(val, bool) else key
            tried = [r[0] for r in runs if r[1] == lab and r[0] in grp]
            acc = [r[0] for r in ok if r[1] == lab and r[0] in grp]
            if tried and acc and len(acc) != len(tried):
                out["accept_diff"].append({"key": key, "accepted": acc, "rejected": [x for x in tried if x not in acc]})
    dest = st["dest"]

    def classes(grp: list[Any], view: Any) -> list[list[str]]:
        cl: list[tuple[Any, list[str]]] = []
        for r in grp:
            vw = view(r)
            for v0, names in cl:
                out["pairs"] += 1
                if v0 == vw:
                    names.append("%s:%s" % (r[0], r[1]))
                    break
            else:
                cl.append((vw, ["%s:%s" % (r[0], r[1])]))
        out.setdefault("_views", []).append(cl)
        return [sorted(names) for _, names in cl]
    ign = SNAP_INPUT_ONLY if not tic else (SNAP_INPUT_ONLY - {"files", "modules", "packages"})
    gl = [r for r in ok if r[0] in GLOBAL_SOURCES]
    ml = [r for r in ok if r[0] in MODULE_SOURCES]
    for scope, grp, view in (("global", gl, lambda r: (snap(r[2], ign), r[4])),
                             ("module", ml, lambda r: snap(r[3], ign | {"ignore_missing_imports_per_module"}))):
        cl = classes(grp, view)
        if len(cl) > 1:
            views = out["_views"][-1]
            a, b = views[0][0], views[1][0]
            da = a[0] if isinstance(a, tuple) else a
            db = b[0] if isinstance(b, tuple) else b
            d = {k: [repr(da.get(k)), repr(db.get(k))] for k in set(da) | set(db) if da.get(k) != db.get(k)}
            if isinstance(a, tuple) and a[1] != b[1]:
                d["<targets>"] = [repr(a[1]), repr(b[1])]
            out["diff"].append({"scope": scope, "classes": sorted(cl), "attrs": d})
    # across scopes: the module's own view of the option must be the same
    if gl and ml and hasattr(gl[0][3], dest):
        out["pairs"] += 1
        vx, vy = getattr(gl[0][3], dest), getattr(ml[0][3], dest)
        if vx != vy:
            out["diff"].append({"scope": "cross", "classes": [["%s:%s" % gl[0][:2]], ["%s:%s" % ml[0][:2]]],
                                "attrs": {dest: [repr(vx), repr(vy)]}})
    out.pop("_views", None)
    return out


def _wleak(task: tuple[dict[str, Any], int]) -> dict[str, Any]:
    """Locality of per-module sections (config_file.rst: they "specify additional flags that only apply to
    modules whose name matches"): writing `key = value` into [mypy-pkg.mod] must change nothing for the global
    Options and for a module the pattern does not match, compared with the same file without that line
    (real vs real), whether or not the key is accepted there."""
    st, seed = task
    wdir = _W["dir"]
    out: dict[str, Any] = {"id": st["id"], "runs": 0, "leaks": []}
    for key, val in st["cfg"]:
        for fmt in ("ini", "toml"):
            rnd = random.Random(seed)
            tail = ["--no-site-packages", "-c", "pass"]
            snaps = []
            for kv in ([], [(key, val)]):
                plan = RawPlan(fmt, render_config(fmt, [], [(["pkg.mod"], kv)], rnd), tail)
                o, c, _ = real_options(plan, wdir)
                out["runs"] += 1
                if o is None:
                    snaps.append(None)
                    continue
                other, _ = final_options(o, "other.mod", "")
                snaps.append((snap(o, SNAP_INPUT_ONLY), snap(other, SNAP_INPUT_ONLY)))
            if snaps[0] is None or snaps[1] is None:
                continue
            for scope, a, b in (("global", snaps[0][0], snaps[1][0]), ("other-module", snaps[0][1], snaps[1][1])):
                if a != b:
                    d = sorted(k for k in set(a) | set(b) if a.get(k) != b.get(k))
                    out["leaks"].append({"key": key, "fmt": fmt, "scope": scope, "attrs": d})
    return out


def global_error_code_rule(wdir: str) -> list[str]:
    """config_file.rst, confval enable_error_code: "This option will override disabled error codes from the
    disable_error_code option" -- on the global level enabling wins whichever of command line / [mypy] says so."""
    bad = []
    om = {"kind": "errcode", "dest": "error_code"}
    for cmd, cfg in ((["--enable-error-code", ERRCODE], [("disable_error_code", [ERRCODE])]),
                     (["--disable-error-code", ERRCODE], [("enable_error_code", [ERRCODE])])):
        for fmt in ("ini", "toml"):
            plan = RawPlan(fmt, render_config(fmt, cfg, [], random.Random(0)), cmd + ["-c", "pass"])
            o, c, _ = real_options(plan, wdir)
            if o is None or c or obs(o, om) != "enabled" or obs(final_options(o, "pkg.mod", "")[0], om) != "enabled":
                bad.append("%s + %s (%s): %s" % (cmd, cfg, fmt, c or (o is not None and obs(o, om))))
    return bad


EQUIV_WITNESS = ("--disallow-untyped-defs", "--no-strict-optional", "--disallow-any-explicit", "--check-untyped-defs",
                 "--no-warn-no-return", "--allow-untyped-defs", "--strict-optional")


def _wequiv_diag(task: tuple[dict[str, Any], int]) -> dict[str, Any]:
    """Diagnostics of the witness tree with one setting supplied through each global source and, for the
    module a.b.c alone, through each module-scope source."""
    st, seed = task
    tree = os.path.join(_W["dir"], "etree")
    out: dict[str, Any] = {"id": st["id"], "runs": 0, "diff": []}
    rnd = random.Random(seed)
    write_tree(tree, {})
    results = []
    for key, val in st["cfg"]:
        for src in ("cmd", "ini", "setupcfg", "toml"):
            if src == "cmd":
                _, d, _ = inproc_build(tree, st["cmd"], "[mypy]\n", "ini")
            else:
                _, d, _ = inproc_build(tree, [], render_config(src, [(key, val)], [], rnd), src)
            results.append((src + ":" + key, d)); out["runs"] += 1
    if not any(results[0][1].values()):
        out["machinery"] = "witness tree reports nothing"
    for (sa, da), (sb, db) in itertools.combinations(results, 2):
        if da != db:
            out["diff"].append({"a": sa, "b": sb, "scope": "global-diagnostics"})
    mres = []
    key, val = st["cfg"][0]
    for src in ("ini-section", "toml-section", "inline"):
        fmt = "toml" if src.startswith("toml") else "ini"
        if src == "inline":
            write_tree(tree, {"a.b.c": inline_comment(key, val, rnd)})
            _, d, _ = inproc_build(tree, [], "[mypy]\n", "ini")
            write_tree(tree, {})
        else:
            _, d, _ = inproc_build(tree, [], render_config(fmt, [], [(["a.b.c"], [(key, val)])], rnd), fmt)
        mres.append((src, d)); out["runs"] += 1
    for (sa, da), (sb, db) in itertools.combinations(mres, 2):
        if da != db:
            out["diff"].append({"a": sa, "b": sb, "scope": "module-diagnostics"})
    # the module-scope setting changes a.b.c exactly as the global one does
    if mres[0][1]["a.b.c"] != results[0][1]["a.b.c"]:
        out["diff"].append({"a": "cmd", "b": mres[0][0], "scope": "cross-diagnostics"})
    return out


# settings whose effect on diagnostics is observed through the real command line, one source at a time:
# (config key, value, flag, context flags given to every run, {file: text})
CLI_WITNESS = [
    ("deprecated_calls_exclude", ["lib"], "--deprecated-calls-exclude", ["--enable-error-code", "deprecated"],
     {"lib.py": "from typing_extensions import deprecated\n@deprecated('use g')\ndef f() -> None: ...\n",
      "main.py": "from lib import f\nf()\n"}),
    ("untyped_calls_exclude", ["lib"], "--untyped-calls-exclude", ["--disallow-untyped-calls"],
     {"lib.py": "def g(x):\n    return x\n", "main.py": "from lib import g\ndef h() -> None:\n    g(1)\n"}),
    ("always_true", ["FOO", "BAR"], "--always-true", [],
     {"main.py": "FOO = False\nBAR = False\nif not FOO:\n    1 + ''\nif not BAR:\n    2 + ''\n"}),
    ("always_false", ["FOO", "BAR"], "--always-false", [],
     {"main.py": "FOO = True\nBAR = True\nif FOO:\n    1 + ''\nif BAR:\n    2 + ''\n"}),
    ("disable_error_code", ["operator", "attr-defined"], "--disable-error-code", [],
     {"main.py": "1 + ''\n(1).nope\n"}),
    ("enable_error_code", ["truthy-bool", "redundant-expr"], "--enable-error-code", [],
     {"main.py": "class C: pass\ndef f(c: C, i: int) -> None:\n    if c: pass\n    if i == 1 and i == 1: pass\n"}),
]


def _cli_witness(task: tuple[int, str]) -> dict[str, Any]:
    wi, root = task
    key, val, flag, ctx, files = CLI_WITNESS[wi]
    rnd = random.Random(wi)
    runs: list[tuple[str, str]] = []
    out: dict[str, Any] = {"id": key, "runs": 0, "classes": []}

    def one(name: str, fmt: str | None, text: str | None, argv: list[str]) -> str:
        d = os.path.join(root, "cw%d-%s" % (wi, name))
        os.makedirs(d, exist_ok=True)
        for fn, src in files.items():
            with open(os.path.join(d, fn), "w") as f:
                f.write(src)
        cf = ["--config-file="]
        if fmt is not None:
            with open(os.path.join(d, FILE_NAMES[fmt]), "w") as f:
                f.write(text or "")
            cf = ["--config-file", FILE_NAMES[fmt]]
        p = subprocess.run([PY, "-m", "mypy", "--no-error-summary", "--no-incremental", "--cache-dir", os.devnull] + cf + ctx + argv
                           + ["main.py"], cwd=d, env=repo_env(), capture_output=True, text=True, timeout=900)
        out["runs"] += 1
        if p.returncode not in (0, 1) or p.stderr.strip():
            return "FAILED rc=%s %s" % (p.returncode, p.stderr.strip()[-300:])
        return p.stdout
    none = one("none", None, None, [])
    runs.append(("cmd", one("cmd", None, None, [x for v1 in val for x in (flag, v1)])))
    for fmt in ("ini", "setupcfg", "toml"):
        runs.append((fmt, one(fmt, fmt, render_config(fmt, [(key, val)], [], rnd), [])))
    runs.append(("toml-str", one("tomlstr", "toml", render_config("toml", [(key, val)], [], rnd, True), [])))
    if all(r[1] == none for r in runs) or none.startswith("FAILED"):
        out["machinery"] = "witness for %s is vacuous: %r" % (key, none[:300])
        return out
    cl: list[tuple[str, list[str]]] = []
    for name, txt in runs:
        for t0, names in cl:
            if t0 == txt:
                names.append(name)
                break
        else:
            cl.append((txt, [name]))
    out["classes"] = [sorted(n) for _, n in cl]
    out["outputs"] = {",".join(sorted(n)): t for t, n in cl}
    out["without_setting"] = none
    return out


# =========================================================================== TLC phase
def run_tlc(tier: str, seed: int) -> dict[str, Any]:
    thorough = tier == "thorough"
    jobs: dict[str, Any] = {}
    with ThreadPoolExecutor(20) as ex:
        def go(name: str, cfg: str, **kw: Any) -> None:
            kw.setdefault("heap", "2g")
            jobs[name] = ex.submit(tlc, "MC_Config", cfg, **kw)
        # emission runs first (the replay waits for them), partitioned by the first section's pattern
        for k in range(1, 7):
            go("gen:%d" % k, "Gen_Config_%d_%d.cfg" % (4 if thorough else 3, k), coverage=False,
               workers=2 if thorough else 1, timeout=1700, heap="1g")
        go("gen3v", "Gen_Config_3v.cfg", coverage=False, workers=2, timeout=900, heap="1g")
        if thorough:
            go("genB", "Gen_Config_B.cfg", coverage=False, workers=2, timeout=1500, heap="1g")
        else:
            go("sim4", "Gen_Config_4.cfg", coverage=False, workers=1, timeout=600, simulate="num=1500", depth=12,
               seed=seed + 1, heap="1g")
        go("mc", "MC_Config_4.cfg" if thorough else "MC_Config.cfg", timeout=1700, workers=8 if thorough else 6,
           heap="3g")
        go("mc3v", "MC_Config_3v.cfg", timeout=900, workers=2)
        go("doc", "MC_Config_Doc.cfg", coverage=False, workers=1, heap="1g")
        for m in ("NoSort", "ConcreteFirst", "FirstGlobWins", "UmbrellaBeforeConfig"):
            go("mut:" + m, "Mut_Config_%s.cfg" % m, coverage=False, workers=1, heap="1g")
        go("mcU", "MC_Config_U.cfg", timeout=900, workers=2)
        go("genU", "Gen_Config_U2.cfg" if thorough else "Gen_Config_U1.cfg", coverage=False, workers=2, timeout=900, heap="1g")
        if thorough:
            go("mcB", "MC_Config_B.cfg", timeout=1500, workers=4)
        return {k: f.result() for k, f in jobs.items()}


def do_replay(path: str) -> int:
    """bin/vcheck C17 --replay <file>: run the recorded minimal case again against the real code."""
    with open(path) as f:
        data = json.load(f)
    rep, key = data["replay"], data["key"]
    wdir = scratch("c17r-")
    _W["dir"] = wdir
    if key.startswith("equiv"):
        sid = key.split(":")[1] if not key.startswith("equiv:cfg") else ":".join(key.split(":")[1:3])
        st = [s for s in equivalence_settings() if s["id"] == sid]
        if not st:
            print("setting %s no longer exists" % sid)
            return 2
        out = _wequiv((st[0], 0))
        print(json.dumps({"diff": out["diff"], "accept_diff": out["accept_diff"]}, indent=1))
        bad = bool(out["diff"] or out["accept_diff"])
    elif "config" in rep and rep.get("module") and "doc" in rep:
        dest = rep.get("option_in_minimal_configuration") or rep["option"]
        plan = RawPlan("ini", rep["config"], [a for a in rep["argv"] if a not in ("--config-file", "mypy.ini")])
        options, complaint, _ = real_options(plan, wdir)
        if options is None:
            print("rejected:", complaint)
            return 1
        fin, errs = final_options(options, rep["module"], rep.get("inline") or "")
        got = getattr(fin, dest)
        print("config:\n%sargv: %s\nmodule %s: %s = %r; documented value %r" % (rep["config"], plan.tail, rep["module"], dest, got, rep["doc"]))
        bad = got != rep["doc"]
    else:
        print("nothing replayable in", path)
        return 2
    if bad:
        print("VIOLATION property=%s replay=%s" % (PID, path))
    return 1 if bad else 0


# =========================================================================== main
def main(argv: list[str]) -> int:
    tier, seed, replay = parse_args(argv)
    if replay:
        return do_replay(replay)
    v = Verdict(PID, tier, seed)
    thorough = tier == "thorough"
    for name in ("MYPY_CACHE_DIR", "MYPY_NUM_WORKERS", "MYPYPATH", "MYPY_FORCE_COLOR"):
        os.environ.pop(name, None)      # documented environment overrides are not part of the property
    root = scratch("c17-")
    sany(os.path.join(SPEC, "MC_Config.tla"))
    t0 = time.time()
    R = run_tlc(tier, seed)
    t_tlc = time.time() - t0
    cov: dict[str, Any] = {}
    states = transitions = 0

    # ---- 1. model checking results
    for name in ("mc", "mc3v", "mcB", "mcU"):
        if name not in R:
            continue
        r = R[name]
        if r.error:
            raise MachineryError("TLC %s: %s" % (name, r.error))
        if r.violated:
            v.violation("model:Config:%s:%s" % (name, r.violated), {"trace": r.trace_text},
                        "the implementation as transcribed deviates from the documented rule: invariant %s" % r.violated)
        states += r.distinct; transitions += r.generated
        cov[name] = dict(coverage_summary(r), states=r.distinct, transitions=r.generated, wall_s=round(r.wall, 1))
        if r.never_fired() and not r.violated:
            raise MachineryError("actions never fired in %s: %s" % (name, r.never_fired()))
    rd = R["doc"]
    if rd.error:
        raise MachineryError("TLC doc-literal config: " + rd.error)
    cov["documentation_read_literally"] = {
        "violated": rd.violated, "states": rd.distinct,
        "counterexample_last_state": rd.trace_text.strip().split("State ")[-1][:600] if rd.violated else None,
        "note": "MC_Config_Doc.cfg, LeadingStarZero=TRUE: 'stars match zero or more module components' applied to a "
                "leading star too. The exhaustive configs use the reading under which a leading star needs one "
                "component (what compile_glob does); the replay oracle is the literal reading."}
    mut = {}
    for m, inv in (("NoSort", "ParentsFirst"), ("ConcreteFirst", "PrecedenceAsDocumented"), ("FirstGlobWins", "PrecedenceAsDocumented"),
                   ("UmbrellaBeforeConfig", "PrecedenceAsDocumented")):
        rm = R["mut:" + m]
        mut[m] = rm.violated
        if rm.violated != inv:
            raise MachineryError("specification mutant %s not rejected as expected: %s %s" % (m, rm.violated, rm.error))
    cov["spec_mutants_rejected"] = mut

    # ---- 2. configurations emitted by TLC
    def records(name: str) -> list[dict[str, Any]]:
        r = R[name]
        if r.error or r.violated:
            raise MachineryError("Gen %s: %s %s" % (name, r.violated, r.error))
        mods = r.json_lines("MODS")
        if not mods or mods[0] != MODS:
            raise MachineryError("module order of the specification differs from the driver's")
        res = r.json_lines("CFG")
        r.out = ""; r.printed = []
        return res

    index: dict[str, dict[str, Any]] = {}
    recs: list[dict[str, Any]] = []
    for k in range(1, 7):
        for r in records("gen:%d" % k):
            key = rkey(r)
            if key not in index:
                index[key] = r
                recs.append(r)
    want_n = 294201 if thorough else 31761
    if len(recs) != want_n:
        raise MachineryError("expected %d configurations, TLC emitted %d" % (want_n, len(recs)))
    n_exh = len(recs)
    if not thorough:
        n4 = 0
        for r in records("sim4"):
            key = rkey(r)
            if key not in index and len(r["s"]) == 4:
                index[key] = r
                recs.append(r)
                n4 += 1
        if n4 < 50:
            raise MachineryError("simulation produced too few 4-section configurations: %d" % n4)
    else:
        n4 = sum(1 for r in recs if len(r["s"]) == 4)
    recsU = [r for r in records("genU") if r["gu"] or r["cu"]]     # configurations with an umbrella flag
    for r in recsU:
        index[rkey(r)] = r
    if len(recsU) != (7803 if thorough else 513):
        raise MachineryError("unexpected number of umbrella configurations: %d" % len(recsU))
    recs3v = records("gen3v")
    index3v = {rkey(r): r for r in recs3v}
    recsB = records("genB") if thorough else []
    indexB = {rkey(r): r for r in recsB}

    # ---- 3. refinement maps
    maps = build_optmaps()
    pm_bool = [m for m in maps.values() if m["per_module"] and m["kind"] == "bool"]
    pm_bool_cmd = [m for m in pm_bool if m["has_cmd"]]
    enum = maps["follow_imports"]
    if len(pm_bool) < 25:
        raise MachineryError("option tables look wrong: %d per-module booleans" % len(pm_bool))
    inline2, inline3 = [UNSET, "p", "q"], [UNSET, "p", "q", "r"]
    nfmt = len(FORMATS)

    def usable(om: dict[str, Any], rec: dict[str, Any]) -> bool:
        return rec["c"] == UNSET or bool(om["cmd"].get(rec["c"]))

    def fit(om: dict[str, Any], rec: dict[str, Any]) -> dict[str, Any]:
        return om if usable(om, rec) else enum

    def pick_map(idx: int, rec: dict[str, Any]) -> dict[str, Any]:
        pool = pm_bool_cmd if rec["c"] != UNSET else pm_bool
        k = (idx * 7 + seed * 13) % (len(pool) + 4)
        if k == len(pool) + 3 and not (rec["g"] != UNSET and rec["c"] != UNSET and rec["g"] != rec["c"]):
            return maps["error_code"]
        return enum if k >= len(pool) else fit(pool[k], rec)

    items2: list[Any] = []
    items3: list[Any] = []
    g_items: list[Any] = []
    idx = 0
    for rec in recs + recsB:
        items2.append((idx, rec, pick_map(idx, rec), FORMATS[(idx + seed) % nfmt], seed * 1000003 + idx))
        if idx % (2 if thorough else 6) == 0:      # a second pass: next option, another file format
            items2.append((idx, rec, pick_map(idx + 1, rec), FORMATS[(idx + seed + 1 + idx // nfmt) % nfmt],
                           seed * 1000003 + idx + 500009))
        idx += 1
    for rec in recs3v:
        items3.append((idx, rec, enum, FORMATS[(idx + seed) % nfmt], seed * 1000003 + idx))
        idx += 1
    # per-option sweep: every option x every configuration of <=1 section (all pairs of sources)
    small = [r for r in recs if len(r["s"]) <= 1]
    for oi, om in enumerate(sorted(maps.values(), key=lambda m: m["dest"])):
        for si, rec in enumerate(small):
            if rec["c"] != UNSET and not om["cmd"].get(rec["c"]):
                continue
            if not om["per_module"] and rec["s"]:
                continue
            if om.get("skip_global_conflict") and rec["g"] != UNSET and rec["c"] != UNSET and rec["g"] != rec["c"]:
                continue
            it = (idx, rec, om, FORMATS[(oi + si + seed) % nfmt], seed * 7 + oi * 1000 + si)
            idx += 1
            (items2 if om["per_module"] else g_items).append(it)

    # umbrella flags: every member option of --strict / strict=True x every configuration that writes the
    # umbrella on the command line and/or in [mypy] (with <=1 section on top; thorough: <=2)
    members = [m for m in sorted(maps.values(), key=lambda m: m["dest"]) if "umbrella" in m]
    if len(members) < 10:
        raise MachineryError("strict group looks wrong: %d members with an option map" % len(members))
    n_umb = 0
    for ui, rec in enumerate(recsU):
        for oi, om in enumerate(members):
            if (not om["per_module"] and rec["s"]) or not usable(om, rec):
                continue
            if thorough and len(rec["s"]) == 2 and (ui + oi) % 4:
                continue
            it = (idx, rec, om, FORMATS[(ui + oi + seed) % nfmt], seed * 11 + ui * 100 + oi)
            idx += 1
            n_umb += 1
            (items2 if om["per_module"] else g_items).append(it)

    def chunks(items: list[Any], inl: list[str], n: int = 200) -> list[Any]:
        return [(items[i:i + n], inl) for i in range(0, len(items), n)]
    # global-only options have no section / inline source: inline choices restricted to Unset
    work = chunks(items2, inline2) + chunks(items3, inline3) + chunks(g_items, [UNSET])
    random.Random(seed).shuffle(work)
    rec_of = {(it[0], it[2]["dest"], it[3], it[4]): it for it in items2 + items3 + g_items}

    # ---- 4. replay into the real code
    ctx = multiprocessing.get_context("fork")
    nproc = min(16, os.cpu_count() or 4)
    t1 = time.time()
    replayed = evals = n_split = n_later = 0
    bad: list[Any] = []
    with ctx.Pool(nproc, initializer=_winit, initargs=(root,)) as pool:
        for out in pool.imap_unordered(_wreplay, work):
            for ridx, dest, fmt, salt, r in out:
                replayed += 1
                evals += r["evals"]
                n_split += r.get("split", 0)
                n_later += 1 if r.get("later", 0) else 0
                if dest is not None:
                    bad.append((ridx, dest, fmt, salt, r))
        t_replay = time.time() - t1

        # ---- 5. real builds: every <=1-section configuration + a seeded sample of the rest
        t2 = time.time()
        witness_maps = [maps[d] for d in WITNESS_OPTS]
        rnd = random.Random(seed)
        btasks = []
        for i, rec in enumerate(small):
            om = fit(witness_maps[i % len(witness_maps)], rec)
            btasks.append((i, rec, om, FORMATS[i % nfmt], seed * 31 + i, inline2))
        for i in range(1600 if thorough else 160):
            rec = rnd.choice(recs)
            om = fit(rnd.choice(witness_maps + [enum]), rec)
            btasks.append((1000 + i, rec, om, rnd.choice(FORMATS), seed * 31 + 1000 + i, inline2))
        # umbrella configurations through real builds (members of the strict group that have a witness)
        umb_w = [maps[d] for d in ("disallow_untyped_defs", "check_untyped_defs") if "umbrella" in maps[d]]
        for i, rec in enumerate(recsU[(seed % 8)::(40 if thorough else 8)]):
            om = umb_w[i % len(umb_w)]
            if usable(om, rec):
                btasks.append((5000 + i, rec, om, FORMATS[i % nfmt], seed * 31 + 5000 + i, inline2))
        builds = build_evals = 0
        bbad: list[Any] = []
        for out in pool.imap_unordered(_wbuild, btasks, chunksize=4):
            if "machinery" in out:
                raise MachineryError(out["machinery"])
            builds += 1
            build_evals += out["evals"]
            if out["viol"] or out["drift"]:
                bbad.append(out)
        t_build = time.time() - t2

        # ---- 6. source equivalence over the option table
        t3 = time.time()
        settings = equivalence_settings()
        eq = list(pool.imap_unordered(_wequiv, [(s, seed) for s in settings], chunksize=2))
        leak = list(pool.imap_unordered(_wleak, [(s, seed) for s in settings], chunksize=4))
        wit = [s for s in settings if s["id"] in EQUIV_WITNESS]
        eqd = list(pool.imap_unordered(_wequiv_diag, [(s, seed) for s in wit]))
        for e in eqd:
            if "machinery" in e:
                raise MachineryError(e["machinery"])
        t_equiv = time.time() - t3

    # ---- 7. the real command line (subprocess, real typeshed)
    t4 = time.time()
    ncli = 48 if thorough else 8
    rnd = random.Random(seed + 99)
    cli_maps = [maps["disallow_untyped_defs"], maps["strict_optional"], maps["ignore_errors"]]
    with ThreadPoolExecutor(nproc + 2) as ex:
        cw_f = [ex.submit(_cli_witness, (i, root)) for i in range(len(CLI_WITNESS))]   # run alongside the sample
        cbase = {(d, val, u): diag for d, val, u, diag in
                 ex.map(_cli_baseline, [(root, m["dest"], val, "") for m in cli_maps for val in (True, False)]
                        + [(root, cli_maps[0]["dest"], val, cli_maps[0]["umbrella"]["cmd"]) for val in (True, False)
                           if "umbrella" in cli_maps[0]])}
        if not any(any(x.values()) for x in cbase.values()):
            raise MachineryError("command-line baselines report nothing (vacuous witness)")
        ctasks = []
        for i in range(ncli):
            rec = small[(i * 37 + seed) % len(small)] if i % 2 == 0 else rnd.choice(recs)
            om = cli_maps[i % len(cli_maps)]
            if not usable(om, rec):
                om = cli_maps[0]
            if not usable(om, rec):
                rec = small[0]
            ctasks.append((i, rec, om, FORMATS[i % nfmt], seed * 17 + i, inline2, root, cbase))
        # the command line's own umbrella: --strict against an explicit [mypy] line, and strict=True against a flag
        for j, want in enumerate(((True, "q", UNSET, False), (False, UNSET, "q", True))):
            rec = next((r for r in recsU if (r["cu"], r["g"], r["c"], r["gu"]) == want and len(r["s"]) == 1
                        and r["s"][0][0] == ("a.*", "*.b")[(j + seed) % 2] and r["s"][0][1] == "q"), None)
            if rec is not None and "umbrella" in cli_maps[0]:
                ctasks.append((ncli + j, rec, cli_maps[0], FORMATS[(j + seed) % nfmt], seed * 17 + ncli + j, inline2, root, cbase))
        cli_runs = cli_evals = 0
        cbad: list[Any] = []
        for out in ex.map(_wcli, ctasks):
            cli_runs += 1
            cli_evals += out["evals"]
            if out["viol"]:
                cbad.append(out)
        cw = [f.result() for f in cw_f]
        for e in cw:
            if "machinery" in e:
                raise MachineryError(e["machinery"])
    t_cli = time.time() - t4

    if replayed == 0 or builds == 0 or cli_runs == 0 or not eq or evals == 0:
        raise MachineryError("conformance step did not run")

    # ---- 8. verdicts
    _winit(root)
    minis = {3: Minimiser(index, _W["dir"], enum), 4: Minimiser(index3v, _W["dir"], enum)}
    miniB = Minimiser(indexB, _W["dir"], enum)
    drift: list[str] = []
    complaints: list[str] = []
    reported: dict[str, int] = {}
    n_disagree = 0
    memo: dict[Any, Any] = {}
    budget, skipped = [30], [0]     # real-code minimisations are capped; the rest is counted

    def judge(rec: dict[str, Any], om: dict[str, Any], fmt: str, salt: int, vi: dict[str, Any], via: str) -> None:
        nonlocal n_disagree
        n_disagree += 1
        plan = Plan(rec, om, fmt, salt)
        dest = om["dest"]
        if vi.get("m") is None or "why" in vi:
            key = "rejected:%s:%s:%s" % (dest, fmt, rcanon(rec, vi.get("i") or UNSET, vi.get("m")))
            v.violation(key, {"config": plan.text, "argv": plan.argv(FILE_NAMES[fmt]), "inline": plan.inline},
                        "configuration not accepted (%s): %s" % (via, vi.get("why")))
            return
        design = "imp" in vi and vi.get("got") == vi.get("imp")
        mk = (rkey(rec), vi["i"], vi["m"], "*" if design else dest)
        if mk not in memo:
            mini = miniB if rkey(rec) in indexB else minis[len(rec["doc"])]
            if design or budget[0] > 0:
                if not design:
                    budget[0] -= 1
                memo[mk] = mini.minimise(rec, vi["i"], vi["m"], om, design)
            else:
                skipped[0] += 1
                return
        key, detail = memo[mk]
        if not key:
            kind = "design" if design else "code:" + dest
            key = "%s:%s:%s:%s" % (kind, via, fmt, rcanon(rec, vi["i"], vi["m"]))
            detail = {"got": vi.get("got"), "doc": vi.get("doc"), "imp": vi.get("imp"), "config": plan.text,
                      "argv": plan.argv(FILE_NAMES[fmt]), "inline": plan.inline[vi["i"]]}
        reported[key] = reported.get(key, 0) + 1
        v.violation(key, dict(detail, module=vi["m"], option=dest, seen_via=via, original={"config": plan.text, "fmt": fmt}),
                    "module %s: option %s is %r, the documented precedence gives %r (model of the code: %r); minimal configuration:\n%s%s"
                    % (vi["m"], detail.get("option_in_minimal_configuration", dest), detail.get("got"), detail.get("doc"),
                       detail.get("imp"), detail.get("config", ""),
                       (("command line: %s\n" % detail.get("argv")) if detail.get("argv") else "")
                       + (("first line of the module: %s\n" % detail.get("inline")) if detail.get("inline") else "")))

    for ridx, dest, fmt, salt, r in sorted(bad, key=lambda b: (b[0], b[1], b[2], b[3])):
        drift += ["cfg %d (%s,%s): %s" % (ridx, dest, fmt, d) for d in r["drift"][:3]]
        it = rec_of[(ridx, dest, fmt, salt)]
        rec, om = it[1], it[2]
        if r["complaint"]:
            complaints.append("cfg %d (%s,%s): %s" % (ridx, dest, fmt, r["complaint"][:300]))
            msg = re.sub(r"^.*?: \[", "[", r["complaint"].splitlines()[0])
            plan = Plan(rec, om, fmt, salt)
            v.violation("complaint:%s:%s" % (dest, msg[:120]),
                        {"config": plan.text, "argv": plan.argv(FILE_NAMES[fmt])},
                        "a documented spelling was not accepted silently: " + r["complaint"][:300])
        for vi in r["viol"]:
            judge(rec, om, fmt, salt, vi, "options")
    for outs, tasks, via in ((bbad, btasks, "build"), (cbad, ctasks, "cli")):
        for out in sorted(outs, key=lambda o: o["idx"]):
            drift += out.get("drift", [])[:3]
            t = next(t for t in tasks if t[0] == out["idx"])
            for vi in out["viol"]:
                judge(t[1], t[2], t[3], t[4], vi, via + ":" + str(vi.get("via", "")))
    eq_runs = sum(e["runs"] for e in eq) + sum(e["runs"] for e in eqd)
    eq_pairs = sum(e["pairs"] for e in eq)
    not_accepted = {e["id"]: sorted({x[1] for x in e["rejected"]}) for e in eq if e["rejected"]}
    for e in sorted(eq, key=lambda e: e["id"]):
        for d in e["diff"]:
            cls = " | ".join(",".join(c) for c in d["classes"])
            v.violation("equiv:%s:%s:%s:%s" % (e["id"], d["scope"], ",".join(sorted(d["attrs"])), cls), d,
                        "setting %s gives different Options depending on the source (%s scope); classes of sources that agree: %s; differing: %s"
                        % (e["id"], d["scope"], cls, d["attrs"]))
        for d in e["accept_diff"]:
            v.violation("equiv-accept:%s:%s:%s" % (e["id"], d["key"], ",".join(d["rejected"])), d,
                        "setting %s spelled %s is accepted by %s but rejected by %s" % (e["id"], d["key"], d["accepted"], d["rejected"]))
    leak_keys: dict[str, Any] = {}
    for e in leak:
        for d in e["leaks"]:
            leak_keys.setdefault("section-leak:%s" % d["key"], []).append(d)
    for key in sorted(leak_keys):
        d = leak_keys[key][0]
        v.violation(key, leak_keys[key], "`%s = ...` written in the per-module section [mypy-pkg.mod] changes the %s options "
                    "(attributes %s) although the section does not match them"
                    % (d["key"], " and ".join(sorted({x["scope"] for x in leak_keys[key]})), d["attrs"]))
    for msg in global_error_code_rule(_W["dir"]):
        v.violation("errcode-global:" + msg[:100], msg, "global enable_error_code does not override disable_error_code: " + msg)
    for e in sorted(eqd, key=lambda e: e["id"]):
        for d in e["diff"]:
            v.violation("equiv-diag:%s:%s~%s:%s" % (e["id"], d["a"], d["b"], d["scope"]), d,
                        "setting %s: diagnostics differ between sources %s and %s" % (e["id"], d["a"], d["b"]))
    for e in cw:
        if len(e["classes"]) > 1:
            cls = " | ".join(",".join(c) for c in sorted(e["classes"]))
            v.violation("equiv-cli:%s:%s" % (e["id"], cls), e,
                        "setting %s: `python -m mypy` reports different diagnostics depending on the source; classes of sources that agree: %s\n%s"
                        % (e["id"], cls, json.dumps(e["outputs"], indent=1)))
    if drift:
        print("MODEL DRIFT (%d): %s" % (len(drift), drift[:5]), file=sys.stderr)

    # ---- 9. evidence
    nontrivial = 0
    for rec in recs + recs3v + recsB + recsU:
        vals = [x[1] for x in rec["s"] if x[1] != UNSET] + [x for x in (rec["g"], rec["c"]) if x != UNSET]
        vals += ["p"] if (rec.get("gu") or rec.get("cu")) else []
        if len(set(vals)) >= 2:
            nontrivial += 1
    sample_rec = recs[len(recs) // 2]
    sample_plan = Plan(sample_rec, maps["disallow_untyped_defs"], "ini", 1)
    usample = next(r for r in recsU if r["cu"] and r["g"] == "q" and r["s"])
    uplan = Plan(usample, maps["disallow_untyped_defs"], "ini", 1)
    coverage = {
        "states": states, "transitions": transitions,
        "traces_validated_against_impl": replayed + builds + cli_runs,
        "configurations_emitted": len(recs) + len(recs3v) + len(recsB) + len(recsU),
        "configurations_exhaustive": n_exh, "configurations_with_4_sections": n4,
        "configurations_3_values": len(recs3v), "configurations_second_alphabet": len(recsB),
        "replays_process_options": replayed, "value_comparisons": evals,
        "configurations_with_umbrella_flag": len(recsU), "replays_umbrella_x_member_option": n_umb,
        "umbrella_members": [m["dest"] for m in members],
        "replays_pyproject_list_valued_tables": n_split, "replays_pyproject_module_named_again_by_later_table": n_later,
        "real_builds": builds, "real_build_module_comparisons": build_evals,
        "command_line_runs": cli_runs, "command_line_module_comparisons": cli_evals,
        "equivalence_settings": len(settings), "equivalence_runs": eq_runs, "equivalence_comparisons": eq_pairs,
        "equivalence_spellings_not_accepted_anywhere": not_accepted,
        "section_locality_runs": sum(e["runs"] for e in leak), "section_locality_leaks": sorted(leak_keys),
        "equivalence_diagnostic_settings": len(eqd), "equivalence_command_line_witnesses": len(cw),
        "equivalence_command_line_runs": sum(e["runs"] for e in cw),
        "options_rotated": sorted(m["dest"] for m in maps.values()),
        "evaluations": evals + build_evals + cli_evals + eq_pairs,
        "distinct_nontrivial": nontrivial,
        "disagreements_seen": n_disagree, "disagreement_keys": reported, "disagreements_not_minimised": skipped[0],
        "model_drift": drift[:20], "model_drift_count": len(drift), "complaints": complaints[:20],
        "rule": "every configuration TLC emits for Config.tla: all ordered selections of <=3 (thorough: <=4; quick: plus a "
                "TLC -simulate sample of 4) sections from {a, a.b, a.*, a.b.*, *.b, a.*.b}, each section / [mypy] / command "
                "line unset or one of 2 values (3 values for <=2 sections, follow_imports), x 39 module names (all without "
                "inline comment, 6 rotating with each inline choice); replayed under a rotating option (every per-module "
                "boolean + follow_imports) and file format; every option additionally on all <=1-section configurations; "
                "thorough: a second pattern alphabet. distinct_nontrivial = emitted configurations in which at least two "
                "sources give different values",
        "samples": [{"model_record": sample_rec, "config_file": sample_plan.text, "argv": sample_plan.argv("mypy.ini"),
                     "inline": sample_plan.inline},
                    {"model_record": usample, "config_file": uplan.text, "argv": uplan.argv("mypy.ini"), "inline": uplan.inline}],
        "tlc": cov,
        "timing_s": {"tlc": round(t_tlc, 1), "replay": round(t_replay, 1), "builds": round(t_build, 1),
                     "equivalence": round(t_equiv, 1), "cli": round(t_cli, 1)},
        "exhaustive": thorough,
    }
    return v.finish("model_checking", coverage, [
        "module and pattern components are single letters (the code's string operations are transcribed on characters)",
        "a bare [mypy-*] section is outside the model (the documentation does not define it)",
        "list-valued options (always_true, enable/disable_error_code ...) accumulate rather than override and are "
        "covered by source equivalence only, not by precedence",
        "options whose value process_options derives from another option are not used as the observed option: "
        + ", ".join(sorted(COUPLED)),
        "A-fixtures: in-process builds use the test fixtures' typeshed; a sample goes through `python -m mypy` with the real one",
    ])


if __name__ == "__main__":
    try:
        sys.exit(main(sys.argv[1:]))
    except MachineryError as e:
        print("MACHINERY FAILURE:", e, file=sys.stderr)
        sys.exit(2)
    except Exception:  # an unexpected failure of the machinery is never a verdict about mypy
        import traceback
        traceback.print_exc()
        print("MACHINERY FAILURE: unexpected failure of the machinery", file=sys.stderr)
        sys.exit(2)
