"""C13 -- error suppression is exact and the exit status tells the truth.

Specification: spec/Errors.tla (mypy/errors.py `Errors` + the gating in build.State + main's exit
status).  TLC checks Exactness / DisableExact / UnusedExact / ExitCode on bounded slices and emits
every bounded behaviour; the driver binds the specification to the real code three ways:

 (a) replay: every emitted behaviour is replayed into a real mypy.errors.Errors object through its
     public calls and the rendered messages / used-ignore sets are compared with the model's;
 (b) trace validation: real mypy builds of programs from test-data/unit/check-*.test are recorded
     (every add_error_info entry, ignored / skipped lines, code sets, end-of-file calls) and TLC
     evaluates the specification on each recorded trace: its rendering must equal what mypy printed;
 (c) metamorphic: `# type: ignore` comments (bare / right code / wrong code, on subsets of the error
     lines) and --disable-error-code / --enable-error-code are applied to each program, mypy is
     re-run and must print exactly what the specification predicts from the *unmodified* run's
     reports under the new configuration (TLC also evaluates Exactness / DisableExact on these real
     traces).  The exit status is bound through the real command line (`python -m mypy`).
"""
from __future__ import annotations

import json
import os
import random
import re
import subprocess
import sys
import time
from concurrent.futures import ThreadPoolExecutor
from contextlib import contextmanager
from multiprocessing import get_context
from typing import Any, Iterator

from harness.common import (MachineryError, PY, REPO, SPEC, VERIF, Verdict, coverage_summary, parse_args,
                            repo_env, sany, scratch, tla_value, tlc)

PID = "C13"
MAX_TRACE = 120   # recorded events per run handed to TLC (longer runs are counted as skipped)
NCPU = min(16, os.cpu_count() or 4)

# =========================================================================== message alphabet
RE_NOTCOV = re.compile(r'^Error code "([^"]+)" not covered by "type: ignore\[([^\]]*)\]" comment$')
RE_CHANGED = re.compile(r'^Error code changed to ([^;]+); "type: ignore" comment may be out of date$')
RE_LINK = re.compile(r"^See https://mypy\.rtfd\.io/en/stable/_refs\.html#code-(\S+) for more info$")
RE_UNUSED = re.compile(r'^Unused "type: ignore(?:\[([^\]]*)\])?" comment((?:, use narrower \[[^\]]*\] instead of \[[^\]]*\] code)*)$')
RE_NARROW = re.compile(r", use narrower \[([^\]]*)\] instead of \[([^\]]*)\] code")
RE_NOCODE = re.compile(r'^"type: ignore" comment without error code(?: \(consider "type: ignore\[([^\]]*)\]" instead\))?$')


def split_codes(s: str | None) -> list[str]:
    return [c.strip() for c in (s or "").split(",") if c.strip()]


def abstract_message(text: str, code: str | None, sev: str, ids: dict[str, int] | None) -> dict[str, Any]:
    """Real message text -> the specification's Msg record (JSON form: sets are sorted lists)."""
    if sev == "note" and code is None:
        m = RE_NOTCOV.match(text)
        if m:
            return {"k": "notcov", "id": 0, "code": m.group(1), "codes": split_codes(m.group(2)), "hints": []}
        m = RE_CHANGED.match(text)
        if m:
            return {"k": "changed", "id": 0, "code": m.group(1), "codes": [], "hints": []}
    if sev == "note":
        m = RE_LINK.match(text)
        if m and m.group(1) == code:
            return {"k": "link", "id": 0, "code": m.group(1), "codes": [], "hints": []}
    if sev == "error" and code == "unused-ignore":
        m = RE_UNUSED.match(text)
        if m:
            hints = [{"c": b, "n": sorted(split_codes(a))} for a, b in RE_NARROW.findall(m.group(2) or "")]
            return {"k": "unused", "id": 0, "code": "", "codes": split_codes(m.group(1)),
                    "hints": sorted(hints, key=lambda h: h["c"])}
    if sev == "error" and code == "ignore-without-code":
        m = RE_NOCODE.match(text)
        if m:
            return {"k": "nocode", "id": 0, "code": "", "codes": [], "hints": [{"c": "", "n": sorted(split_codes(m.group(1)))}]}
    if ids is None:
        m = re.match(r"^m(\d+)$", text)
        if not m:
            raise MachineryError("unexpected message text in replay: %r" % text)
        return {"k": "m", "id": int(m.group(1)), "code": "", "codes": [], "hints": []}
    if text not in ids:
        ids[text] = len(ids) + 1
    return {"k": "m", "id": ids[text], "code": "", "codes": [], "hints": []}


def norm_msg(m: dict[str, Any]) -> Any:
    hints = sorted(((h["c"], tuple(sorted(h["n"]))) for h in m["hints"]))
    return (m["k"], m["id"], m["code"], tuple(m["codes"]), tuple(hints))


def norm_out(items: list[dict[str, Any]]) -> list[Any]:
    return [(o["line"], o["sev"], o["code"], norm_msg(o["msg"])) for o in items]


def as_list(x: Any) -> list[Any]:
    """ToJson renders a function with domain 1..n as an array and others as an object."""
    if isinstance(x, list):
        return x
    return [x[k] for k in sorted(x, key=int)]


# =========================================================================== (a) replay into Errors
class _FakeManager:
    def __init__(self, errors: Any) -> None:
        self.errors = errors


class _FakeState:
    """Just enough of build.State for the real generate_unused_ignore_notes /
    generate_ignore_without_code_notes (the gating under test) to run."""

    def __init__(self, errors: Any, options: Any, xpath: str) -> None:
        self.manager = _FakeManager(errors)
        self.options = options
        self.xpath = xpath
        self.meta = None
        self.tree = None

    @contextmanager
    def wrap_context(self) -> Iterator[None]:
        yield


def code_object(ident: str) -> Any:
    from mypy import errorcodes
    if ident == "call-arg@misc":
        return errorcodes.CALL_ARG_MISC
    return errorcodes.error_codes[ident]


def replay_history(h: dict[str, Any]) -> str | None:
    """Step a real Errors object along one TLC behaviour; None when it agrees with the model."""
    from mypy import errorcodes
    from mypy.build import State
    from mypy.errors import Errors
    from mypy.options import Options

    cfgs = as_list(h["cfg"])
    nfiles = len(cfgs)
    opts = []
    for fc in cfgs:
        o = Options()
        o.many_errors_threshold = -1
        o.hide_error_codes = False
        o.enabled_error_codes = {errorcodes.error_codes[c] for c in fc["enabled"]}
        o.disabled_error_codes = {errorcodes.error_codes[c] for c in fc["disabled"]}
        o.warn_unused_ignores = fc["warnUnused"]
        o.show_error_code_links = fc["links"]
        opts.append(o)
    errors = Errors(opts[0])
    paths = ["f%d.py" % (i + 1) for i in range(nfiles)]
    for i, fc in enumerate(cfgs):
        if fc["hasMap"]:
            ign = {ln + 1: list(v["codes"]) for ln, v in enumerate(as_list(fc["ign"])) if v["on"]}
            errors.set_file_ignored_lines(paths[i], ign, fc["ignoreAll"])
            errors.set_skipped_lines(paths[i], {s[1] for s in fc["skipped"] if s[0] == i + 1})
        elif fc["ignoreAll"]:
            raise MachineryError("model configuration without ignore map but ignoreAll")
    infos: dict[int, Any] = {}
    for idx, e in enumerate(h["ev"], start=1):
        f = e["f"] - 1
        errors.set_file(paths[f], "m%d" % f, opts[f])
        if e["t"] == "report":
            r = e["r"]
            parent = infos[r["par"]] if r["par"] else None
            code = None if (r["code"] == "none" or parent is not None) else code_object(r["code"])
            infos[idx] = errors.report(
                r["line"], r["col"] - 1, "m%d" % r["msg"]["id"], code, blocker=r["blocker"], severity=r["sev"],
                only_once=r["once"], origin_span=list(r["span"]), end_line=r["el"], end_column=r["ec"] - 1,
                parent_error=parent)
        elif cfgs[f]["hasMap"]:
            st = _FakeState(errors, opts[f], paths[f])
            State.generate_unused_ignore_notes(st)  # type: ignore[arg-type]
            State.generate_ignore_without_code_notes(st)  # type: ignore[arg-type]
    model_out = as_list(h["out"])
    for i in range(nfiles):
        real = [{"line": t[1], "sev": t[5], "code": t[7] or "none",
                 "msg": abstract_message(t[6], t[7], t[5], None)} for t in errors.file_messages(paths[i])]
        if norm_out(real) != norm_out(model_out[i]):
            return "file %d: real Errors renders %r, model %r" % (i + 1, norm_out(real), norm_out(model_out[i]))
    real_used = sorted([i + 1, ln, c] for i in range(nfiles) for ln, cs in errors.used_ignored_lines[paths[i]].items() for c in set(cs))
    if real_used != sorted(h["used"]):
        return "used_ignored_lines: real %r, model %r" % (real_used, sorted(h["used"]))
    model_blocked = h["exit"] == 2
    if errors.is_blockers() != model_blocked:
        return "is_blockers(): real %r, model exit %r" % (errors.is_blockers(), h["exit"])
    # the exit rule of main.main on the rendered text (count_stats is main's own helper)
    from mypy.util import count_stats
    msgs: list[str] = []
    for p in paths:
        msgs += errors.format_messages(p, errors.file_messages(p))
    n_err, n_notes, _ = count_stats(msgs)
    code = 0
    if msgs and n_notes < len(msgs):
        code = 2 if errors.is_blockers() else 1
    if code != h["exit"]:
        return "exit status: main's rule gives %d on %r, model %d" % (code, msgs, h["exit"])
    return None


def _replay_chunk(chunk: list[dict[str, Any]]) -> list[tuple[dict[str, Any], str]]:
    bad = []
    for h in chunk:
        try:
            b = replay_history(h)
        except MachineryError:
            raise
        except Exception as e:  # a crash of the real object is a disagreement too
            b = "exception in real Errors: %r" % (e,)
        if b:
            bad.append((h, b))
    return bad


def history_key(h: dict[str, Any]) -> str:
    cfgs = as_list(h["cfg"])
    ev = [[e["f"], e["t"][0]] + ([e["r"]["line"], e["r"]["span"], e["r"]["code"], e["r"]["sev"][0], int(e["r"]["blocker"]),
                                  int(e["r"]["once"]), e["r"]["msg"]["id"], e["r"]["par"]] if e["t"] == "report" else [])
          for e in h["ev"]]
    c = [[[v["codes"] if v["on"] else None for v in as_list(fc["ign"])], fc["enabled"], fc["disabled"],
          int(fc["hasMap"]), int(fc["ignoreAll"]), int(fc["warnUnused"]), int(fc["links"]), fc["skipped"]] for fc in cfgs]
    return "replay:" + json.dumps([c, ev], separators=(",", ":"))




# =========================================================================== corpus
class Case:
    def __init__(self, name: str, file: str, main: str, files: list[tuple[str, str]], flags: list[str]) -> None:
        self.name, self.file, self.main, self.files, self.flags = name, file, main, files, flags
        self.key = os.path.basename(file) + "::" + name


RE_EXPECT = re.compile(r"\s*# (?:E|N|W|flags\d*|cmd\d*):.*$")
BAD_SUFFIX = ("-skip", "-xfail", "-writescache", "-windows", "_parallel_only", "-only_when_cache", "-only_when_nocache")
MULTI_STEP = re.compile(r"^(out|stale|rechecked|targets|triggered)\d+$|^delete$")


def load_corpus(repo: str) -> list[Case]:
    """Single-step cases of test-data/unit/check-*.test (the expected outputs are not used)."""
    import glob

    from mypy.test.data import parse_test_data

    cases: list[Case] = []
    unit = os.path.join(repo, "test-data", "unit")
    for path in sorted(glob.glob(os.path.join(unit, "check-*.test"))):
        with open(path, encoding="utf8") as f:
            raw = f.read()
        # split into cases first (parse_test_data handles one case body at a time)
        parts = re.split(r"^\[case ([^\]]+)\]\n", raw, flags=re.MULTILINE)
        for k in range(1, len(parts), 2):
            name, body = parts[k].strip(), parts[k + 1]
            if name.endswith(BAD_SUFFIX) or "-" in name and name.rsplit("-", 1)[1] in ("skip", "xfail", "posix", "windows"):
                continue
            try:
                items = parse_test_data(body, name)
            except Exception:
                continue
            if not items or items[0].id != "case":
                continue
            main_lines = items[0].data
            ok = True
            files: list[tuple[str, str]] = []
            for it in items[1:]:
                if MULTI_STEP.match(it.id) or it.id in ("outfile", "outfile-re"):
                    ok = False
                    break
                if it.id in ("file", "fixture"):
                    if it.arg is None or re.search(r"\.\d+$", it.arg):
                        ok = False
                        break
                    files.append((it.arg, "\n".join(it.data).replace("<ROOT>", repo) + "\n"))
                elif it.id in ("builtins", "typing", "_typeshed"):
                    try:
                        with open(os.path.join(unit, it.arg or ""), encoding="utf8") as f:
                            files.append((it.id + ".pyi", f.read()))
                    except OSError:
                        ok = False
                        break
            if not ok:
                continue
            text = "\n".join(main_lines) + "\n"
            if re.search(r"^# cmd\d*:", text, flags=re.MULTILINE) or re.search(r"^# flags\d+:", text, flags=re.MULTILINE):
                continue
            m = re.search(r"# flags: (.*)$", text, flags=re.MULTILINE)
            flags = m.group(1).split() if m else []
            if any(fl.startswith(("--config-file", "--shadow-file", "-n", "--num-workers", "--cache", "--junit", "--package-root",
                                   "--install-types", "--pretty", "--output", "-o")) for fl in flags):
                continue
            # drop the expectation comments: a "# type: ignore" is only recognised as the first comment of a line
            main = "\n".join(RE_EXPECT.sub("", ln) if not ln.lstrip().startswith("# flags:") else ln for ln in main_lines) + "\n"
            cases.append(Case(name, path, main, files, flags))
    return cases


# =========================================================================== recording real runs
_REC: dict[str, Any] = {}
_HOOKED = False


def install_hooks() -> None:
    """Wrap (from outside) the linearisation points of mypy.errors / build.State."""
    global _HOOKED
    if _HOOKED:
        return
    _HOOKED = True
    from mypy import build
    from mypy.errors import Errors

    orig_add = Errors.add_error_info
    orig_filter = Errors._filter_error
    orig_setign = Errors.set_file_ignored_lines
    orig_setskip = Errors.set_skipped_lines
    orig_fm = Errors.file_messages
    orig_unused = build.State.generate_unused_ignore_notes
    orig_bm_init = build.BuildManager.__init__

    def bm_init(self: Any, *a: Any, **k: Any) -> None:
        orig_bm_init(self, *a, **k)
        _REC["errors_obj"] = self.errors   # checkers create throw-away Errors objects; only this one prints

    def add_error_info(self: Any, info: Any, *, file: str | None = None) -> None:
        if not isinstance(info.origin_span, (list, tuple, range)):
            info.origin_span = list(info.origin_span)  # a one-shot iterator would be consumed by reading it
        self._v_cur, self._v_stage = info, 0
        try:
            orig_add(self, info, file=file)
        finally:
            self._v_cur = None

    def _filter_error(self: Any, file: str, info: Any) -> bool:
        res = orig_filter(self, file, info)
        if res and _REC.get("on") and self is _REC.get("errors_obj") and not (
                getattr(self, "_v_cur", None) is info and self._v_stage == 0):
            # a watcher swallowed an info *after* the decision tree admitted it (or a derived note): below the model
            _REC["flags"].append("watcher-swallowed-after-entry")
        if getattr(self, "_v_cur", None) is info and self._v_stage == 0:
            self._v_stage = 1
            if not res and _REC.get("on") and self is _REC.get("errors_obj"):
                o = self.options
                _REC["events"].append(("report", file, info, (
                    frozenset(c.code for c in o.enabled_error_codes), frozenset(c.code for c in o.disabled_error_codes),
                    bool(o.show_error_code_links and not o.hide_error_codes), self.options.many_errors_threshold)))
        return res

    def set_file_ignored_lines(self: Any, file: str, ignored_lines: dict[int, list[str]], ignore_all: bool = False) -> None:
        if _REC.get("on") and (self is _REC.get("errors_obj") or "errors_obj" not in _REC):
            _REC["events"].append(("ign", file, {k: list(v) for k, v in ignored_lines.items()}, bool(ignore_all)))
        orig_setign(self, file, ignored_lines, ignore_all)

    def set_skipped_lines(self: Any, file: str, skipped: set[int]) -> None:
        if _REC.get("on") and (self is _REC.get("errors_obj") or "errors_obj" not in _REC):
            _REC["events"].append(("skip", file, set(skipped)))
        orig_setskip(self, file, skipped)

    def file_messages(self: Any, path: str) -> Any:
        res = orig_fm(self, path)
        if _REC.get("on") and self is _REC.get("errors_obj"):
            _REC["out"][path] = list(res)
            _REC["order"].append(path)
        return res

    def generate_unused_ignore_notes(self: Any) -> None:
        if _REC.get("on"):
            ts = self.tree is not None and self.tree.is_typeshed_file(self.options)
            o = self.options
            _REC["events"].append(("finish", self.xpath, bool(ts), bool(o.warn_unused_ignores),
                                   frozenset(c.code for c in o.enabled_error_codes),
                                   frozenset(c.code for c in o.disabled_error_codes), tuple(self.import_context)))
        orig_unused(self)

    Errors.add_error_info = add_error_info  # type: ignore[method-assign]
    Errors._filter_error = _filter_error  # type: ignore[method-assign]
    Errors.set_file_ignored_lines = set_file_ignored_lines  # type: ignore[method-assign]
    Errors.set_skipped_lines = set_skipped_lines  # type: ignore[method-assign]
    Errors.file_messages = file_messages  # type: ignore[method-assign]
    build.State.generate_unused_ignore_notes = generate_unused_ignore_notes  # type: ignore[method-assign]
    build.BuildManager.__init__ = bm_init  # type: ignore[method-assign]


class RunResult:
    def __init__(self) -> None:
        self.events: list[Any] = []
        self.out: dict[str, list[Any]] = {}
        self.order: list[str] = []
        self.messages: list[str] = []
        self.blocked = False
        self.crash: str | None = None
        self.options_error: str | None = None
        self.flags: list[str] = []


def run_mypy(case: Case, main_text: str, extra_flags: list[str], workdir: str) -> RunResult:
    """One real in-process build of the case (as mypy/test/testcheck.py does it), recorded."""
    from mypy import build
    from mypy.errors import CompileError
    from mypy.main import process_options
    from mypy.modulefinder import BuildSource
    from mypy.test.helpers import testfile_pyversion

    install_hooks()
    res = RunResult()
    flag_list = list(case.flags) + list(extra_flags) + ["--no-site-packages"]
    import io
    try:
        _, options = process_options(flag_list, require_targets=False, stdout=io.StringIO(), stderr=io.StringIO())
    except SystemExit as e:
        res.options_error = "process_options exited %r" % (e.code,)
        return res
    options.use_builtins_fixtures = True
    options.show_traceback = True
    options.reveal_verbose_types = not case.name.endswith("_no_verbose_reveal")
    if all(fl.split("=")[0] != "--python-version" for fl in flag_list):
        options.python_version = testfile_pyversion(case.file)
    if "abstract" not in case.file:
        options.allow_empty_bodies = not case.name.endswith("_no_empty")
    options.incremental = False
    options.cache_dir = os.devnull
    options.hide_error_codes = False
    options.error_summary = False
    options.many_errors_threshold = -1   # A-small-errors
    _REC.clear()
    _REC.update(on=True, events=res.events, out=res.out, order=res.order, flags=res.flags)
    try:
        r = build.build([BuildSource("main", "__main__", main_text)], options, alt_lib_path="tmp")
        res.messages = list(r.errors)
    except CompileError as e:
        res.messages = list(e.messages)
        res.blocked = True
    except SystemExit as e:
        res.crash = "SystemExit %r" % (e.code,)
    except BaseException as e:  # internal error of mypy on this program: not this property's business
        res.crash = "%s: %s" % (type(e).__name__, str(e)[:200])
    finally:
        _REC["on"] = False
    return res


# =========================================================================== abstraction of a real run
class Skip(Exception):
    pass


class Abstractor:
    """Maps the recorded runs of one case (base + variants) onto the specification's vocabulary."""

    def __init__(self) -> None:
        self.files: dict[str, int] = {}
        self.msg_ids: dict[str, int] = {}
        self.ctx_ids: dict[Any, int] = {}
        self.code_objs: dict[str, Any] = {}

    def fidx(self, path: str) -> int:
        if path not in self.files:
            self.files[path] = len(self.files) + 1
        return self.files[path]

    def abstract(self, res: RunResult) -> dict[str, Any]:
        """-> {"cfg": {fidx: fc}, "ev": [...], "out": {fidx: [...]}}; raises Skip for runs outside the model."""
        ign: dict[str, Any] = {}
        skipped: dict[str, set[int]] = {}
        snap: dict[str, Any] = {}
        opts: dict[str, Any] = {}
        warn: dict[str, bool] = {}
        ev: list[dict[str, Any]] = []
        index_of: dict[int, int] = {}
        if res.flags:
            raise Skip(res.flags[0])

        def check_snapshot(f: str) -> None:
            cur = (json.dumps(ign.get(f), sort_keys=True), sorted(skipped.get(f, ())))
            if f not in snap:
                snap[f] = cur
            elif snap[f] != cur:
                raise Skip("dynamic-ignore-map")

        def check_opts(f: str, o: Any) -> None:
            if f not in opts:
                opts[f] = o
            elif opts[f] != o:
                raise Skip("dynamic-options")

        links: dict[str, bool] = {}
        for e in res.events:
            if e[0] == "ign":
                ign[e[1]] = (e[2], e[3])
            elif e[0] == "skip":
                skipped[e[1]] = e[2]
            elif e[0] == "report":
                _, f, info, (en, dis, lk, thr) = e
                if 0 <= thr <= sum(1 for x in res.events if x[0] == "report") + 5:
                    raise Skip("many-errors-threshold")   # A-small-errors: the hiding mechanism could have fired
                check_snapshot(f)
                check_opts(f, (en, dis))
                if f in links and links[f] != lk:
                    raise Skip("dynamic-options")
                links[f] = lk
                if info.line < 0 or info.column < -1 or info.line > 100000 or info.column > 16000:
                    raise Skip("position-out-of-range")
                span = list(info.origin_span)
                if any(x < 0 for x in span):
                    raise Skip("position-out-of-range")
                par = 0
                if info.parent_error is not None:
                    par = index_of.get(id(info.parent_error), -1)
                ctx = tuple(info.import_ctx)
                if ctx not in self.ctx_ids:
                    self.ctx_ids[ctx] = len(self.ctx_ids)
                index_of[id(info)] = len(ev) + 1
                code = code_ident(info.code) if info.code is not None else "none"
                if info.code is not None:
                    self.code_objs[code] = (info.code.code, info.code.sub_code_of.code if info.code.sub_code_of else "",
                                            bool(info.code.default_enabled))
                if info.priority != 0 or info.hidden:
                    raise Skip("priority-or-hidden-report")
                ev.append({"t": "report", "f": self.fidx(f), "r": {
                    "line": info.line, "col": info.column + 1, "el": info.end_line, "ec": info.end_column + 1, "span": span,
                    "code": code, "sev": info.severity, "blocker": bool(info.blocker), "once": bool(info.only_once),
                    "msg": abstract_message(info.message, None, "report", self.msg_ids), "par": par, "ctx": self.ctx_ids[ctx]},
                    "_keep": info})
            elif e[0] == "finish":
                _, f, typeshed, w, en, dis, ctx = e
                if typeshed:
                    continue
                check_snapshot(f)
                check_opts(f, (en, dis))
                warn[f] = w
                if ctx not in self.ctx_ids:
                    self.ctx_ids[ctx] = len(self.ctx_ids)
                ev.append({"t": "finish", "f": self.fidx(f), "ctx": self.ctx_ids[ctx]})
        n = len(ev)
        for x in ev:
            if x["t"] == "report" and x["r"]["par"] == -1:
                x["r"]["par"] = n + 1  # parent was never recorded (swallowed by a watcher): a parent that is no item
            x.pop("_keep", None)
        cfg: dict[int, Any] = {}
        for f, i in self.files.items():
            has = f in ign
            m, ignore_all = ign.get(f, ({}, False))
            en, dis = opts.get(f, (frozenset(), frozenset()))
            cfg[i] = {"hasMap": has, "ign": {ln: {"on": True, "codes": list(cs)} for ln, cs in m.items()},
                      "ignoreAll": bool(ignore_all), "skipped": sorted([i, ln] for ln in skipped.get(f, ()) if ln in m),
                      "enabled": sorted(en), "disabled": sorted(dis), "warnUnused": warn.get(f, False),
                      "links": links.get(f, False)}
        out: dict[int, list[Any]] = {}
        for path, tuples in res.out.items():
            items = []
            for t in tuples:
                if t[1] < 0:
                    continue  # context lines of --show-error-context: not diagnostics
                items.append({"line": t[1], "sev": t[5], "code": t[7] or "none",
                              "msg": abstract_message(t[6], t[7], t[5], self.msg_ids)})
            out[self.fidx(path)] = items
        return {"cfg": cfg, "ev": ev, "out": out}


def default_fc() -> dict[str, Any]:
    return {"hasMap": False, "ign": {}, "ignoreAll": False, "skipped": [], "enabled": [], "disabled": [],
            "warnUnused": False, "links": False}


def tla_msg(m: dict[str, Any]) -> str:
    hints = "{" + ", ".join("[c |-> %s, n |-> %s]" % (tla_value(h["c"]), tla_value(set(h["n"]))) for h in m["hints"]) + "}"
    return "[k |-> %s, id |-> %d, code |-> %s, codes |-> %s, hints |-> %s]" % (
        tla_value(m["k"]), m["id"], tla_value(m["code"]), tla_value(list(m["codes"])), hints)


def tla_fc(fc: dict[str, Any]) -> str:
    if fc["ign"]:
        ign = "(" + " @@ ".join("%d :> [on |-> TRUE, codes |-> %s]" % (ln, tla_value(list(v["codes"])))
                                  for ln, v in sorted(fc["ign"].items())) + ")"
    else:
        ign = "<<>>"
    return ("[hasMap |-> %s, ign |-> %s, ignoreAll |-> %s, skipped |-> %s, enabled |-> %s, disabled |-> %s, "
            "warnUnused |-> %s, links |-> %s]" % (
                tla_value(fc["hasMap"]), ign, tla_value(fc["ignoreAll"]),
                "{" + ", ".join(tla_value(list(x)) for x in fc["skipped"]) + "}",
                tla_value(set(fc["enabled"])), tla_value(set(fc["disabled"])), tla_value(fc["warnUnused"]), tla_value(fc["links"])))


def tla_cfg(cfg: dict[int, Any], nfiles: int) -> str:
    return "<<" + ", ".join(tla_fc(cfg.get(i, default_fc())) for i in range(1, nfiles + 1)) + ">>"


NOREPORT = "NoReport"


def tla_ev(ev: list[dict[str, Any]]) -> str:
    parts = []
    for e in ev:
        if e["t"] == "finish":
            parts.append('[t |-> "finish", f |-> %d, r |-> [%s EXCEPT !.ctx = %d]]' % (e["f"], NOREPORT, e["ctx"]))
        else:
            r = e["r"]
            parts.append('[t |-> "report", f |-> %d, r |-> [line |-> %d, col |-> %d, el |-> %d, ec |-> %d, span |-> %s, code |-> %s, '
                         'sev |-> %s, blocker |-> %s, once |-> %s, msg |-> %s, par |-> %d, ctx |-> %d]]' % (
                             e["f"], r["line"], r["col"], max(r["el"], 0), max(r["ec"], 0), tla_value(list(r["span"])), tla_value(r["code"]),
                             tla_value(r["sev"]), tla_value(r["blocker"]), tla_value(r["once"]), tla_msg(r["msg"]), r["par"], r["ctx"]))
    return "<<" + ", ".join(parts) + ">>"


def code_ident(code: Any) -> str:
    """ErrorCode objects compare by name but carry their own sub_code_of (CALL_ARG vs CALL_ARG_MISC):
    the specification's Codes are the objects."""
    from mypy import errorcodes
    if errorcodes.error_codes.get(code.code) is code:
        return code.code
    return "%s@%s" % (code.code, code.sub_code_of.code if code.sub_code_of is not None else "alt")


def real_code_tables() -> dict[str, Any]:
    """The tables of mypy.errorcodes / mypy.errors the specification is parameterised with, read off the code."""
    from mypy import errorcodes, errors
    objs: dict[str, Any] = {}
    for o in list(vars(errorcodes).values()) + list(errorcodes.error_codes.values()):
        if isinstance(o, errorcodes.ErrorCode):
            objs[code_ident(o)] = o
    return {
        "codes": sorted(objs),
        "name": {i: o.code for i, o in objs.items()},
        "subof": {i: o.sub_code_of.code for i, o in objs.items() if o.sub_code_of is not None},
        "default_on": sorted(i for i, o in objs.items() if o.default_enabled),
        "renamed": {i: errors.original_error_codes[o].code for i, o in objs.items() if o in errors.original_error_codes},
        "hide_link": sorted(c.code for c in errors.HIDE_LINK_CODES),
    }


def tla_tables(t: dict[str, Any], extra: dict[str, Any]) -> str:
    """extra: code objects met in a run that the static tables do not have (plugin-defined codes)."""
    codes = sorted(set(t["codes"]) | set(extra))
    name = dict(t["name"]); subof = dict(t["subof"]); default_on = set(t["default_on"])
    for i, (nm, sub, on) in extra.items():
        name[i] = nm
        if sub:
            subof[i] = sub
        if on:
            default_on.add(i)

    def fn(fname: str, d: dict[str, str], other: str) -> str:
        arms = " [] ".join("c = %s -> %s" % (tla_value(k), tla_value(v)) for k, v in sorted(d.items()))
        if not arms:
            return "%s == [c \\in RealCodes |-> %s]" % (fname, other)
        return "%s == [c \\in RealCodes |-> CASE %s [] OTHER -> %s]" % (fname, arms, other)

    return "\n".join([
        "RealCodes == " + tla_value(set(codes)),
        fn("RealNameOf", {k: v for k, v in name.items() if k != v}, "c"),
        fn("RealSubOf", subof, '"none"'),
        "RealDefaultOn == " + tla_value(default_on),
        fn("RealRenamed", t["renamed"], '"none"'),
        "RealHideLink == " + tla_value(set(t["hide_link"])),
    ])


TRACE_TAIL = r"""
EvalVariant(b, v) ==
  LET evv == IF v.same THEN b.ev ELSE v.ev
      T == Run(v.cfg, evv)
  IN [trace |-> FileOut(T), exitT |-> Exit(T),
      pred |-> IF v.kind = "enable" THEN FileOut(Run(b.cfg, evv)) ELSE FileOut(Run(v.cfg, b.ev)),
      exact |-> CASE v.kind = "ignore" -> ExactIgnore(b.cfg, v.cfg, v.f, v.l, b.ev)
                  [] v.kind = "disable" -> ExactDisable(b.cfg, v.cfg, v.code, b.ev)
                  [] OTHER -> TRUE,
      codes |-> CodeSets(b.cfg[v.mainf].enabled, b.cfg[v.mainf].disabled, v.addDis, v.addEn),
      left |-> IF v.kind = "ignore" THEN NotesLeftBehind(b.cfg, v.cfg, v.f, v.l, b.ev) ELSE {},
      narrow |-> IF v.same THEN {} ELSE NarrowerOrigin(evv),
      newErr |-> IF v.kind = "enable" THEN NewErrors(v.cfg, b.cfg, evv) ELSE NewErrors(b.cfg, v.cfg, b.ev),
      iff |-> UnusedIff(v.cfg, evv) /\ NoCodeIff(v.cfg, evv) /\ ExitTruth(v.cfg, evv)]
Eval(c) == LET B == Run(c.cfg, c.ev) IN
  [out |-> FileOut(B), exit |-> Exit(B), narrow |-> NarrowerOrigin(c.ev), codes |-> CodeSets({}, {}, c.addDis, c.addEn), iff |-> UnusedIff(c.cfg, c.ev) /\ NoCodeIff(c.cfg, c.ev) /\ ExitTruth(c.cfg, c.ev),
   vars |-> [k \in 1..Len(c.vars) |-> EvalVariant(c, c.vars[k])]]
TraceInit == pc = "trace" /\ cur = 0 /\ cfg = <<>> /\ ev = <<>>
TraceNext == /\ cur < Len(Cases) /\ cur' = cur + 1
             /\ PrintT(<<"RES", ToJson([i |-> cur', r |-> Eval(Cases[cur'])])>>)
             /\ UNCHANGED <<pc, cfg, ev>>
TraceSpec == TraceInit /\ [][TraceNext]_vars
====
"""

TRACE_CFG = """SPECIFICATION TraceSpec
CONSTANTS
  Codes <- RealCodes
  NameOf <- RealNameOf
  SubOf <- RealSubOf
  DefaultOn <- RealDefaultOn
  Renamed <- RealRenamed
  HideLink <- RealHideLink
  Slots <- EmptySeq
  IgnChoices <- EmptySet
  SkipChoices <- EmptySet
  CodeCfgs <- EmptySet
  FlagCfgs <- EmptySet
  Alphabet <- EmptySet
  MaxReports = 0
  DisabledLeavesUnused = TRUE
  SubCodesMatch = TRUE
  BlockersBypass = TRUE
  AssumeNoCrossCodeDups = TRUE
  NotesInheritOrigin = TRUE
"""


def evaluate_cases_with_tlc(case_texts: list[str], tables: dict[str, Any], extra_codes: dict[str, Any], tag: str) -> list[Any]:
    """TLC evaluates the specification on the recorded traces (one JVM per batch)."""
    d = scratch("c13-trace-")
    for fn in ("Errors.tla",):
        with open(os.path.join(SPEC, fn)) as f, open(os.path.join(d, fn), "w") as g:
            g.write(f.read())
    mod = "TraceErrors"
    body = ["---- MODULE %s ----" % mod, "EXTENDS Errors", tla_tables(tables, extra_codes), "EmptySeq == <<>>", "EmptySet == {}"]
    for i, t in enumerate(case_texts, start=1):
        body.append("Case%d == %s" % (i, t))
    body.append("Cases == <<" + ", ".join("Case%d" % i for i in range(1, len(case_texts) + 1)) + ">>")
    with open(os.path.join(d, mod + ".tla"), "w") as f:
        f.write("\n".join(body) + TRACE_TAIL)
    with open(os.path.join(d, mod + ".cfg"), "w") as f:
        f.write(TRACE_CFG)
    r = tlc(mod, mod + ".cfg", cwd=d, workers=1, coverage=False, timeout=900, heap="2g",
            # the fold over a long trace is a deep recursion; one worker needs no crowd of GC / JIT threads
            env_extra={"JAVA_TOOL_OPTIONS": "-Xss512m -XX:ParallelGCThreads=2 -XX:CICompilerCount=2"})
    if not r.ok:
        keep = os.path.join(VERIF, "replays", PID)
        raise MachineryError("TLC trace evaluation (%s) failed: %s %s\n%s" % (tag, r.violated, r.error, r.out[-1500:]))
    res = r.json_lines("RES")
    if len(res) != len(case_texts):
        raise MachineryError("TLC evaluated %d of %d traces (%s)" % (len(res), len(case_texts), tag))
    res.sort(key=lambda x: x["i"])
    return [x["r"] for x in res]


# =========================================================================== variants
WRONG_CODES = ["attr-defined", "operator", "index", "union-attr"]
ENABLE_POOL = ["truthy-bool", "redundant-expr", "possibly-undefined", "ignore-without-code", "unused-ignore", "unused-awaitable",
               "explicit-override", "redundant-self", "truthy-iterable", "mutable-override", "unimported-reveal", "deprecated",
               "exhaustive-match", "untyped-decorator"]
BASE_EXTRAS = [[], ["--warn-unused-ignores"], ["--warn-unused-ignores"],
               ["--warn-unused-ignores", "--enable-error-code", "ignore-without-code"],
               ["--enable-error-code", "ignore-without-code"], ["--show-error-code-links", "--warn-unused-ignores"]]


def place_ignores(text: str, placements: list[tuple[int, list[str]]]) -> str | None:
    """Append `# type: ignore[...]` to physical lines; None when that would not be exactly such a comment."""
    import ast
    import io
    import tokenize

    lines = text.split("\n")
    new = list(lines)
    for ln, codes in placements:
        if ln < 1 or ln > len(lines):
            return None
        src = lines[ln - 1]
        if "#" in src or src.rstrip().endswith("\\") or not src.strip():
            return None
        new[ln - 1] = src + "  # type: ignore" + ("[%s]" % ", ".join(codes) if codes else "")
    new_text = "\n".join(new)

    def toks(t: str) -> list[Any] | None:
        try:
            return [(k.type, k.string, k.start[0]) for k in tokenize.generate_tokens(io.StringIO(t).readline)
                    if k.type not in (tokenize.COMMENT, tokenize.NL, tokenize.NEWLINE)] + \
                   [("C", k.start[0]) for k in tokenize.generate_tokens(io.StringIO(t).readline) if k.type == tokenize.COMMENT]
        except (tokenize.TokenError, IndentationError, SyntaxError):
            return None

    a, b = toks(text), toks(new_text)
    want = {ln for ln, _ in placements}
    if a is not None and b is not None:
        code_a = [x for x in a if x[0] != "C"]
        code_b = [x for x in b if x[0] != "C"]
        if code_a != code_b:
            return None
        if {x[1] for x in b if x[0] == "C"} - {x[1] for x in a if x[0] == "C"} != want:
            return None
    else:
        # the program does not tokenize (a blocker case): be conservative about what the line may contain
        for ln in want:
            if re.search(r"[\"'\\]", lines[ln - 1]):
                return None
    try:
        ta = ast.parse(text, type_comments=True)
    except (SyntaxError, ValueError, RecursionError):
        return new_text
    try:
        tb = ast.parse(new_text, type_comments=True)
    except (SyntaxError, ValueError, RecursionError):
        return None
    if {t.lineno for t in tb.type_ignores} - {t.lineno for t in ta.type_ignores} != want:
        return None
    return new_text


class Variant:
    def __init__(self, kind: str, **kw: Any) -> None:
        self.kind = kind
        self.placements: list[tuple[int, list[str]]] = kw.get("placements", [])
        self.code: str = kw.get("code", "")
        self.flags: list[str] = kw.get("flags", [])
        self.label: str = kw.get("label", kind)
        self.eval_kind = kind

    def key(self) -> str:
        if self.kind in ("ignore", "ignores"):
            return "ign=" + ";".join("%d:%s" % (ln, ",".join(cs) if cs else "*") for ln, cs in self.placements)
        return self.label


def span_placements(ev: list[dict[str, Any]], main_idx: int, names: dict[str, str], rnd: random.Random, cap: int) -> list["Variant"]:
    """An error may be ignored on ANY line of its origin span (the `def` line of a multi-line signature, the first line of a
    multi-line call, ...), not only where it is reported: for every recorded error of the main file whose origin span has
    more than one line, a bare and a right-code ignore on each line of the span."""
    want: list[tuple[int, str]] = []
    for e in ev:
        if e["t"] != "report" or e["f"] != main_idx:
            continue
        r = e["r"]
        if r["sev"] != "error" or r["blocker"] or r["code"] == "none" or len(set(r["span"])) < 2:
            continue
        for ln in dict.fromkeys(r["span"]):
            if (ln, names.get(r["code"], r["code"])) not in want:
                want.append((ln, names.get(r["code"], r["code"])))
    if len(want) > cap:
        want = sorted(rnd.sample(want, cap))
    vs = []
    for ln, code in want:
        vs.append(Variant("ignore", placements=[(ln, [code])]))
        vs.append(Variant("ignore", placements=[(ln, [])]))
    return vs


def make_variants(case: Case, base_out: dict[str, list[Any]], tables: dict[str, Any], rnd: random.Random, tier: str,
                  base_ev: list[dict[str, Any]] | None = None, main_idx: int = 0) -> list[Variant]:
    vs: list[Variant] = []
    items = [t for t in base_out.get("main", []) if t[1] > 0]
    by_line: dict[int, list[Any]] = {}
    for t in items:
        by_line.setdefault(t[1], []).append(t)
    lines = sorted(by_line)
    cap = 3 if tier == "quick" else 5
    chosen = lines if len(lines) <= cap else sorted(rnd.sample(lines, cap))
    subof = tables["subof"]
    right_of: dict[int, list[str]] = {}
    for ln in chosen:
        codes = []
        for t in by_line[ln]:
            c = t[7]
            if c and c not in codes and c not in ("unused-ignore", "ignore-without-code"):
                codes.append(c)
        vs.append(Variant("ignore", placements=[(ln, [])]))
        if codes:
            right_of[ln] = [codes[0]]
            vs.append(Variant("ignore", placements=[(ln, [codes[0]])]))
            if len(codes) > 1:
                vs.append(Variant("ignore", placements=[(ln, codes)]))
            if codes[0] in subof:
                vs.append(Variant("ignore", placements=[(ln, [subof[codes[0]]])]))
        wrong = [w for w in WRONG_CODES if w not in codes and w not in [subof.get(c) for c in codes]]
        vs.append(Variant("ignore", placements=[(ln, [wrong[0]])]))
        if rnd.random() < (0.3 if tier == "quick" else 0.5):
            vs.append(Variant("ignore", placements=[(ln, [wrong[1], "unused-ignore"])]))
    if len(chosen) > 1:
        vs.append(Variant("ignores", placements=[(ln, []) for ln in chosen]))
        vs.append(Variant("ignores", placements=[(ln, right_of.get(ln, ["misc"])) for ln in chosen]))
        sub = [ln for ln in chosen if rnd.random() < 0.5] or chosen[:1]
        vs.append(Variant("ignores", placements=[(ln, rnd.choice([[], right_of.get(ln, ["misc"]), [WRONG_CODES[0]]])) for ln in sub]))
    present = []
    for path, tuples in base_out.items():
        for t in tuples:
            if t[7] and t[7] not in present:
                present.append(t[7])
    ccap = 3 if tier == "quick" else 6
    for c in (present if len(present) <= ccap else rnd.sample(present, ccap)):
        vs.append(Variant("disable", code=c, flags=["--disable-error-code", c], label="disable=" + c))
        if c in subof:
            p = subof[c]
            vs.append(Variant("disable", code=p, flags=["--disable-error-code", p], label="disable=" + p))
            vs.append(Variant("other", flags=["--disable-error-code", p, "--enable-error-code", c], label="disable=%s,enable=%s" % (p, c)))
        if tier != "quick" or rnd.random() < 0.5:
            vs.append(Variant("other", flags=["--disable-error-code", c, "--enable-error-code", c], label="disable+enable=" + c))
    for c in rnd.sample(ENABLE_POOL, 1 if tier == "quick" else 2):
        vs.append(Variant("enable", code=c, flags=["--enable-error-code", c], label="enable=" + c))
    if base_ev is not None:
        have = {v.key() for v in vs}
        for v in span_placements(base_ev, main_idx, tables["name"], rnd, 4 if tier == "quick" else 10):
            if v.key() not in have:
                vs.append(v)
    return vs


def flag_codes(flags: list[str]) -> tuple[list[str], list[str]]:
    """The codes named by --disable-error-code / --enable-error-code in a flag list."""
    dis, en = [], []
    i = 0
    while i < len(flags):
        fl = flags[i]
        for opt, dst in (("--disable-error-code", dis), ("--enable-error-code", en)):
            if fl == opt and i + 1 < len(flags):
                dst.append(flags[i + 1])
                i += 1
            elif fl.startswith(opt + "="):
                dst.append(fl.split("=", 1)[1])
        i += 1
    return dis, en


def canon_cfg(cfg: dict[int, Any], nfiles: int) -> Any:
    return [json.dumps(cfg.get(i, default_fc()), sort_keys=True) for i in range(1, nfiles + 1)]


def _strip_ev(ev: list[dict[str, Any]]) -> Any:
    return json.dumps(ev, sort_keys=True)


def expected_cfg(base_cfg: dict[int, Any], v: Variant, main_idx: int) -> dict[int, Any]:
    """The configuration the variant's run must have had, if mypy took the edit the way it was meant."""
    cfg = json.loads(json.dumps(base_cfg))
    cfg = {int(k): val for k, val in cfg.items()}
    for fc in cfg.values():
        fc["ign"] = {int(k): val for k, val in fc["ign"].items()}
    if v.kind in ("ignore", "ignores"):
        for ln, codes in v.placements:
            cfg[main_idx]["ign"][ln] = {"on": True, "codes": list(codes)}
    return cfg


# =========================================================================== one batch of cases (worker process)
def process_cases(args: tuple[list[Case], int, str, dict[str, Any]]) -> dict[str, Any]:
    cases, seed, tier, tables = args
    work = scratch("c13-w-")
    os.chdir(work)
    import shutil

    stats = {"cases": 0, "cases_with_output": 0, "runs": 0, "variants": 0, "skipped": {}, "traces": 0, "metamorphic": 0,
             "kinds": {}, "nontrivial": 0, "blocker_cases": 0, "exact_evals": 0}
    problems: list[dict[str, Any]] = []
    texts: list[str] = []
    metas: list[Any] = []
    extra_codes: dict[str, Any] = {}
    sample: Any = None

    def skip(reason: str) -> None:
        stats["skipped"][reason] = stats["skipped"].get(reason, 0) + 1

    for case in cases:
        rnd = random.Random("%d/%s" % (seed, case.key))
        shutil.rmtree("tmp", ignore_errors=True)
        os.makedirs("tmp")
        try:
            for rel, content in case.files:
                pth = os.path.join("tmp", rel)
                os.makedirs(os.path.dirname(pth), exist_ok=True)
                with open(pth, "w", encoding="utf8") as f:
                    f.write(content)
        except OSError:
            skip("files")
            continue
        extras = BASE_EXTRAS[rnd.randrange(len(BASE_EXTRAS))]
        base = run_mypy(case, case.main, extras, work)
        stats["runs"] += 1
        stats["cases"] += 1
        if base.crash or base.options_error:
            skip("base-crash-or-options")
            continue
        if not base.messages and not any(e[0] == "report" for e in base.events):
            skip("no-diagnostics")     # (a case whose errors are all suppressed by its own ignores is still a trace)
            continue
        stats["cases_with_output"] += 1
        ab = Abstractor()
        try:
            b = ab.abstract(base)
        except Skip as e:
            skip("base:" + str(e))
            continue
        if len(b["ev"]) > MAX_TRACE:
            skip("trace-too-long")
            continue
        if "main" not in ab.files:
            ab.fidx("main")
        main_idx = ab.files["main"]
        if base.blocked:
            stats["blocker_cases"] += 1
        variants = make_variants(case, base.out, tables, rnd, tier, b["ev"], main_idx)
        vrecs = []
        for v in variants:
            text = case.main
            if v.kind in ("ignore", "ignores"):
                t2 = place_ignores(case.main, v.placements)
                if t2 is None:
                    skip("placement-not-a-comment")
                    continue
                text = t2
            r = run_mypy(case, text, extras + v.flags, work)
            stats["runs"] += 1
            if r.options_error:
                skip("variant-options")
                continue
            if r.crash:
                # the unmodified program did not crash mypy and this one does: a changed diagnostic, but an internal
                # error is a different defect class; recorded, not judged here
                skip("variant-crash")
                continue
            try:
                a = ab.abstract(r)
            except Skip as e:
                skip("variant:" + str(e))
                continue
            vrecs.append((v, r, a))
        nfiles = len(ab.files)
        vtexts = []
        kept = []
        for v, r, a in vrecs:
            if v.kind in ("ignore", "ignores"):
                if canon_cfg(a["cfg"], nfiles) != canon_cfg(expected_cfg(b["cfg"], v, main_idx), nfiles):
                    skip("placement-taken-differently")   # e.g. ignore before the first statement = whole file
                    continue
            same = _strip_ev(a["ev"]) == _strip_ev(b["ev"])
            kind = v.kind if v.kind in ("ignore", "disable", "enable") else "other"
            if kind in ("disable", "enable"):
                # the code sets must differ by exactly this code (--enable-error-code overrides --disable-error-code,
                # and a code may already be disabled / enabled by the case's own flags)
                fld = "disabled" if kind == "disable" else "enabled"
                for i in range(1, nfiles + 1):
                    fb, fv = b["cfg"].get(i, default_fc()), a["cfg"].get(i, default_fc())
                    if i in b["cfg"] and i in a["cfg"] and not (
                            set(fv[fld]) == set(fb[fld]) | {v.code} and v.code not in fb[fld]
                            and set(fv["enabled" if fld == "disabled" else "disabled"]) == set(fb["enabled" if fld == "disabled" else "disabled"])):
                        kind = "other"
            v.eval_kind = kind
            f_, l_ = (main_idx, v.placements[0][0]) if v.kind == "ignore" else (0, 0)
            add_dis, add_en = flag_codes(v.flags)
            vtexts.append('[kind |-> %s, f |-> %d, l |-> %d, code |-> %s, same |-> %s, mainf |-> %d, addDis |-> %s, addEn |-> %s, '
                          'cfg |-> %s, ev |-> %s]' % (
                              tla_value(kind), f_, l_, tla_value(v.code), tla_value(same), main_idx, tla_value(set(add_dis)),
                              tla_value(set(add_en)), tla_cfg(a["cfg"], nfiles), "<<>>" if same else tla_ev(a["ev"])))
            kept.append((v, r, a))
            stats["kinds"][v.kind] = stats["kinds"].get(v.kind, 0) + 1
        for ident, desc in ab.code_objs.items():
            if ident not in tables["name"]:
                extra_codes[ident] = desc
        texts.append("[cfg |-> %s, ev |-> %s, addDis |-> {}, addEn |-> {}, vars |-> <<%s>>]" % (
            tla_cfg(b["cfg"], nfiles), tla_ev(b["ev"]), ", ".join(vtexts)))
        metas.append((case, extras, base, b, kept, nfiles, dict(ab.files), ab))
        stats["variants"] += len(kept)

    def evaluate(ts: list[str]) -> list[Any]:
        """TLC on sub-batches of bounded size; a sub-batch that times out is halved, a single case that does is skipped."""
        out: list[Any] = []
        i = 0
        while i < len(ts):
            j, size = i, 0
            while j < len(ts) and (j == i or size + len(ts[j]) < 350_000):
                size += len(ts[j])
                j += 1
            try:
                out += evaluate_cases_with_tlc(ts[i:j], tables, extra_codes, "batch of %d cases from %s" % (j - i, cases[0].key))
            except MachineryError as e:
                if "timeout" not in str(e):
                    raise
                if j - i == 1:
                    skip("tlc-timeout")
                    out.append(None)
                else:
                    mid = (i + j) // 2
                    out += evaluate(ts[i:mid]) + evaluate(ts[mid:j])
            i = j
        return out

    results = evaluate(texts) if texts else []
    for (case, extras, base, b, kept, nfiles, files, ab), res in zip(metas, results):
        if res is None:
            continue
        names = {i: p for p, i in files.items()}

        def cmp_out(real: dict[int, Any], model: Any) -> str | None:
            model = as_list(model)
            for i in range(1, nfiles + 1):
                ro = norm_out(real.get(i, []))
                mo = norm_out(model[i - 1])
                if ro != mo:
                    return "%s: mypy printed %r; specification gives %r" % (names[i], ro, mo)
            return None

        stats["traces"] += 1
        bad = cmp_out(b["out"], res["out"])
        if bad:
            problems.append({"class": "trace", "case": case.key, "variant": "base", "extras": extras, "what": bad, "main": case.main})
            continue
        if res["narrow"]:
            problems.append({"class": "attach", "case": case.key, "variant": "base", "extras": extras, "main": case.main,
                             "sig": attach_signature(ab, b["ev"], res["narrow"]),
                             "what": "notes attached to an error cannot be ignored on every line of the error's origin span: "
                                     + describe_pairs(ab, b["ev"], res["narrow"])})
        if not res["iff"]:
            problems.append({"class": "iff", "case": case.key, "variant": "base", "extras": extras,
                             "what": "UnusedIff/NoCodeIff/ExitTruth false on the recorded base run", "main": case.main})
        if base.blocked != (res["exit"] == 2):
            problems.append({"class": "blocker", "case": case.key, "variant": "base", "extras": extras,
                             "what": "build blocked=%r but specification exit=%r" % (base.blocked, res["exit"]), "main": case.main})
        any_change = False
        for (v, r, a), vr in zip(kept, as_list(res["vars"])):
            stats["traces"] += 1
            stats["metamorphic"] += 1
            rep = {"case": case.key, "variant": v.key(), "extras": extras + v.flags, "main": case.main,
                   "placements": v.placements, "base_messages": base.messages, "variant_messages": r.messages}
            bad = cmp_out(a["out"], vr["trace"])
            if bad:
                problems.append(dict(rep, **{"class": "trace", "what": bad}))
                continue
            target = b["out"] if v.eval_kind == "enable" else a["out"]
            bad = cmp_out(target, vr["pred"])
            if bad:
                problems.append(dict(rep, **{"class": "meta", "sig": meta_signature(ab, b, a, v),
                                             "what": "predicted from the other run's reports under this configuration: " + bad}))
            got = a["cfg"].get(main_idx)
            # an inline `# mypy: disable-error-code=...` outranks the command line (C17's documented precedence): the rule for
            # the code sets modelled here is the one for the global flags
            if re.search(r"^# mypy:.*error[-_]code", case.main, re.M):
                got = None
            if got is not None and (sorted(vr["codes"]["enabled"]) != sorted(got["enabled"])
                                    or sorted(vr["codes"]["disabled"]) != sorted(got["disabled"])):
                problems.append(dict(rep, **{"class": "code-sets",
                                             "what": "flags %s: mypy works with enabled=%s disabled=%s; the documented rule (enable overrides "
                                                     "disable) gives enabled=%s disabled=%s" % (
                                                         v.flags, sorted(got["enabled"]), sorted(got["disabled"]),
                                                         sorted(vr["codes"]["enabled"]), sorted(vr["codes"]["disabled"]))}))
            if vr["left"]:
                stats["notes_left_behind"] = stats.get("notes_left_behind", 0) + 1
                problems.append(dict(rep, **{"class": "attach", "sig": attach_signature(ab, b["ev"], vr["left"]),
                                             "what": "the ignore removed the error but left notes attached to it: "
                                                     + describe_pairs(ab, b["ev"], vr["left"])}))
            if vr["narrow"]:
                problems.append(dict(rep, **{"class": "attach", "sig": attach_signature(ab, a["ev"], vr["narrow"]),
                                             "what": "notes attached to an error cannot be ignored on every line of its origin span: "
                                                     + describe_pairs(ab, a["ev"], vr["narrow"])}))
            if vr["newErr"]:
                # output-level exactness: an error line is printed that the other run did not print
                other = a["out"] if v.eval_kind == "enable" else b["out"]
                twins = all(any(x["line"] == o["o"]["line"] and x["sev"] == "error" and norm_msg(x["msg"]) == norm_msg(o["o"]["msg"])
                                and x["code"] != o["o"]["code"] for x in other.get(o["f"], [])) for o in vr["newErr"])
                problems.append(dict(rep, **{"class": "out-exact",
                                             "sig": "out:suppressed-error-resurfaces-under-other-code" if twins else None,
                                             "what": "error lines printed only after the edit: %r" % [
                                                 (names[o["f"]], o["o"]["line"], o["o"]["code"], norm_msg(o["o"]["msg"])) for o in vr["newErr"]]}))
            if v.eval_kind in ("ignore", "disable", "enable"):
                stats["exact_evals"] += 1
                if not vr["exact"]:
                    problems.append(dict(rep, **{"class": "exact", "what": "Exactness/DisableExact is false on this recorded trace"}))
            if not vr["iff"]:
                problems.append(dict(rep, **{"class": "iff", "what": "UnusedIff/NoCodeIff/ExitTruth false on the recorded variant run"}))
            if r.blocked != (vr["exitT"] == 2):
                problems.append(dict(rep, **{"class": "blocker", "what": "build blocked=%r, specification exit=%r" % (r.blocked, vr["exitT"])}))
            if base.blocked and not r.blocked:
                problems.append(dict(rep, **{"class": "blocker", "what": "a blocking error disappeared"}))
            if canon_out(a["out"], nfiles) != canon_out(b["out"], nfiles):
                any_change = True
        if any_change:
            stats["nontrivial"] += 1
        if sample is None and kept:
            v, r, a = kept[0]
            sample = {"case": case.key, "variant": v.key(), "base": base.messages[:6], "variant_output": r.messages[:6]}
    os.chdir("/")
    return {"stats": stats, "problems": problems, "sample": sample}


def canon_out(out: dict[int, Any], nfiles: int) -> Any:
    return [norm_out(out.get(i, [])) for i in range(1, nfiles + 1)]


# =========================================================================== generated programs
# Small programs for the constructs the property statement names (multi-line statements, notes, decorators, imports,
# deferred / duplicate errors, sub-codes, blockers).  They are always run, with every placement, in both tiers: the
# seed never decides whether they are explored.
GENERATED: list[Any] = [
    ("name-suggestion", [], "my_variable = 1\nx = my_variabel\ny: int = ''\n"),
    ("import-suggestion", [], "import colections\nimport nonexistent_mod_a\nimport nonexistent_mod_b\n"),
    ("multiline-call", [], "def f(x: int, y: int) -> int: ...\nf(1,\n  'b')\nf('a',\n  2)\nf(\n  'a',\n  'b',\n)\n"),
    ("override-multiline", [], "class A:\n    def g(self, x: int) -> None: ...\nclass B(A):\n    def g(self,\n          x: str) -> None: ...\n"),
    ("notes-with-parent", [], "from typing import overload, Union\n@overload\ndef f(x: int) -> int: ...\n@overload\ndef f(x: str) -> str: ...\n"
                              "def f(x: Union[int, str]) -> Union[int, str]: return x\nf(1.5)\nreveal_type(f)\n"),
    ("decorator", [], "from typing import Callable\ndef deco(f: Callable[[int], int]) -> Callable[[int], int]: return f\n"
                      "@deco\ndef g(x: str) -> str: return x\n"),
    ("duplicates-deferred", [], "def f() -> None:\n    x = y\n    z: int = ''\n    reveal_type(x)\ny = undefined_name\n"
                                "class C:\n    def m(self) -> None:\n        self.a = later()\n        v: int = self.a\ndef later() -> str: ...\n"),
    ("sub-code", [], "class A:\n    def f(self) -> None: ...\ndef h(self: A) -> int: ...\nA.f = h\nx: int = ''\n"),
    ("syntax-blocker", [], "x: int = ''\ndef f(:\n"),
    ("two-errors-one-line", [], "def f(x: int) -> int: ...\nx: str = f('a')\n"),
    ("unreachable-skipped", ["--warn-unused-ignores"], "import sys\nif sys.version_info < (3, 0):\n    x: int = ''  # type: ignore\ny: int = ''\n"),
    ("existing-ignores", ["--warn-unused-ignores"], "def f(x: int) -> int: ...\nf('a')  # type: ignore[arg-type]\nf('b')  # type: ignore[call-arg]\nf(1)  # type: ignore\nf('c')\n"),
    ("untyped-note", ["--check-untyped-defs"], "def f():\n    x: int = ''\n    return undefined_thing\n"),
    ("same-text-two-codes", [], "import functools\nfrom typing import Callable, Union\nfn3: Union[Callable[[int], int], str]\n"
                                "functools.partial(fn3, 2)()\n", "tuple.pyi"),
    # ---- multi-line constructs whose error (+ attached notes) may be ignored on several lines (origin span != reported line)
    ("ml-override-arg", [], "class A:\n    def f(self, x: int) -> None: ...\nclass B(A):\n    def f(\n        self,\n        x: str,\n    ) -> None: ...\n"),
    ("ml-override-eq", [], "class C:\n    def __eq__(\n        self,\n        other: int,\n    ) -> bool:\n        return True\n"),
    ("ml-override-return", [], "class A:\n    def f(self) -> int: ...\nclass B(A):\n    def f(\n        self,\n    ) -> str: ...\n"),
    ("ml-override-signature", [], "class A:\n    def f(self, x: int, y: int) -> None: ...\nclass B(A):\n    def f(\n        self,\n        x: int,\n    ) -> None: ...\n"),
    ("ml-call-defined-here", [], "def f(x: int) -> None: ...\nf(\n    1,\n    zz=2,\n)\n"),
    ("ml-call-overload", [], "from typing import overload, Union\n@overload\ndef f(x: int) -> int: ...\n@overload\ndef f(x: str) -> str: ...\n"
                             "def f(x: Union[int, str]) -> Union[int, str]: return x\nf(\n    1.5,\n)\n"),
    ("ml-call-protocol", [], "from typing import Protocol\nclass P(Protocol):\n    def m(self, x: int) -> int: ...\n"
                             "class Impl:\n    def m(self, x: str) -> str: ...\ndef use(p: P) -> None: ...\nuse(\n    Impl(),\n)\n"),
    ("ml-assign-protocol", [], "from typing import Protocol\nclass P(Protocol):\n    attr: int\n    def m(self) -> int: ...\n"
                               "class Impl:\n    attr: str\n    def m(self) -> str: ...\nx: P = (\n    Impl()\n)\n"),
    ("ml-typeddict", [], "from typing import TypedDict\nclass TD(TypedDict):\n    x: int\n    y: str\n"
                         "t: TD = {\n    'x': 'a',\n    'y': 1,\n}\nu = TD(\n    x=1,\n    z=2,\n)\n",
     {"builtins.pyi": "fixtures/dict.pyi", "typing.pyi": "fixtures/typing-typeddict.pyi"}),
    ("ml-dataclass", [], "from dataclasses import dataclass\n@dataclass\nclass D:\n    a: int\n    b: str = 1\nD(\n    'x',\n    2,\n    3,\n)\n",
     "dataclasses.pyi"),
    ("ml-operand-union", [], "from typing import Optional\nclass C: pass\ndef f() -> Optional[C]:\n    return None\nf(\n) + C()\n"),
    ("ml-decorated", [], "from typing import Callable, TypeVar\nT = TypeVar('T')\ndef deco(x: int) -> Callable[[T], T]: ...\n"
                         "@deco(\n    'a',\n)\ndef g(\n    x: int,\n) -> str:\n    return x\n"),
    ("ml-return-list", [], "from typing import List\ndef f() -> List[int]:\n    return [\n        'a',\n        1,\n    ]\n", "list.pyi"),
]


def generated_cases(repo: str) -> list[Case]:
    unit = os.path.join(repo, "test-data", "unit")
    cases = []
    for g in GENERATED:
        name, flags, src = g[:3]
        fixtures = g[3] if len(g) > 3 else "dict.pyi"
        if isinstance(fixtures, str):
            fixtures = {"builtins.pyi": "fixtures/" + fixtures}
        files = []
        for target, rel in fixtures.items():
            with open(os.path.join(unit, rel), encoding="utf8") as f:
                files.append((target, f.read()))
        c = Case(name, os.path.join(unit, "check-generated.test"), src, files, flags)
        c.key = "generated::" + name
        cases.append(c)
    return cases


# =========================================================================== classification of disagreements
RE_OPERAND_NOTE = re.compile(r"^(Left|Right) operand is of type |^Both left and right operands are unions$")


def _pair_texts(ab: "Abstractor", ev: list[dict[str, Any]], pairs: list[Any]) -> list[tuple[dict[str, Any], str, dict[str, Any], str]]:
    text = {i: t for t, i in ab.msg_ids.items()}
    res = []
    for i, j in pairs:
        e, n = ev[i - 1]["r"], ev[j - 1]["r"]
        res.append((e, text.get(e["msg"]["id"], "?"), n, text.get(n["msg"]["id"], "?")))
    return res


def describe_pairs(ab: "Abstractor", ev: list[dict[str, Any]], pairs: list[Any]) -> str:
    return "; ".join("error line %d span %s [%s] %r <- note line %d span %s %r" % (
        e["line"], e["span"], e["code"], et[:70], n["line"], n["span"], nt[:70]) for e, et, n, nt in _pair_texts(ab, ev, pairs)[:4])


def attach_signature(ab: "Abstractor", ev: list[dict[str, Any]], pairs: list[Any]) -> str | None:
    """The one catalogued defect of this class: the union-operand notes of a multi-line binary operation."""
    ps = _pair_texts(ab, ev, pairs)
    if ps and all(e["code"] == "operator" and n["code"] == "operator" and RE_OPERAND_NOTE.match(nt) and len(set(n["span"])) == 1
                  for e, et, n, nt in ps):
        return "attach:union-operand-note-keeps-one-line-origin"
    return None


RE_SUGGEST = re.compile(r"; did you mean .*\?$")


def meta_signature(ab: Abstractor, b: dict[str, Any], a: dict[str, Any], v: Variant) -> list[str] | None:
    """Recognise (exactly) the two confirmed defects in which the front end consults `ignored_lines` itself;
    anything else gets a key that names the case and the edit."""
    if v.kind not in ("ignore", "ignores"):
        return None
    text = {i: t for t, i in ab.msg_ids.items()}
    placed = {ln for ln, cs in v.placements}   # under a bare ignore the changed text is reported too (and then suppressed)
    be = [e for e in b["ev"] if e["t"] == "report"]
    ae = [e for e in a["ev"] if e["t"] == "report"]

    def plain(e: dict[str, Any]) -> Any:
        r = {k: val for k, val in e["r"].items() if k not in ("msg", "par")}
        return json.dumps([e["f"], r], sort_keys=True)

    # align the variant's reports with the base's: base reports without a partner were dropped by the edit
    j = 0
    dropped, pairs = [], []
    for x in be:
        if j < len(ae) and plain(x) == plain(ae[j]):
            pairs.append((x, ae[j]))
            j += 1
        else:
            dropped.append(x)
    if j != len(ae):
        return None
    changed = [(x, y) for x, y in pairs if x["r"]["msg"] != y["r"]["msg"]]
    if not dropped and not changed:
        return None
    ok_changed = all(x["r"]["code"] == "name-defined" and x["r"]["line"] in placed
                     and x["r"]["msg"]["k"] == "m" and y["r"]["msg"]["k"] == "m"
                     and RE_SUGGEST.search(text[x["r"]["msg"]["id"]])
                     and RE_SUGGEST.sub("", text[x["r"]["msg"]["id"]]) == text[y["r"]["msg"]["id"]] for x, y in changed)
    ok_dropped = all(x["r"]["sev"] == "note" and x["r"]["line"] in placed
                     and x["r"]["code"] in ("import-not-found", "import", "import-untyped") and x["r"]["msg"]["k"] == "m"
                     and re.match(r'^Did you mean .*\?$', text[x["r"]["msg"]["id"]]) for x in dropped)
    if not (ok_changed and ok_dropped):
        return None
    return (["meta:unmatched-ignore-drops-name-suggestion"] if changed else []) + \
           (["meta:unmatched-ignore-drops-import-suggestion-note"] if dropped else [])


# =========================================================================== command line (main.main) binding
EXIT_FAMILY: list[tuple[str, list[str], dict[str, str]]] = [
    ("clean", [], {"p.py": "x: int = 1\n"}),
    ("error", [], {"p.py": "x: int = ''\n"}),
    ("note-only", [], {"p.py": "x = 1\nreveal_type(x)\n"}),
    ("error-and-note", [], {"p.py": "x: int = ''\nreveal_type(x)\n"}),
    ("syntax-error", [], {"p.py": "x: int = ''\ndef f(:\n"}),
    ("syntax-error-ignored", [], {"p.py": "def f(:  # type: ignore\n"}),
    ("syntax-error-in-import", [], {"p.py": "import q\nx: int = ''\n", "q.py": "def f(:\n"}),
    ("error-ignored", ["--warn-unused-ignores"], {"p.py": "x: int = ''  # type: ignore\n"}),
    ("error-ignored-by-code", ["--warn-unused-ignores"], {"p.py": "x: int = ''  # type: ignore[assignment]\n"}),
    ("error-wrong-code", ["--warn-unused-ignores"], {"p.py": "x: int = ''  # type: ignore[arg-type]\n"}),
    ("unused-ignore", ["--warn-unused-ignores"], {"p.py": "x: int = 1  # type: ignore\n"}),
    ("unused-ignore-not-warned", [], {"p.py": "x: int = 1  # type: ignore\n"}),
    ("error-disabled", ["--disable-error-code", "assignment"], {"p.py": "x: int = ''\n"}),
    ("error-disabled-reenabled", ["--disable-error-code", "assignment", "--enable-error-code", "assignment"], {"p.py": "x: int = ''\n"}),
    ("missing-import", [], {"p.py": "import nonexistent_module_xyz\n"}),
    ("missing-import-ignored", ["--ignore-missing-imports"], {"p.py": "import nonexistent_module_xyz\n"}),
    ("unchecked-annotation-note", [], {"p.py": "def f():\n    x: int = ''\n"}),
    ("note-text-has-error-marker", [], {"p.py": "from typing import Literal\nx: Literal[': error:'] = ': error:'\nreveal_type(x)\n"}),
    ("error-text-has-note-marker", [], {"p.py": "from typing import Literal\nx: Literal['a'] = ': note:'\n"}),
    ("error-text-has-note-marker-2", [], {"p.py": "from typing import Literal\nx: Literal['a'] = ': note:'\ny: int = ''\n"}),
    ("ignore-without-code", ["--enable-error-code", "ignore-without-code"], {"p.py": "x: int = ''  # type: ignore\n"}),
]


def run_main_inprocess(args: list[str]) -> tuple[RunResult, int, str, str]:
    """mypy.main.main in this process (what mypy.api.run does), recorded."""
    import io

    from mypy import main as mypy_main
    install_hooks()
    res = RunResult()
    out, err = io.StringIO(), io.StringIO()
    _REC.clear()
    _REC.update(on=True, events=res.events, out=res.out, order=res.order, flags=res.flags)
    code = 0
    try:
        mypy_main.main(args=args, stdout=out, stderr=err, clean_exit=True)
    except SystemExit as e:
        code = e.code if isinstance(e.code, int) else (0 if e.code is None else 1)
    except BaseException as e:
        res.crash = "%s: %s" % (type(e).__name__, str(e)[:200])
    finally:
        _REC["on"] = False
    return res, code, out.getvalue(), err.getvalue()


def main_name(files: dict[str, str]) -> str:
    return "p.py" if "p.py" in files else "main.py"


def cli_batch(args: tuple[list[Any], str, dict[str, Any], bool]) -> dict[str, Any]:
    """items: (key, flags, files{name: text}); every item is run through main.main in-process (recorded), TLC computes the
    specification's exit status from the recorded trace, and (optionally) the real `python -m mypy` subprocess is run too."""
    items, cache_dir, tables, with_subprocess = args
    work = scratch("c13-cli-")
    stats = {"cli_inprocess": 0, "cli_subprocess": 0, "skipped": {}, "exit_seen": {}}
    problems: list[dict[str, Any]] = []
    texts, metas = [], []
    extra: dict[str, Any] = {}
    for n, (key, flags, files) in enumerate(items):
        d = os.path.join(work, "r%d" % n)
        os.makedirs(d)
        for name, text in files.items():
            pth = os.path.join(d, name)
            os.makedirs(os.path.dirname(pth), exist_ok=True)
            with open(pth, "w", encoding="utf8") as f:
                f.write(text)
        os.chdir(d)
        main_file = main_name(files)
        # A-single-writer: every run gets its own copy of the warm (typeshed-only) cache
        import shutil
        shutil.copytree(cache_dir, os.path.join(d, ".cache_a"))
        argv = list(flags) + ["--no-site-packages", "--cache-dir", ".cache_a", "--show-traceback", main_file]
        res, code, out, err = run_main_inprocess(argv)
        stats["cli_inprocess"] += 1
        if res.crash:
            stats["skipped"]["crash"] = stats["skipped"].get("crash", 0) + 1
            continue
        if code == 2 and not res.out and not out.strip():
            stats["skipped"]["usage-error"] = stats["skipped"].get("usage-error", 0) + 1   # bad flags: no build happened
            continue
        ab = Abstractor()
        try:
            a = ab.abstract(res)
        except Skip as e:
            stats["skipped"][str(e)] = stats["skipped"].get(str(e), 0) + 1
            continue
        if len(a["ev"]) > MAX_TRACE:
            stats["skipped"]["trace-too-long"] = stats["skipped"].get("trace-too-long", 0) + 1
            continue
        for ident, desc in ab.code_objs.items():
            if ident not in tables["name"]:
                extra[ident] = desc
        sub = None
        if with_subprocess:
            shutil.copytree(cache_dir, os.path.join(d, ".cache_b"))
            argv_b = [".cache_b" if x == ".cache_a" else x for x in argv]
            p = subprocess.run([PY, "-m", "mypy"] + argv_b, cwd=d, env=repo_env(), capture_output=True, text=True, timeout=600)
            sub = (p.returncode, p.stdout)
            stats["cli_subprocess"] += 1
        nfiles = max(len(ab.files), 1)
        add_dis, add_en = flag_codes(list(flags))
        texts.append("[cfg |-> %s, ev |-> %s, addDis |-> %s, addEn |-> %s, vars |-> <<>>]" % (
            tla_cfg(a["cfg"], nfiles), tla_ev(a["ev"]), tla_value(set(add_dis)), tla_value(set(add_en))))
        metas.append((key, argv, files, a, ab, code, out, sub, nfiles))
    os.chdir("/")
    results = evaluate_cases_with_tlc(texts, tables, extra, "cli batch") if texts else []
    for (key, argv, files, a, ab, code, out, sub, nfiles), res in zip(metas, results):
        names = {i: p for p, i in ab.files.items()}
        rep = {"kind": "cli", "key": key, "argv": argv, "files": files, "stdout": out, "exit": code}
        model = as_list(res["out"])
        bad = None
        for i in range(1, nfiles + 1):
            if norm_out(a["out"].get(i, [])) != norm_out(model[i - 1]):
                bad = "%s: mypy printed %r; specification gives %r" % (names.get(i), norm_out(a["out"].get(i, [])), norm_out(model[i - 1]))
        if bad:
            problems.append(dict(rep, **{"class": "trace", "what": bad}))
            continue
        stats["exit_seen"][str(res["exit"])] = stats["exit_seen"].get(str(res["exit"]), 0) + 1   # by the specification's value
        main_cfg = a["cfg"].get(ab.files.get(main_name(files), -1))
        if key.startswith("exit-family::") and main_cfg is not None and (
                sorted(res["codes"]["enabled"]) != sorted(main_cfg["enabled"]) or sorted(res["codes"]["disabled"]) != sorted(main_cfg["disabled"])):
            problems.append(dict(rep, **{"class": "code-sets",
                                         "what": "mypy works with enabled=%s disabled=%s; the documented rule gives enabled=%s disabled=%s" % (
                                             sorted(main_cfg["enabled"]), sorted(main_cfg["disabled"]),
                                             sorted(res["codes"]["enabled"]), sorted(res["codes"]["disabled"]))}))
        if code != res["exit"]:
            errs = [ln for ln in out.splitlines() if re.match(r"^[^:\n]+:\d+(?::\d+)*: error: ", ln)]
            sig = None
            if code == 0 and res["exit"] == 1 and errs and all(": note:" in ln for ln in errs):
                sig = "exit:error-text-contains-note-marker"
            problems.append(dict(rep, **{"class": "exit", "sig": sig,
                                         "what": "main exits with %d; the specification's rule gives %d for the reported diagnostics:\n%s"
                                                 % (code, res["exit"], out[:600])}))
        if not res["iff"]:
            problems.append(dict(rep, **{"class": "iff", "what": "UnusedIff/NoCodeIff/ExitTruth false on the recorded run"}))
        if sub is not None and (sub[0] != code or sub[1] != out):
            problems.append(dict(rep, **{"class": "cli-differs", "what": "python -m mypy: exit %d, in-process main.main: exit %d; stdout equal: %r"
                                                                        % (sub[0], code, sub[1] == out)}))
    return {"stats": stats, "problems": problems}


def warm_cache(cache_dir: str) -> None:
    d = scratch("c13-warm-")
    with open(os.path.join(d, "w.py"), "w") as f:
        f.write("from typing import Literal, overload, Union, Callable\nimport sys\nx: int = 1\n")
    p = subprocess.run([PY, "-m", "mypy", "--no-site-packages", "--cache-dir", cache_dir, "w.py"], cwd=d, env=repo_env(),
                       capture_output=True, text=True, timeout=900)
    if p.returncode != 0:
        raise MachineryError("cache warm-up run failed: %s %s" % (p.stdout[-500:], p.stderr[-500:]))


# =========================================================================== main
def _parse_and_replay(lines: list[str]) -> tuple[int, list[tuple[dict[str, Any], str]], dict[str, int], Any]:
    from harness.common import TLCResult
    r = TLCResult()
    r.printed = lines
    hs = r.json_lines("HIST")
    kinds: dict[str, int] = {}
    for h in hs:
        for o in as_list(h["out"]):
            for it in o:
                kinds[it["msg"]["k"]] = kinds.get(it["msg"]["k"], 0) + 1
        if h["exit"] == 2:
            kinds["exit2"] = kinds.get("exit2", 0) + 1
    return len(hs), _replay_chunk(hs), kinds, (hs[len(hs) // 2] if hs else None)


def check_model_tables(tables: dict[str, Any]) -> None:
    """The slice of the code tables hard-wired in MC_Errors.tla must be what mypy has."""
    want_sub = {"method-assign": "assignment", "call-arg@misc": "misc"}
    mc = ["assignment", "method-assign", "truthy-bool", "misc", "literal-required", "unused-ignore", "ignore-without-code",
          "syntax", "call-arg", "call-arg@misc"]
    for c in mc:
        if c not in tables["name"]:
            raise MachineryError("MC_Errors.tla names the code %s that mypy.errorcodes does not have" % c)
        if tables["subof"].get(c) != want_sub.get(c):
            raise MachineryError("MC_Errors.tla: sub_code_of[%s] is %r in mypy" % (c, tables["subof"].get(c)))
        if (c in tables["default_on"]) != (c not in ("truthy-bool", "unused-ignore", "ignore-without-code")):
            raise MachineryError("MC_Errors.tla: default_enabled[%s] differs from mypy" % c)
    if tables["renamed"].get("literal-required") != "misc" or not {"misc", "assignment"} <= set(tables["hide_link"]):
        raise MachineryError("MC_Errors.tla: original_error_codes / HIDE_LINK_CODES slice differs from mypy")


def merge_stats(into: dict[str, Any], st: dict[str, Any]) -> None:
    for k, val in st.items():
        if isinstance(val, dict):
            d = into.setdefault(k, {})
            for kk, vv in val.items():
                d[kk] = d.get(kk, 0) + vv
        else:
            into[k] = into.get(k, 0) + val


def run_replay_file(path: str) -> int:
    """bin/vcheck C13 --replay <file>: re-run one recorded disagreement; exit 1 when it shows again."""
    with open(path) as f:
        rec = json.load(f)
    rp = rec["replay"]
    tables = real_code_tables()
    kind = rp.get("kind")
    if kind == "replay":
        bad = replay_history(rp["history"])
        print("replay into Errors:", bad or "agrees with the specification")
        return 1 if bad else 0
    if kind == "corpus":
        cases = {c.key: c for c in load_corpus(REPO) + generated_cases(REPO)}
        gen = rp["case"].startswith("generated::")
        r = process_cases(([cases[rp["case"]]], 0 if gen else rp.get("seed", 0), "thorough" if gen else rp.get("tier", "quick"), tables))
        hits = [q for q in r["problems"] if q["variant"] == rp["variant"]]
        for q in hits:
            print("%s %s [%s]: %s" % (q["class"], q["case"], q["variant"], q["what"]))
            print("  base output:   ", q.get("base_messages"))
            print("  variant output:", q.get("variant_messages"))
        if not hits:
            print("no disagreement for", rp["case"], rp["variant"])
        return 1 if hits else 0
    if kind == "cli":
        cache_dir = os.path.join(scratch("c13-cache-"), "cache")
        warm_cache(cache_dir)
        flags = [a for a in rp["argv"] if a not in ("--no-site-packages", "--show-traceback")]
        flags = [a for i, a in enumerate(flags[:-1]) if a != "--cache-dir" and (i == 0 or flags[i - 1] != "--cache-dir")]
        flags = [a for a in flags if not a.startswith(".cache_")]
        r = cli_batch(([(rp["key"], flags, rp["files"])], cache_dir, tables, True))
        for q in r["problems"]:
            print("%s %s: %s" % (q["class"], q["key"], q["what"]))
        return 1 if r["problems"] else 0
    if "trace" in rp:
        print(rp["trace"])
        return 1
    raise MachineryError("unknown replay record kind %r" % kind)


def main(argv: list[str]) -> int:
    tier, seed, replay = parse_args(argv)
    if replay:
        return run_replay_file(replay)
    v = Verdict(PID, tier, seed)
    rnd = random.Random(seed)
    ctx = get_context("fork")
    t_phase = time.time()
    # worker processes leave through os._exit: their scratch directories live under one root the parent removes
    os.environ["VERIF_SCRATCH"] = scratch("c13-")

    def phase(name: str) -> None:
        nonlocal t_phase
        print("[c13] %-34s %6.1fs" % (name, time.time() - t_phase), flush=True)
        t_phase = time.time()

    sany(os.path.join(SPEC, "MC_Errors.tla"))
    tables = real_code_tables()
    check_model_tables(tables)
    cov: dict[str, Any] = {}
    states = transitions = 0

    # ---- 1. TLC: properties on the bounded slices (+ emission of every behaviour), spec-level mutants
    gens = ["Gen_Errors_A.cfg", "Gen_Errors_B.cfg", "Gen_Errors_C.cfg"]
    mcs = ["MC_Errors_S.cfg"] if tier == "quick" else ["MC_Errors_S.cfg", "MC_Errors_A3.cfg"]
    muts = {"Mut_Errors_DisabledMarksUsed.cfg": "UnusedExact", "Mut_Errors_NoSubCodes.cfg": "Exactness",
            "Mut_Errors_BlockersIgnorable.cfg": "Exactness", "Mut_Errors_NoteOwnOrigin.cfg": "AttachedExact"}
    jobs = [(c, dict(workers=4, coverage=False, timeout=1500, heap="6g")) for c in gens] + \
           [(c, dict(workers=2 if c.endswith("_S.cfg") else 6, coverage=c.endswith("_S.cfg"), timeout=2400, heap="6g")) for c in mcs] + \
           [(c, dict(workers=1, coverage=False, timeout=600)) for c in muts]
    with ThreadPoolExecutor(len(jobs)) as ex:
        results = dict(zip([j[0] for j in jobs], ex.map(lambda j: tlc("MC_Errors", j[0], **j[1]), jobs)))
    for c, want in muts.items():
        if results[c].violated != want:
            raise MachineryError("specification mutant %s not rejected as expected: %s %s" % (c, results[c].violated, results[c].error))
    cov["spec_mutants_rejected"] = {c: results[c].violated for c in muts}
    for c in gens + mcs:
        r = results[c]
        if r.error:
            raise MachineryError("TLC %s: %s" % (c, r.error))
        if r.violated:
            v.violation("model:%s:%s" % (c, r.violated), {"cfg": c, "trace": r.trace_text[-6000:]},
                        "the rule as specified violates %s in %s" % (r.violated, c))
        states += r.distinct
        transitions += r.generated
        cov[c] = dict(coverage_summary(r) if r.coverage else {}, states=r.distinct, transitions=r.generated, wall_s=round(r.wall, 1))
        if r.coverage and r.never_fired():
            raise MachineryError("actions never fired in %s: %s" % (c, r.never_fired()))

    phase("TLC: properties, emission, mutants")
    # ---- 2. (a) replay of every emitted behaviour into a real Errors object
    replayed = 0
    kinds_seen: dict[str, int] = {}
    samples: list[Any] = []
    chunks: list[list[str]] = []
    for c in gens:
        lines = [ln for ln in results[c].printed if ln.startswith('<<"HIST"')]
        if len(lines) < 1000:
            raise MachineryError("too few behaviours emitted by %s: %d" % (c, len(lines)))
        n = max(1, len(lines) // (NCPU * 2))
        chunks += [lines[i:i + n] for i in range(0, len(lines), n)]
        results[c].printed = []
        results[c].out = ""
    replay_bad: list[tuple[dict[str, Any], str]] = []
    with ctx.Pool(NCPU) as pool:
        for n, bad, kinds, smp in pool.imap_unordered(_parse_and_replay, chunks):
            replayed += n
            replay_bad += bad
            for k, x in kinds.items():
                kinds_seen[k] = kinds_seen.get(k, 0) + x
            if smp is not None and len(samples) < 1:
                samples.append({"replayed_behaviour": {"cfg": smp["cfg"], "events": [
                    (e["t"], e["r"]["line"], e["r"]["code"], e["r"]["sev"]) for e in smp["ev"]], "model_and_real_output": smp["out"]}})
    if replayed == 0:
        raise MachineryError("no behaviour was replayed")
    for need in ("notcov", "unused", "nocode", "link", "changed", "exit2"):
        if not kinds_seen.get(need):
            raise MachineryError("replayed behaviours never produced a %s item: vacuous" % need)
    seen_keys = set()
    for h, bad in sorted(replay_bad, key=lambda x: len(x[0]["ev"])):
        k = history_key(h)
        if k in seen_keys:
            continue
        seen_keys.add(k)
        if len(seen_keys) <= 5:
            v.violation(k, {"kind": "replay", "history": h}, "real Errors object disagrees with the specification: " + bad)

    phase("replay into mypy.errors.Errors")
    # ---- 3. (b)+(c) corpus: recorded real runs validated by TLC; metamorphic placements
    corpus = load_corpus(REPO)
    gen_cases = generated_cases(REPO)
    if len(corpus) < 3000:
        raise MachineryError("corpus loader found only %d cases" % len(corpus))
    always = {"check-errorcodes.test::testErrorCodeUndefinedNameSuggestion", "check-errorcodes.test::testErrorCodeUndefinedNameSuggestionLocal",
              "check-functools.test::testFunctoolsPartialUnion", "check-errorcodes.test::testErrorCodeMultiLineBinaryOperatorOperand"}
    if tier == "quick":
        pool_cases = [c for c in corpus if c.key not in always]
        chosen = [c for c in corpus if c.key in always] + rnd.sample(pool_cases, 130)
    else:
        chosen = list(corpus)
        rnd.shuffle(chosen)
    B = 10 if tier == "quick" else 24
    batches = [(gen_cases[i:i + 4], 0, "thorough", tables) for i in range(0, len(gen_cases), 4)] + \
              [(chosen[i:i + B], seed, tier, tables) for i in range(0, len(chosen), B)]
    stats: dict[str, Any] = {}
    problems: list[dict[str, Any]] = []
    corpus_sample = None
    # ---- 4. command line: main.main in-process (recorded) + real subprocess; exit status
    cache_dir = os.path.join(scratch("c13-cache-"), "cache")
    warm_cache(cache_dir)
    cli_items: list[Any] = [("exit-family::" + k, fl, files) for k, fl, files in EXIT_FAMILY]
    ncli = 16 if tier == "quick" else 160
    for c in rnd.sample([c for c in corpus if not c.files or all(n.endswith((".py", ".pyi")) for n, _ in c.files)], ncli):
        files = {"main.py": c.main}
        files.update({n: t for n, t in c.files if n not in ("builtins.pyi", "typing.pyi", "_typeshed.pyi")})
        cli_items.append(("cli::" + c.key, [f for f in c.flags if not f.startswith("--python-version")], files))
    per = 4
    cli_batches = [(cli_items[i:i + per], cache_dir, tables, i < len(EXIT_FAMILY) or tier != "quick") for i in range(0, len(cli_items), per)]
    cli_stats: dict[str, Any] = {}
    cli_problems: list[dict[str, Any]] = []
    with ctx.Pool(NCPU) as pool:
        r_corpus = pool.imap_unordered(process_cases, batches)
        r_cli = pool.imap_unordered(cli_batch, cli_batches)
        for r in r_corpus:
            merge_stats(stats, r["stats"])
            problems += r["problems"]
            if corpus_sample is None and r["sample"]:
                corpus_sample = r["sample"]
        for r in r_cli:
            merge_stats(cli_stats, r["stats"])
            cli_problems += r["problems"]
    phase("corpus + command line")
    if not stats.get("traces") or not stats.get("metamorphic"):
        raise MachineryError("no recorded run was validated: conformance did not run")
    if not cli_stats.get("cli_inprocess") or not cli_stats.get("cli_subprocess"):
        raise MachineryError("the command-line binding did not run")
    for need in ("0", "1", "2"):
        if not cli_stats.get("exit_seen", {}).get(need):
            raise MachineryError("no command-line run exited with %s: exit-status check vacuous" % need)
    for need in ("ignore", "ignores", "disable", "enable"):
        if not stats.get("kinds", {}).get(need):
            raise MachineryError("no %s variant was explored" % need)

    by_key = {c.key: c for c in corpus + gen_cases}
    confirmed: dict[str, bool] = {}
    expanded = []
    for pr in problems:       # one disagreement may show two of the catalogued defects at once
        sigs = pr.get("sig")
        for sg in (sigs if isinstance(sigs, list) else [sigs]):
            expanded.append(dict(pr, sig=sg))
    for pr in expanded:
        cls = pr["class"]
        key = pr.get("sig") or "%s:%s:%s" % (cls, pr["case"], pr["variant"])
        if key in v.known or len(v.violations) >= 25:
            v.violation(key, None) if key in v.known else None
            continue
        # DESIGN 4.1: reproduce once more before printing
        ck = pr["case"]
        if ck not in confirmed:
            gen = ck.startswith("generated::")
            again = process_cases(([by_key[ck]], 0 if gen else seed, "thorough" if gen else tier, tables))
            confirmed[ck] = any(q["class"] == cls and q["variant"] == pr["variant"] for q in again["problems"])
            os.chdir(VERIF)
        if not confirmed[ck]:
            v.notes.append("not reproduced on re-run (dropped): %s" % key)
            continue
        v.violation(key, dict(pr, kind="corpus", seed=seed, tier=tier),
                    "%s %s [%s] flags %s: %s" % (cls, pr["case"], pr["variant"], pr["extras"], pr["what"]))
    for pr in cli_problems:
        key = pr.get("sig") or "%s:%s" % ("cli-" + pr["class"], pr["key"])
        v.violation(key, dict(pr, kind="cli"), "%s %s: %s" % (pr["class"], pr["key"], pr["what"]))

    n_traces = stats["traces"] + sum(cli_stats.get("exit_seen", {}).values())
    coverage = {
        "states": states, "transitions": transitions,
        "traces_validated_against_impl": replayed + n_traces,
        "behaviours_replayed_into_Errors": replayed,
        "recorded_runs_validated_by_tlc": n_traces,
        "metamorphic_variants_checked": stats["metamorphic"],
        "exactness_evaluated_on_real_traces": stats.get("exact_evals", 0),
        "corpus_cases_available": len(corpus), "corpus_cases_run": stats["cases"], "corpus_cases_with_diagnostics": stats["cases_with_output"],
        "generated_programs": len(gen_cases),
        "blocker_cases": stats.get("blocker_cases", 0),
        "real_mypy_builds": stats["runs"] + cli_stats["cli_inprocess"] + cli_stats["cli_subprocess"],
        "variant_kinds": stats.get("kinds", {}), "skipped": stats.get("skipped", {}),
        "cli": cli_stats,
        "evaluations": replayed + n_traces,
        "distinct_nontrivial": stats.get("nontrivial", 0),
        "rule": "replay: every behaviour TLC emits for Gen_Errors_A/B/C (all ignore maps x code sets x flag sets x report sequences of the "
                "bounded alphabets, <=2 reports); corpus: every single-step case of check-*.test (thorough) or a seeded sample of 130 + the "
                "cases with known findings (quick), plus %d generated programs always; per case: bare / right-code / all-codes / parent-code / "
                "wrong-code / wrong-code+unused-ignore ignores on up to %d diagnostic lines, multi-line subsets, --disable-error-code for "
                "present codes (and parents), disable+enable, --enable-error-code for default-off codes; non-trivial = a case in which at "
                "least one variant changed the output" % (len(gen_cases), 3 if tier == "quick" else 5),
        "replayed_item_kinds": kinds_seen,
        "samples": samples + ([{"corpus": corpus_sample}] if corpus_sample else []),
        "tlc": cov,
        "exhaustive": False,
        "exhaustive_parts": "the bounded model slices and their replay are exhaustive; the corpus is %s" % (
            "fully enumerated (placements capped per case)" if tier == "thorough" else "sampled"),
    }
    return v.finish("model_checking", coverage, [
        "A-small-errors: many_errors_threshold = -1 in every run",
        "A-fixtures: corpus runs use build.build in-process with the test fixtures exactly as mypy/test/testcheck.py does; the "
        "command-line sample uses the real typeshed through main.main and `python -m mypy`",
        "only-once messages and docs-link notes are program-level: Exactness lets them re-surface at the next report that carries them",
        "an ignore code counts as used only when an error carrying exactly that code was suppressed (mypy's 'use narrower' rule); "
        "unused-ignore / ignore-without-code diagnostics are decided by UnusedIff / NoCodeIff in every run, not by the no-other-line clause",
        "runs whose per-file ignore map or option sets change while errors are being reported (parse-time re-registration) and traces "
        "longer than %d events are counted under skipped, not judged" % MAX_TRACE,
        "notes are attached to an error when they were reported with it as parent_error or with its code and origin span (what Errors sees)",
    ])


if __name__ == "__main__":
    try:
        sys.exit(main(sys.argv[1:]))
    except MachineryError as e:
        print("MACHINERY FAILURE:", e, file=sys.stderr)
        sys.exit(2)
    except Exception:  # an unexpected failure of the machinery is never a verdict about mypy
        import traceback
        traceback.print_exc()
        print("MACHINERY FAILURE: unexpected failure of the machinery", file=sys.stderr)
        sys.exit(2)
