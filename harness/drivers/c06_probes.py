"""Probe programs for C06's dynamic binding (never imported by the harness itself).

harness/drivers/c06.py copies this file into a scratch directory twice: once compiled with the
working tree's mypyc into a C extension (module c06probes) and once as plain Python (module
c06probes_interp, the CPython baseline).  c06_runner (a string in the driver) calls every probe
repeatedly on tracked objects and reports sys.getrefcount deltas and outcomes.

Each function exercises a contract the ownership machine relies on (steals / borrows / error
edges / definedness checks).  Keep the functions small: the point is the op mix, not the logic.
"""
from __future__ import annotations

from typing import Any, Callable, Generator, Iterator, Optional


# ---------------------------------------------------------------- arguments, assignment, return
def ret_arg(x: object) -> object:
    return x


def ret_other(x: object, y: object, c: bool) -> object:
    if c:
        x = y
    return x


def swap_loop(x: object, y: object, n: int) -> object:
    for _ in range(n):
        x, y = y, x
    return x


def drop(x: object) -> None:
    y = x
    z = y
    y = z


def last_of(xs: list[object]) -> object:
    last: object = None
    for v in xs:
        last = v
    return last


def opt_arg(x: object, y: Optional[object] = None) -> object:
    if y is None:
        return x
    return y


def kw_args(x: object, *, a: object = None, b: object = None) -> object:
    return [x, a, b]


def star_call(x: object, y: object) -> object:
    args = (x, y)
    kw = {"a": y}
    return kw_args(*args[:1], **kw)


# ---------------------------------------------------------------- tuples (unboxed), boxing, unpacking
def mk_pair(x: object, y: object) -> tuple[object, object]:
    return (x, y)


def box_pair(x: object, y: object) -> object:
    t = (x, y)
    return t


def dup_steal(x: object) -> object:
    # an owned temporary stolen twice by one op
    y = [x]
    return (y, y)


def dup_steal_list(x: object) -> object:
    y = [x]
    return [y, y, y]


def unpack_first(t: tuple[object, object]) -> object:
    a, b = t
    return a


def unpack_call(x: object, y: object) -> object:
    a, b = mk_pair(x, y)
    return b


def nested_tuple(x: object, y: object) -> object:
    t = ((x, y), x)
    (a, b), c = t
    return [a, b, c]


def unbox_pair(o: Any) -> object:
    t: tuple[object, object] = o
    return t[1]


def tuple_loop(x: object, n: int) -> object:
    t = (x, x)
    for _ in range(n):
        t = (t[1], t[0])
    return t[0]


# ---------------------------------------------------------------- lists, dicts, sets
def list_build(x: object, y: object) -> object:
    return [x, y, x]


def list_get(xs: list[object], i: int) -> object:
    return xs[i]


def list_set(xs: list[object], i: int, x: object) -> None:
    xs[i] = x


def list_append_pop(x: object) -> object:
    xs: list[object] = []
    xs.append(x)
    xs.append(x)
    return xs.pop()


def list_comp(xs: list[object]) -> object:
    return [v for v in xs if v is not None]


def dict_roundtrip(k: object, v: object) -> object:
    d = {k: v}
    d[k] = k
    return d[k]


def dict_get(d: dict[object, object], k: object) -> object:
    return d[k]


def dict_iter(d: dict[object, object]) -> object:
    out: list[object] = []
    for k, v in d.items():
        out.append(k)
        out.append(v)
    return out


def set_ops(x: object, y: object) -> object:
    s = {x}
    s.add(y)
    s.discard(x)
    return s


# ---------------------------------------------------------------- strings, ints (tagged, refcounted when big)
def str_append(a: str, b: str) -> str:
    a += b
    a += b
    return a


def str_format(a: str, b: object) -> str:
    return f"{a}-{b}-{a}"


def str_join(xs: list[str], sep: str) -> str:
    return sep.join(xs)


def big_add(a: int, b: int) -> int:
    c = a + b
    c = c - b
    return c + 0


def int_loop(a: int, n: int) -> int:
    t = a
    for i in range(n):
        t = t + a
    return t


# ---------------------------------------------------------------- casts and unboxing that can fail
def cast_str(x: Any) -> str:
    return x


def cast_keep(x: Any) -> object:
    s: str = x
    return [s, x]


def unbox_int(x: Any) -> int:
    return x


def cast_list_item(x: object) -> str:
    y: Any = [x]
    return y[0]


def isinstance_narrow(x: object) -> object:
    if isinstance(x, str):
        return x + "!"
    if isinstance(x, int):
        return x + 1
    return x


# ---------------------------------------------------------------- native classes, attributes
class Box:
    def __init__(self, a: object) -> None:
        self.a = a


class Link:
    def __init__(self, b: Box) -> None:
        self.b = b
        self.n: Optional[Link] = None


class Maybe:
    def __init__(self, a: object, define: bool) -> None:
        if define:
            self.a = a


class Prop:
    def __init__(self) -> None:
        self._v: object = None

    @property
    def v(self) -> object:
        return self._v

    @v.setter
    def v(self, x: object) -> None:
        self._v = x


def attr_swap(b: Box, x: object) -> object:
    old = b.a
    b.a = x
    return old


def attr_chain(x: object) -> object:
    l = Link(Box(x))
    l.n = Link(Box(x))
    n = l.n
    assert n is not None
    return [l.b.a, n.b.a]


def attr_maybe(x: object, define: bool) -> object:
    return Maybe(x, define).a


def attr_del(x: object) -> object:
    m = Maybe(x, True)
    return m.a


def prop_set(x: object) -> object:
    p = Prop()
    p.v = x
    p.v = x
    return p.v


def make_box(x: object) -> Box:
    return Box(x)


def method_call(x: object) -> object:
    return make_box(x).a


# ---------------------------------------------------------------- calls that raise, try / except / finally
def call_raises(x: object, f: Any) -> object:
    y = [x]
    f()
    return y


def try_except(x: object, f: Any) -> object:
    y = [x]
    try:
        f()
    except ValueError:
        return (y, x)
    return y


def try_finally(x: object, f: Any) -> object:
    y = [x]
    try:
        f()
    finally:
        y.append(x)
    return y


def try_except_as(x: object, f: Any) -> object:
    try:
        f()
    except ValueError as e:
        return [x, e]
    except KeyError:
        raise
    return x


def nested_try(x: object, f: Any, g: Any) -> object:
    out = [x]
    try:
        try:
            f()
        finally:
            out.append(x)
            g()
    except KeyError:
        out.append(x)
    return out


def raise_with(x: object) -> object:
    raise ValueError(x)


def reraise_from(x: object, f: Any) -> object:
    try:
        f()
    except ValueError as e:
        raise KeyError(x) from e
    return x


class Ctx:
    def __init__(self, x: object, swallow: bool) -> None:
        self.x = x
        self.swallow = swallow

    def __enter__(self) -> object:
        return self.x

    def __exit__(self, a: object, b: object, c: object) -> bool:
        return self.swallow


def with_stmt(x: object, f: Any, swallow: bool) -> object:
    with Ctx(x, swallow) as v:
        f()
        return [v]
    return x


def loop_break(xs: list[object], f: Any) -> object:
    acc: list[object] = []
    for v in xs:
        try:
            f()
        except ValueError:
            break
        acc.append(v)
    return acc


# ---------------------------------------------------------------- definedness
def undef_local(c: bool, x: object) -> object:
    if c:
        y = x
    return y


def undef_after_del(x: object, c: bool) -> object:
    y = x
    if c:
        del y
    return y


def undef_int(c: bool) -> int:
    if c:
        n = 5
    return n + 1


def undef_in_loop(xs: list[object]) -> object:
    for v in xs:
        w = v
    return w


def undef_try(x: object, f: Any) -> object:
    try:
        f()
        y = x
    except ValueError:
        pass
    return y


# ---------------------------------------------------------------- closures, generators
def closure(x: object) -> object:
    def inner(y: object) -> object:
        return [x, y]
    return inner(x)


def lambda_capture(x: object) -> object:
    f: Callable[[], object] = lambda: x
    return f()


def gen_two(x: object) -> Iterator[object]:
    y = [x]
    yield y
    yield x


def gen_all(x: object) -> object:
    return list(gen_two(x))


def gen_partial(x: object) -> object:
    g = gen_two(x)
    return next(g)


def gen_send() -> Generator[object, object, object]:
    got = yield None
    got2 = yield got
    return [got, got2]


def gen_try(x: object) -> Iterator[object]:
    try:
        yield x
        yield [x]
    finally:
        x = None


def gen_temp(x: object, y: object) -> Generator[object, object, None]:
    # a temporary (the list) is live across the yield and has to be spilled
    z = [x] + [(yield y)]
    yield z


def gen_lit_bytes() -> Generator[int, bytes, bytes]:
    # a literal (borrowed from the module's statics) is live across the yield
    r = b"--c06-literal--" + (yield 1)
    return r


def lit_bytes() -> bytes:
    return b"--c06-literal--"


def gen_lit_tuple() -> Generator[int, object, object]:
    r = [(7, "c06-tuple-literal", 9), (yield 1)]
    return r


def lit_tuple() -> object:
    return (7, "c06-tuple-literal", 9)
