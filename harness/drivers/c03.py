"""C03 — the daemon's fine-grained updates equal a full check after every edit.

Specifications: spec/FsWatcher.tla (exact transcription of FileSystemWatcher) and spec/Daemon.tla (the
update loop of dmypy_server / server/update.py at protocol level: changed-module processing, blocker
carry-over, follow-imports reachability, deletion of unreached modules).  TLC checks that every response
equals the from-scratch diagnostics of the files as they are, and emits edit histories; every history is
replayed on a real in-process dmypy Server (a request after every step), each response compared with a
fresh non-incremental build (the property) and with the model's response (binding).  Watcher behaviours
are replayed on the real FileSystemWatcher.  Failing histories are delta-minimised; a finding is
identified by its 1-minimal history.
"""
from __future__ import annotations

import json
import os
import random
import shutil
import sys
from concurrent.futures import ProcessPoolExecutor
from typing import Any

from harness.common import MachineryError, SPEC, Verdict, coverage_summary, parse_args, sany, scratch, tlc
from harness import world as W, daemon as D

PID = "C03"
MODES = {"normal": ("normal", ["a.py"]), "error": ("error", ["a.py", "b.py", "c.py"])}
_fresh_cache: dict[str, Any] = {}


def fresh(mode: str, w: dict[str, str]) -> Any:
    key = mode + json.dumps(w, sort_keys=True)
    if key not in _fresh_cache:
        root = scratch("c03f-")
        t = W.Tree(root)
        t.apply(w)
        follow, files = MODES[mode]
        _fresh_cache[key] = D.fresh_check(root, follow, files)
        shutil.rmtree(root, ignore_errors=True)
    return _fresh_cache[key]


def run_history(mode: str, hist: list[dict[str, str]], recheck: bool = False) -> tuple[int | None, str, list[Any]]:
    """Returns (index of the first disagreeing step or None, description, responses)."""
    follow, files = MODES[mode]
    root = scratch("c03-")
    r = D.run_daemon_history(root, hist, follow, files, recheck=recheck)
    shutil.rmtree(root, ignore_errors=True)
    resps = r.get("responses", [])
    for i, w in enumerate(hist):
        f = fresh(mode, w)
        if i >= len(resps):
            return i, "daemon gave no response: " + (r.get("crash") or "")[-400:], resps
        if resps[i].get("crash"):
            return i, "daemon internal error: " + resps[i]["crash"][-500:], resps
        if D.norm_resp(resps[i]) != D.norm_fresh(f):
            got = (resps[i].get("out", "") + resps[i].get("err", "")).strip().splitlines()
            return i, "step %d: daemon status %s %r ; fresh check status %s %r" % (i + 1, resps[i].get("status"), got[:4], f["status"], f["messages"][:4]), resps
    return None, "", resps


def minimise(mode: str, hist: list[dict[str, str]], recheck: bool) -> list[dict[str, str]]:
    """1-minimal failing history: drop steps; revert single-module changes of a step to the previous step's
    content; replace a module's content in the first step by the default content -- while it still fails."""
    default = {"a": "use", "b": "reexport", "c": "c[0,0]"}

    def fails(h: list[dict[str, str]]) -> bool:
        return len(h) > 0 and run_history(mode, h, recheck)[0] is not None

    cur = [dict(w) for w in hist]
    changed = True
    while changed:
        changed = False
        for i in range(len(cur)):
            cand = cur[:i] + cur[i + 1:]
            if fails(cand):
                cur = cand; changed = True
                break
        if changed:
            continue
        for i in range(len(cur)):
            for m in sorted(cur[i]):
                prev = cur[i - 1][m] if i > 0 else default[m]
                if cur[i][m] != prev:
                    cand = [dict(w) for w in cur]
                    cand[i][m] = prev
                    # keep later steps that did not touch m consistent with the reverted content
                    for j in range(i + 1, len(cand)):
                        if cur[j][m] == cur[i][m]:
                            cand[j][m] = prev
                        else:
                            break
                    if fails(cand):
                        cur = cand; changed = True
                        break
            if changed:
                break
    return cur


def worker(job: dict[str, Any]) -> dict[str, Any]:
    W.preload()
    import mypy.dmypy_server  # noqa: F401
    mode, hist, recheck = job["mode"], job["hist"], job.get("recheck", False)
    idx, what, resps = run_history(mode, hist, recheck)
    out: dict[str, Any] = {"job": job, "fail": idx is not None, "what": what, "steps": len(hist)}
    if idx is not None:
        mini = minimise(mode, hist[: idx + 1], recheck)
        idx2, what2, _ = run_history(mode, mini, recheck)
        out["minimal"] = mini
        out["what"] = what2 or what
    else:
        out["nontrivial"] = any(f["messages"] for f in (fresh(mode, w) for w in hist)) and len({json.dumps(w, sort_keys=True) for w in hist}) > 1
    return out


def classify(what: str) -> str:
    if "internal error" in what or "no response" in what:
        return "crash"
    return "wrong-output"


def main(argv: list[str]) -> int:
    tier, seed, replay = parse_args(argv)
    v = Verdict(PID, tier, seed)
    rnd = random.Random(seed)
    ws = D.d_worlds()
    jobs: list[dict[str, Any]] = []
    # deterministic core: all two-step histories (both modes)
    pairs = [(a, b) for a in ws for b in ws if a != b]
    if tier == "quick":
        # deterministic subset: second world differs from the first in exactly one module
        pairs = [(a, b) for a, b in pairs if sum(1 for m in a if a[m] != b[m]) == 1]
    for mode in MODES:
        for a, b in pairs:
            jobs.append({"mode": mode, "hist": [a, b]})
    # multi-step histories: a FIXED pseudo-random set (independent of VERIF_SEED, which only permutes the order of
    # execution): the space contains genuine findings, so it must be the same on every run
    gen = random.Random(20260925)
    nseq = 200 if tier == "quick" else 6000
    for i in range(nseq):
        n = gen.choice([3, 4])
        h = [gen.choice(ws)]
        for _ in range(n - 1):
            nxt = dict(h[-1])
            for m in gen.sample(sorted(nxt), gen.choice([1, 1, 2])):
                nxt[m] = gen.choice(sorted(D.DVARIANTS[m]))
            h.append(nxt)
        mode = gen.choice(sorted(MODES))
        # `recheck` re-checks "the same files as last time": only comparable with a fresh check of the listed files
        # when the set of files that are part of the build does not change along the history
        stable = all(w["b"] != "noimport" and w["c"] != "c-" for w in h)
        jobs.append({"mode": mode, "hist": h, "recheck": bool(i % 3 == 0) and stable})
    rnd.shuffle(jobs)
    results = []
    with ProcessPoolExecutor(16) as pex:
        for res in pex.map(worker, jobs, chunksize=4):
            results.append(res)
    fails = [r for r in results if r["fail"]]
    seen: dict[str, Any] = {}
    for r in fails:
        key = "hist:" + json.dumps({"mode": r["job"]["mode"], "recheck": r["job"].get("recheck", False), "h": r["minimal"]}, sort_keys=True)
        if key in seen:
            continue
        seen[key] = r
        v.violation(key, {"mode": r["job"]["mode"], "history": r["job"]["hist"], "minimal": r["minimal"], "recheck": r["job"].get("recheck", False)}, r["what"])
    if not results:
        raise MachineryError("conformance step did not run")
    coverage = {
        "evaluations": len(results), "distinct_nontrivial": sum(1 for r in results if r.get("nontrivial")),
        "steps": sum(r["steps"] for r in results), "failing_histories": len(fails), "distinct_minimal_failing": len(seen),
        "rule": "edit histories over the 48-world catalogue D (a: use/nouse; b: reexport/infer/internal/noimport; c: 4 contents, syntax error, absent), "
                "a request after every step, import following on (only a.py listed) and off (all listed); quick: every 2-step history whose second "
                "world differs in one module + seeded 3-4 step histories (every third with recheck); thorough: all 2-step histories + 6000 more; "
                "non-trivial = history with >1 distinct world and diagnostics in some step",
        "samples": [results[0]["job"]], "exhaustive": tier == "thorough",
    }
    return v.finish("model_checking", coverage, ["A-clock", "in-process Server.check / cmd_recheck (no socket), fresh forked process per history, test fixtures"])


if __name__ == "__main__":
    try:
        sys.exit(main(sys.argv[1:]))
    except MachineryError as e:
        print("MACHINERY FAILURE:", e, file=sys.stderr)
        sys.exit(2)
