"""C03 — the daemon's fine-grained updates equal a full check after every edit.

Specifications: spec/FsWatcher.tla (exact transcription of FileSystemWatcher) and spec/Daemon.tla (the
update loop of dmypy_server / server/update.py at protocol level: changed-module processing, blocker
carry-over, follow-imports reachability, deletion of unreached modules).  TLC checks that every response
equals the from-scratch diagnostics of the files as they are, and emits edit histories; every history is
replayed on a real in-process dmypy Server (a request after every step), each response compared with a
fresh non-incremental build (the property) and with the model's response (binding).  Watcher behaviours
are replayed on the real FileSystemWatcher.  Failing histories are delta-minimised; a finding is
identified by its 1-minimal history.
"""
from __future__ import annotations

import json
import os
import random
import shutil
import sys
from concurrent.futures import ProcessPoolExecutor
from typing import Any

from harness.common import MachineryError, SPEC, Verdict, coverage_summary, parse_args, sany, scratch, tlc
from harness import world as W, daemon as D

PID = "C03"
MODES = {"normal": ("normal", ["a.py"]), "error": ("error", ["a.py", "b.py", "c.py"])}
_fresh_cache: dict[str, Any] = {}


def fresh(mode: str, w: dict[str, str]) -> Any:
    key = mode + json.dumps(w, sort_keys=True)
    if key not in _fresh_cache:
        root = scratch("c03f-")
        t = W.Tree(root)
        t.apply(w)
        follow, files = MODES[mode]
        _fresh_cache[key] = D.fresh_check(root, follow, files)
        shutil.rmtree(root, ignore_errors=True)
    return _fresh_cache[key]


def run_history(mode: str, hist: list[dict[str, str]], recheck: bool = False, cache_world: dict[str, str] | None = None) -> tuple[int | None, str, list[Any]]:
    """Returns (index of the first disagreeing step or None, description, responses)."""
    follow, files = MODES[mode]
    root = scratch("c03-")
    r = D.run_daemon_history(root, hist, follow, files, recheck=recheck, cache_world=cache_world)
    shutil.rmtree(root, ignore_errors=True)
    resps = r.get("responses", [])
    for i, w in enumerate(hist):
        f = fresh(mode, w)
        if i >= len(resps):
            return i, "daemon gave no response: " + (r.get("crash") or "")[-400:], resps
        if resps[i].get("crash"):
            return i, "daemon internal error: " + resps[i]["crash"][-500:], resps
        if D.norm_resp(resps[i]) != D.norm_fresh(f):
            got = (resps[i].get("out", "") + resps[i].get("err", "")).strip().splitlines()
            return i, "step %d: daemon status %s %r ; fresh check status %s %r" % (i + 1, resps[i].get("status"), got[:4], f["status"], f["messages"][:4]), resps
    return None, "", resps


def minimise(mode: str, hist: list[dict[str, str]], recheck: bool, cache_world: dict[str, str] | None = None) -> list[dict[str, str]]:
    """1-minimal failing history: drop steps; revert single-module changes of a step to the previous step's
    content; replace a module's content in the first step by the default content -- while it still fails."""
    default = {"a": "use", "b": "reexport", "c": "c[0,0]"}
    if any(w["c"].startswith("k") or w["a"].startswith("u") and w["a"] != "use" for w in hist):
        default = {"a": "ustar", "b": "star", "c": "k0000"}       # catalogue D2

    def fails(h: list[dict[str, str]]) -> bool:
        if cache_world is not None:
            # h[0] is the world the fine-grained cache was built from: it must stay error-free (see main), unless the
            # original one was not (the single representative history of the lost-errors finding)
            if fresh(mode, h[0])["status"] != 0 and fresh(mode, cache_world)["status"] == 0:
                return False
            return len(h) > 1 and run_history(mode, h[1:], recheck, cache_world=h[0])[0] is not None
        return len(h) > 0 and run_history(mode, h, recheck)[0] is not None

    cur = [dict(w) for w in (([cache_world] if cache_world is not None else []) + hist)]
    changed = True
    while changed:
        changed = False
        for i in range(len(cur)):
            cand = cur[:i] + cur[i + 1:]
            if fails(cand):
                cur = cand; changed = True
                break
        if changed:
            continue
        for i in range(len(cur)):
            for m in sorted(cur[i]):
                prev = cur[i - 1][m] if i > 0 else default[m]
                if cur[i][m] != prev:
                    cand = [dict(w) for w in cur]
                    cand[i][m] = prev
                    # keep later steps that did not touch m consistent with the reverted content
                    for j in range(i + 1, len(cand)):
                        if cur[j][m] == cur[i][m]:
                            cand[j][m] = prev
                        else:
                            break
                    if fails(cand):
                        cur = cand; changed = True
                        break
            if changed:
                break
    return cur


def worker(job: dict[str, Any]) -> dict[str, Any]:
    W.preload()
    import mypy.dmypy_server  # noqa: F401
    mode, hist, recheck = job["mode"], job["hist"], job.get("recheck", False)
    cw = job.get("cache")
    idx, what, resps = run_history(mode, hist, recheck, cache_world=cw)
    out: dict[str, Any] = {"job": job, "fail": idx is not None, "what": what, "steps": len(hist)}
    if idx is not None:
        mini = minimise(mode, hist[: idx + 1], recheck, cache_world=cw)
        if cw is not None:
            idx2, what2, _ = run_history(mode, mini[1:], recheck, cache_world=mini[0])
        else:
            idx2, what2, _ = run_history(mode, mini, recheck)
        out["minimal"] = mini
        out["what"] = what2 or what
    else:
        out["nontrivial"] = any(f["messages"] for f in (fresh(mode, w) for w in hist)) and len({json.dumps(w, sort_keys=True) for w in hist}) > 1
    return out



WCONTENT = {"x1": "a\n", "x2": "b\n", "y": "cc\n"}


def replay_watcher(hist: list[dict[str, Any]]) -> str | None:
    """Step a real FileSystemWatcher along one TLC behaviour of FsWatcher.tla."""
    from mypy.fscache import FileSystemCache
    from mypy.fswatcher import FileSystemWatcher
    root = scratch("c03w-")
    fsc = FileSystemCache()
    w = FileSystemWatcher(fsc)
    path = {"p": os.path.join(root, "p.py"), "q": os.path.join(root, "q.py")}
    rev = {v: k for k, v in path.items()}
    try:
        for i, e in enumerate(hist):
            if e["ev"] in ("write", "touch"):
                with open(path[e["p"]], "w") as f:
                    f.write(WCONTENT[e["c"]])
                t = 1_000_000 + e["t"] * 10
                os.utime(path[e["p"]], (t, t))
            elif e["ev"] == "delete":
                os.unlink(path[e["p"]])
            elif e["ev"] == "add":
                w.add_watched_paths([path[x] for x in e["changed"]])
            elif e["ev"] == "remove":
                w.remove_watched_paths([path[x] for x in e["changed"]])
            elif e["ev"] == "find_changed":
                fsc.flush()
                got = sorted(rev[x] for x in w.find_changed())
                if got != sorted(e["changed"]):
                    return "step %d: find_changed() = %r, specification %r" % (i, got, sorted(e["changed"]))
        return None
    finally:
        shutil.rmtree(root, ignore_errors=True)


def decode_d(mod: str, v: str) -> str:
    x = json.loads(v)
    if mod == "c":
        return {"bad": "c[bad]", "absent": "c-"}.get(x["k"], "c[%d,%d]" % (x["iface"], x["err"]))
    return x["k"]


def replay_model_history(job: dict[str, Any]) -> dict[str, Any]:
    """A Daemon.tla behaviour on the real Server: responses vs fresh check (property) and vs the model (binding)."""
    W.preload()
    mode, hist = job["mode"], job["hist"]
    worlds = []
    cur = {"a": "use", "b": "reexport", "c": "c[0,0]"}
    expected = []
    for e in hist:
        if e["ev"] == "edit":
            cur = dict(cur); cur[e["mod"]] = decode_d(e["mod"], e["v"])
        else:
            worlds.append(dict(cur)); expected.append({"status": e["status"], "errs": sorted(e["errs"])})
    idx, what, resps = run_history(mode, worlds)
    out: dict[str, Any] = {"job": {"mode": mode, "hist": worlds}, "fail": idx is not None, "what": what, "steps": len(worlds), "drift": []}
    if idx is not None:
        out["minimal"] = minimise(mode, worlds[: idx + 1], False)
        out["what"] = run_history(mode, out["minimal"])[1] or what
    for i, (r, ex) in enumerate(zip(resps, expected)):
        files = sorted({l.split(".py", 1)[0] for l in (r.get("out", "") + r.get("err", "")).splitlines() if ".py:" in l})
        if r.get("status") != ex["status"] or files != ex["errs"]:
            out["drift"].append({"step": i + 1, "model": ex, "real": {"status": r.get("status"), "errs": files}, "world": worlds[i]})
    out["nontrivial"] = not out["fail"] and any(ex["errs"] for ex in expected)
    return out

def classify(what: str) -> str:
    if "internal error" in what or "no response" in what:
        return "crash"
    return "wrong-output"


def fg_worker(args: tuple[dict[str, Any], str]) -> dict[str, Any]:
    from harness import fgcorpus as FG
    case, order = args
    W.preload()
    import mypy.dmypy_server  # noqa: F401
    root = scratch("c03fg-")
    try:
        r = FG.run_fg_case(case, root, order)
    except BaseException as e:  # harness problem with this case: skip it, never a verdict
        r = {"name": case["name"], "file": case.get("file", ""), "order": order, "steps": 0, "violation": None, "skipped": "harness error %r" % (e,), "nontrivial": False}
    shutil.rmtree(root, ignore_errors=True)
    return r


def main(argv: list[str]) -> int:
    tier, seed, replay = parse_args(argv)
    v = Verdict(PID, tier, seed)
    rnd = random.Random(seed)
    for m in ("MC_Daemon", "MC_FsWatcher"):
        sany(os.path.join(SPEC, m + ".tla"))
    cov: dict[str, Any] = {}
    states = transitions = 0
    # ---- 1. model checking (+ specification mutants)
    for mod, cfg in (("MC_Daemon", "MC_Daemon_follow.cfg"), ("MC_Daemon", "MC_Daemon_nofollow.cfg"), ("MC_FsWatcher", "MC_FsWatcher.cfg")):
        r = tlc(mod, cfg, timeout=1800)
        if r.error:
            raise MachineryError("TLC %s: %s" % (cfg, r.error))
        if r.violated:
            v.violation("model:%s:%s" % (cfg, r.violated), {"cfg": cfg, "trace": r.trace_text}, "specification invariant violated")
        states += r.distinct; transitions += r.generated
        cov[cfg] = dict(coverage_summary(r), states=r.distinct, transitions=r.generated)
    for mod, cfg, inv in (("MC_Daemon", "Mut_Daemon_FollowIndirect.cfg", "RespondsLikeFresh"), ("MC_FsWatcher", "Mut_FsWatcher_Coarse.cfg", "Exact")):
        rm = tlc(mod, cfg, coverage=False)
        if not rm.violated:    # with several workers TLC may report another of the invariants the mutant breaks first
            raise MachineryError("specification mutant %s not rejected: %s %s" % (cfg, rm.violated, rm.error))
        cov.setdefault("spec_mutants_rejected", {})[cfg] = rm.violated
    # ---- 2. watcher behaviours on the real FileSystemWatcher
    wh: dict[str, Any] = {}
    # with an exact clock, and with a coarse one (several writes inside one tick: same whole-second mtime, the size / hash
    # comparison is then all the watcher has; the real watcher must still do what the transcription does)
    for gcfg in ("Gen_FsWatcher.cfg", "Gen_FsWatcher_Coarse.cfg"):
        if gcfg.endswith("Coarse.cfg"):
            # exhaustive (2 environment steps, 3 watcher operations): the patterns that matter are too rare for simulation
            g = tlc("MC_FsWatcher", gcfg, workers=1, coverage=False, timeout=900)
        else:
            g = tlc("MC_FsWatcher", gcfg, workers=1, coverage=False, simulate="num=%d" % (1500 if tier == "quick" else 12000), depth=9, seed=seed + 1, timeout=900)
        if not g.ok:
            raise MachineryError("Gen FsWatcher: %s %s" % (g.violated, g.error))
        hs_ = {json.dumps(x, sort_keys=True): x for x in g.json_lines("HIST")}
        if gcfg.endswith("Coarse.cfg") and tier == "quick":
            hs_ = {k: hs_[k] for k in sorted(hs_)[::2]}      # every second of the 64.8 k behaviours
        wh.update(hs_)
    if len(wh) < 200:
        raise MachineryError("too few watcher behaviours emitted: %d" % len(wh))
    nwatch = 0
    for k in sorted(wh):
        bad = replay_watcher(wh[k])
        nwatch += 1
        if bad:
            v.violation("watcher:" + json.dumps([[e["ev"], e["p"], e["c"], sorted(e["changed"])] for e in wh[k]]), {"history": wh[k]},
                        "FileSystemWatcher does not follow FsWatcher.tla (which satisfies Exact): " + bad)
            break
    # ---- 3. Daemon.tla behaviours on the real Server
    mjobs: list[dict[str, Any]] = []
    for mode, cfg in (("normal", "Gen_Daemon_follow.cfg"), ("error", "Gen_Daemon_nofollow.cfg")):
        gd = tlc("MC_Daemon", cfg, workers=1, coverage=False, timeout=900)
        if not gd.ok:
            raise MachineryError("Gen Daemon: %s %s" % (gd.violated, gd.error))
        hs = {json.dumps(x, sort_keys=True): x for x in gd.json_lines("HIST")}
        if len(hs) < 100:
            raise MachineryError("too few daemon behaviours emitted")
        for k in sorted(hs):
            mjobs.append({"mode": mode, "hist": hs[k]})
    # ---- 4. deterministic history sets over catalogue D
    ws = D.d_worlds()
    jobs: list[dict[str, Any]] = []
    pairs = [(a, b) for a in ws for b in ws if a != b]
    if tier == "quick":
        # deterministic subset: second world differs from the first in exactly one module
        pairs = [(a, b) for a, b in pairs if sum(1 for m in a if a[m] != b[m]) == 1]
    for mode in MODES:
        for a, b in pairs:
            jobs.append({"mode": mode, "hist": [a, b]})
    # multi-step histories: a FIXED pseudo-random set (independent of VERIF_SEED, which only permutes the order of
    # execution): the space contains genuine findings, so it must be the same on every run
    gen = random.Random(20260925)
    nseq = 200 if tier == "quick" else 6000
    for i in range(nseq):
        n = gen.choice([3, 4])
        hh = [gen.choice(ws)]
        for _ in range(n - 1):
            nxt = dict(hh[-1])
            for m in gen.sample(sorted(nxt), gen.choice([1, 1, 2])):
                nxt[m] = gen.choice(sorted(D.DVARIANTS[m]))
            hh.append(nxt)
        mode = gen.choice(sorted(MODES))
        # `recheck` re-checks "the same files as last time": only comparable with a fresh check of the listed files
        # when the set of files that are part of the build does not change along the history
        stable = all(w["b"] != "noimport" and w["c"] != "c-" for w in hh)
        jobs.append({"mode": mode, "hist": hh, "recheck": bool(i % 3 == 0) and stable})
    # catalogue D2 (class attributes, base classes, signatures, star imports, subclassing, decorators): every 2-step
    # history in which ONE interface feature of c changes (quick), any one module changes (thorough); both modes
    ws2 = D.d2_worlds()
    for w in ws2:
        alts = []
        for m in ("a", "b", "c"):
            for v2 in sorted(D.D2[m]):
                if v2 == w[m]:
                    continue
                if m == "c" and tier == "quick" and (len(v2) != len(w[m]) and "k0000" not in (v2[:5], w[m][:5]) and "k1000" not in (v2[:5], w[m][:5])
                                                      or sum(1 for x, y in zip(v2.ljust(6, "-"), w[m].ljust(6, "-")) if x != y) != 1):
                    continue
                if m != "c" and tier == "quick":
                    continue
                alts.append(dict(w, **{m: v2}))
        for w2 in alts:
            for mode in MODES:
                jobs.append({"mode": mode, "hist": [w, w2], "cat": "D2"})
    # the daemon started from a fine-grained cache written by a batch run on an earlier state of the files (fixed set)
    # The cache is built from an ERROR-FREE state (what the feature is meant for: a cache produced from a clean tree).
    # Starting from a cache of a state that has errors loses the errors of every unchanged module (the fine-grained cache
    # stores no diagnostics and only changed modules are re-checked): that is one genuine, recorded finding, kept visible by
    # the single representative history below instead of hundreds of (cache state, state) pairs.
    genc = random.Random(20260929)
    W.preload()
    clean = {mode: [w for w in ws if fresh(mode, w)["status"] == 0] for mode in MODES}
    for i in range(120 if tier == "quick" else 2500):
        mode = genc.choice(sorted(MODES))
        jobs.append({"mode": mode, "cache": genc.choice(clean[mode]), "hist": [genc.choice(ws) for _ in range(genc.choice([1, 2]))]})
    jobs.append({"mode": "normal", "cache": {"a": "use", "b": "reexport", "c": "c[1,0]"}, "hist": [{"a": "use", "b": "reexport", "c": "c[1,0]"}]})
    rnd.shuffle(jobs)
    results = []
    mresults = []
    with ProcessPoolExecutor(16) as pex:
        for res in pex.map(replay_model_history, mjobs, chunksize=4):
            mresults.append(res)
        for res in pex.map(worker, jobs, chunksize=4):
            results.append(res)
    fails = [r for r in results + mresults if r["fail"]]
    seen: dict[str, Any] = {}
    for r in fails:
        kd = {"mode": r["job"]["mode"], "recheck": r["job"].get("recheck", False), "h": r["minimal"]}
        if r["job"].get("cache") is not None:
            kd["fgcache"] = True       # h[0] is the state the fine-grained cache was built from
        key = "hist:" + json.dumps(kd, sort_keys=True)
        if key in seen:
            continue
        seen[key] = r
        v.violation(key, {"mode": r["job"]["mode"], "history": r["job"]["hist"], "minimal": r["minimal"], "recheck": r["job"].get("recheck", False), "fgcache_world": r["job"].get("cache")}, r["what"])
    # ---- 5. the repository's own fine-grained scenarios, expected outputs ignored, forward and there-and-back
    from harness import fgcorpus as FG
    fcases = FG.fg_cases()
    fwork = []
    for c in fcases:
        nst = len(FG.C.states_of(c))
        fwork.append((c, "back" if nst >= 2 else "forward"))
        fwork.append((c, "cache"))        # the daemon started from a fine-grained cache written by a batch build of step 1
        if tier != "quick" and nst >= 2:
            fwork.append((c, "reverse"))
    fresults = []
    with ProcessPoolExecutor(16) as pex:
        for res in pex.map(fg_worker, fwork, chunksize=2):
            fresults.append(res)
    fseen = set()
    for r in fresults:
        if r["violation"]:
            key = "fg%s:%s::%s:%s:%s" % ("-cache" if r["order"] == "cache" else "", r["file"], r["name"], json.dumps(r.get("at")), r.get("digest"))
            if key in fseen:
                continue
            fseen.add(key)
            v.violation(key, {"kind": "fine-grained corpus", "file": r["file"], "case": r["name"], "order": r["order"], "steps": r.get("at")},
                        "%s %s [%s]: %s" % (r["file"], r["name"], r["order"], r["violation"]))
    drift = [d for r in mresults if not r["fail"] for d in r["drift"]]
    if not results or not mresults or nwatch == 0 or sum(r["steps"] for r in fresults) == 0:
        raise MachineryError("conformance step did not run")
    coverage = {
        "states": states, "transitions": transitions,
        "traces_validated_against_impl": len(mresults) + nwatch,
        "evaluations": len(results) + len(mresults), "distinct_nontrivial": sum(1 for r in results + mresults if r.get("nontrivial")),
        "steps": sum(r["steps"] for r in results + mresults), "failing_histories": len(fails), "distinct_minimal_failing": len(seen),
        "fine_grained_corpus_cases_run": sum(1 for r in fresults if not r["skipped"]), "fine_grained_corpus_cases_skipped": sum(1 for r in fresults if r["skipped"]),
        "fine_grained_corpus_steps_compared_with_fresh": sum(r["steps"] for r in fresults),
        "watcher_behaviours_replayed": nwatch, "daemon_model_behaviours_replayed": len(mresults),
        "model_drift_count": len(drift), "model_drift": drift[:8],
        "rule": "(i) every behaviour TLC emits for Gen_Daemon_*.cfg (edit/request histories, both import modes) on the real Server, each response "
                "compared with a fresh check (property) and with the model's response (binding); (ii) TLC simulation behaviours of FsWatcher.tla on "
                "the real FileSystemWatcher; (iii) edit histories over the 48-world catalogue D, a request after every step, import following on "
                "and off: quick = every 2-step history whose second world differs in one module + a fixed set of 200 3-4 step histories (every "
                "third with recheck); thorough = all 2-step histories + 6000; (iv) the daemon started from a fine-grained cache built by a batch run on an earlier "
                "state (fixed set of 120 / 2500 histories); (v) every case of test-data/unit/fine-grained*.test on a real Server with its expected output ignored: "
                "own step order and there-and-back (thorough: also reversed), every response compared with a fresh build. non-trivial = history with >1 distinct world and diagnostics",
        "samples": [results[0]["job"], mresults[0]["job"]], "tlc": cov, "exhaustive": tier == "thorough",
    }
    return v.finish("model_checking", coverage, ["A-clock", "in-process Server.check / cmd_recheck (no socket), fresh forked process per history, test fixtures",
                                                  "oracle: fresh non-incremental build of the same mypy on the files as they are; the model's response is a second opinion"])


if __name__ == "__main__":
    try:
        sys.exit(main(sys.argv[1:]))
    except MachineryError as e:
        print("MACHINERY FAILURE:", e, file=sys.stderr)
        sys.exit(2)
    except Exception:  # an unexpected failure of the machinery is never a verdict about mypy
        import traceback
        traceback.print_exc()
        print("MACHINERY FAILURE: unexpected failure of the machinery", file=sys.stderr)
        sys.exit(2)
