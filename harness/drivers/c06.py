"""C06 -- compiled code is memory safe: balanced reference counts, no undefined reads.

Specification: spec/Ownership.tla, an abstract machine that *executes* mypyc function IR given
as data (module OwnData, generated here) and tracks, per IR value, the references the activation
owns through it, its definedness / NULL-ness and whom it is borrowed from.  TLC walks every
feasible CFG path of every exported function; the invariants are NoLeak, NoDoubleRelease,
NoUndefRead and NoUseAfterRelease.

Binding.  (1) The IR is the real artefact: it is produced by the working tree's own pipeline
(mypyc.codegen.emitmodule.parse_and_typecheck + compile_modules_to_ir, i.e. the real
compile_scc_to_ir with the real transforms in the real order) from the programs of the
repository's mypyc test corpus, snapshotted right after insert_ref_count_opcodes (through a
wrapper) and at the end, and exported generically from the ops' own attributes.  (2) The rules of
the machine (the contracts it reads off the ops: stolen(), is_borrowed, error_kind) are bound to
the generated C: probe programs are compiled to a C extension from the working tree and executed
in a child process on tracked objects; for every probe call the machine's prediction (set of exit
kinds of the function's paths, net change 0 of every tracked object's reference count) is compared
with sys.getrefcount deltas / the observed outcome, exceptions are compared with CPython running
the same source interpreted, and a crash of the child is a violation.
"""
from __future__ import annotations

import json
import os
import random
import re
import shutil
import subprocess
import sys
import time
from concurrent.futures import ProcessPoolExecutor, ThreadPoolExecutor
from typing import Any

from harness.common import (MachineryError, PY, REPO, SPEC, VERIF, Verdict, coverage_summary,
                            parse_args, repo_env, sany, scratch, tlc)

PID = "C06"

CORPUS_DIR = os.path.join(REPO, "mypyc", "test-data")


# =========================================================================== corpus
def corpus_files() -> list[str]:
    names = sorted(os.listdir(CORPUS_DIR))
    keep = []
    for n in names:
        if not n.endswith(".test"):
            continue
        if n.startswith(("irbuild-", "run-", "refcount", "exceptions", "lowering-", "opt-",
                         "alwaysdefined", "analysis")):
            keep.append(n)
    return keep


_CASE_RE = re.compile(r"^\[case ([^\]]+)\][ \t]*$\n", re.M)


def split_cases(path: str) -> list[tuple[str, str]]:
    with open(path, encoding="utf-8") as f:
        data = f.read()
    parts = _CASE_RE.split(data)
    res = []
    for i in range(1, len(parts), 2):
        res.append((parts[i], parts[i + 1]))
    return res


# =========================================================================== IR export (runs in worker processes)
def _leaves(t: Any) -> int:
    from mypyc.ir.rtypes import RStruct, RTuple
    if isinstance(t, (RTuple, RStruct)):
        return sum(_leaves(x) for x in t.types)
    return 1 if t.is_refcounted else 0


SPILL_PREFIX = "__mypyc_temp__2_"  # mypyc.common.TEMP_ATTR_NAME + "2_", see transform/spill.py


def export_func(fn: Any) -> dict[str, Any]:
    """One FuncIR -> the record Ownership.tla executes.  Everything is read off the ops' own
    attributes (sources(), stolen(), is_borrowed, error_kind, type, ...)."""
    from mypyc.ir import ops as O
    from mypyc.ir.rtypes import RTuple

    ids: dict[Any, int] = {}
    vals: list[Any] = []

    def vid(v: Any) -> int:
        if isinstance(v, (O.Integer, O.Float, O.CString, O.Undef)):
            return 0
        i = ids.get(v)
        if i is None:
            i = ids[v] = len(ids) + 1
            vals.append(v)
        return i

    for a in fn.arg_regs:
        vid(a)
    labels = {b: i + 1 for i, b in enumerate(fn.blocks)}
    # values whose definition is followed somewhere by an error test although the defining op
    # declares error_kind NEVER (e.g. the generator helper call): they may be NULL
    tested = set()
    for b in fn.blocks:
        for op in b.ops:
            if isinstance(op, O.Branch) and op.op == O.Branch.IS_ERROR:
                tested.add(op.value)
    blocks = []
    meta = []
    for b in fn.blocks:
        ops = []
        mops = []
        for op in b.ops:
            name = type(op).__name__
            s_ = [vid(x) for x in op.sources()]
            st_ = [vid(x) for x in op.stolen()]
            r: dict[str, Any]
            if isinstance(op, O.Assign):
                if isinstance(op.src, O.Undef):
                    r = dict(k="assignundef", d=vid(op.dest))
                else:
                    r = dict(k="assign", d=vid(op.dest), s=s_, st=st_)
            elif isinstance(op, O.Goto):
                r = dict(k="goto", t=labels[op.label])
            elif isinstance(op, O.Branch):
                c = 9
                if isinstance(op.value, O.Integer):
                    c = 1 if op.value.value != 0 else 0
                r = dict(k="branch", s=s_, t=labels[op.true], f=labels[op.false],
                         iserr=(op.op == O.Branch.IS_ERROR), neg=bool(op.negated), c=c)
            elif isinstance(op, O.Return):
                r = dict(k="ret", s=s_, st=st_)
            elif isinstance(op, O.Unreachable):
                r = dict(k="unreach")
            elif isinstance(op, O.IncRef):
                r = dict(k="inc", s=s_)
            elif isinstance(op, O.DecRef):
                r = dict(k="dec", s=s_, x=bool(op.is_xdec))
            elif isinstance(op, O.LoadErrorValue):
                r = dict(k="lev", d=vid(op), x=bool(op.undefines))
            elif isinstance(op, O.LoadAddress):
                r = dict(k="addr", d=vid(op), s=s_)
            elif isinstance(op, O.Unborrow):
                src = op.src
                lo = 0
                while isinstance(src, O.TupleGet) and src.is_borrowed:
                    t = src.src.type
                    assert isinstance(t, RTuple)
                    lo += sum(_leaves(x) for x in t.types[:src.index])
                    src = src.src
                r = dict(k="unborrow", d=vid(op), s=s_, root=0 if src is op.src else vid(src), lo=lo)
            else:
                if not isinstance(op, (O.RegisterOp, O.AssignMulti, O.SetMem)):
                    raise MachineryError("unknown op class %s" % name)
                d = 0
                if isinstance(op, O.AssignMulti):
                    d = vid(op.dest)
                elif not op.is_void:
                    d = vid(op)
                rn = False
                ln = 0
                if isinstance(op, O.CallC):
                    rn = bool(op.returns_null)
                    name = "CallC:" + op.function_name
                elif isinstance(op, O.PrimitiveOp):
                    name = "PrimitiveOp:" + op.desc.name
                elif isinstance(op, O.GetAttr):
                    rn = bool(op.allow_error_value)
                    name = "GetAttr:" + op.attr
                elif isinstance(op, O.SetAttr):
                    name = "SetAttr:" + op.attr
                elif isinstance(op, (O.Call, O.MethodCall)):
                    name = name + ":" + (op.fn.shortname if isinstance(op, O.Call) else op.method)
                if op.error_kind == O.ERR_NEVER and op in tested and isinstance(op, (O.Call, O.MethodCall)):
                    rn = True  # a native call whose error handling was customised by the IR builder
                ek = int(op.error_kind)
                nok: list[int] = []
                if isinstance(op, O.GetAttr) and op.attr.startswith(SPILL_PREFIX) and op not in tested:
                    # a read of a spill slot (transform/spill.py inserts it after exception
                    # handling, so it has no error branch): defined by construction of the spill
                    ek = 0
                if isinstance(op, O.SetAttr) and not op.is_propset:
                    nok = [vid(op.src)]  # storing an error value (= clearing the slot) is fine
                if op.is_borrowed:
                    if isinstance(op, O.GetAttr):
                        ln = vid(op.obj)
                    elif isinstance(op, O.Cast):
                        ln = vid(op.src)
                    elif isinstance(op, O.LoadMem):
                        ln = -3  # lent by the memory cell
                r = dict(k="op", d=d, s=s_, st=st_, bw=bool(op.is_borrowed), ek=ek, rn=rn, ln=ln, nok=nok)
                if isinstance(op, O.TupleGet):
                    t = op.src.type
                    r["k"] = "tget"
                    r["lo"] = sum(_leaves(x) for x in t.types[:op.index])
            ops.append(r)
            mops.append((name, op.line))
        blocks.append(ops)
        meta.append(mops)
    n = len(vals)
    w = [_leaves(v.type) for v in vals]
    base = []
    acc = 0
    for x in w:
        base.append(acc)
        acc += x
    # named locals without an overlapping error value: mypyc guards their reads with an is_error test
    nm = [bool(isinstance(v, O.Register) and v.name and not v.type.error_overlap) for v in vals]
    opt = []
    sig_args = fn.decl.sig.args
    if len(sig_args) == len(fn.arg_regs):
        for a, ra in zip(fn.arg_regs, sig_args):
            # an absent optional argument arrives as the error value (types whose error value
            # overlaps a real value use a bitmap argument instead)
            if ra.optional and not a.type.error_overlap:
                opt.append(ids[a])
    return dict(nv=n, na=len(fn.arg_regs), ns=acc, opt=opt, w=w, base=base, nm=nm, blocks=blocks,
                _meta=meta, _vals=[(getattr(v, "name", "") or "") for v in vals])


def _tla(x: Any) -> str:
    if isinstance(x, bool):
        return "TRUE" if x else "FALSE"
    if isinstance(x, int):
        return str(x)
    if isinstance(x, str):
        return '"%s"' % x
    if isinstance(x, (list, tuple)):
        return "<<" + ",".join(_tla(i) for i in x) + ">>"
    raise TypeError(repr(x))


def func_to_tla(rec: dict[str, Any]) -> str:
    blocks = "<<" + ",\n  ".join(
        "<<" + ",".join("[" + ",".join("%s|->%s" % (k, _tla(v)) for k, v in op.items()) + "]" for op in blk) + ">>"
        for blk in rec["blocks"]) + ">>"
    return ("[nv|->%d,na|->%d,ns|->%d,opt|->%s,w|->%s,base|->%s,nm|->%s,b|->\n  %s]"
            % (rec["nv"], rec["na"], rec["ns"], _tla(rec["opt"]), _tla(rec["w"]),
               _tla(rec["base"]), _tla(rec["nm"]), blocks))


class _Snap:
    """Wrapper installed around emitmodule.insert_ref_count_opcodes (the call site is the module
    global looked up by compile_scc_to_ir): runs the real transform, then exports the function."""

    def __init__(self, real: Any, want_text: bool = False) -> None:
        self.real = real
        self.out: list[tuple[str, dict[str, Any]]] = []
        self.failed: list[str] = []
        self.want_text = want_text
        self.text: dict[str, str] = {}

    def spills(self, fn: Any, env: Any) -> None:
        """Wrapper around emitmodule.insert_spills: for functions with an environment class
        (generators, coroutines) values that live across a yield are only consistent after the
        spill pass, so the post-refcount snapshot of those functions is retaken after it."""
        self.real_spills(fn, env)
        self.out = [(n, r) for n, r in self.out if r.get("_fn") is not fn]
        self(fn, run=False)

    def __call__(self, fn: Any, run: bool = True) -> None:
        if run:
            self.real(fn)
        try:
            rec = export_func(fn)
            rec["_fn"] = fn
            self.out.append((fn.fullname, rec))
            if self.want_text:
                from mypyc.ir.pprint import format_func
                self.text[fn.fullname] = "\n".join(format_func(fn))
        except MachineryError:
            raise
        except Exception as e:  # pragma: no cover
            self.failed.append("%s: %r" % (fn.fullname, e))


def parse_case(fname: str, case_id: str, body: str) -> dict[str, Any] | None:
    """A corpus case -> the files to materialise.  Mirrors mypy.test.data.parse_test_case for the
    sections that matter for compiling (case / file / builtins / typing)."""
    from mypy.test.data import expand_variables, parse_test_data

    name = case_id.split("-")[0]
    flags = case_id.split("-")[1:]
    if "skip" in flags:
        return None
    items = parse_test_data(body, name)
    files: dict[str, str] = {}
    main = "\n".join(items[0].data) + "\n"
    for it in items[1:]:
        if it.id == "file" and it.arg:
            if re.search(r"\.[0-9]+$", it.arg):
                continue  # later steps of incremental cases
            files[it.arg] = expand_variables("\n".join(it.data)) + "\n"
        elif it.id in ("builtins", "typing", "_typeshed") and it.arg:
            with open(os.path.join(CORPUS_DIR, it.arg), encoding="utf-8") as f:
                files[it.id + ".pyi"] = f.read()
    return dict(file=fname, name=name, main=main, files=files)


def compile_case(case: dict[str, Any], workdir: str, want_text: bool = False) -> dict[str, Any]:
    """Run the real front end + the real IR pipeline of the working tree on one corpus program.
    Returns {"rc": [(fullname, rec)], "final": [...], "error": str|None}."""
    from mypy import build
    from mypy.errors import CompileError
    from mypy.options import Options
    from mypyc.build import construct_groups
    from mypyc.codegen import emitmodule
    from mypyc.errors import Errors
    from mypyc.irbuild.mapper import Mapper
    from mypyc.options import CompilerOptions
    from mypyc.test.testutil import has_test_name_tag

    tmp = os.path.join(workdir, "tmp")
    if os.path.exists(tmp):
        shutil.rmtree(tmp)
    os.makedirs(tmp)
    os.chdir(tmp)
    name = case["name"]
    files = dict(case["files"])
    if "builtins.pyi" not in files:
        shutil.copyfile(os.path.join(CORPUS_DIR, "fixtures", "ir.py"), "builtins.pyi")
    shutil.copyfile(os.path.join(CORPUS_DIR, "fixtures", "testutil.py"), "testutil.py")
    with open("native.py", "w", encoding="utf-8") as f:
        f.write(case["main"])
    for p, txt in files.items():
        d = os.path.dirname(p)
        if d:
            os.makedirs(d, exist_ok=True)
        with open(p, "w", encoding="utf-8") as f:
            f.write(txt)

    options = Options()
    options.use_builtins_fixtures = True
    options.show_traceback = True
    options.strict_optional = True
    options.strict_bytes = True
    options.disable_bytearray_promotion = True
    options.disable_memoryview_promotion = True
    options.python_version = sys.version_info[:2]
    options.export_types = True
    options.preserve_asts = True
    options.allow_empty_bodies = True
    options.incremental = False
    options.check_untyped_defs = True
    options.hide_error_codes = True
    options.cache_dir = os.devnull
    options.per_module_options["unchecked.*"] = {"follow_imports": "error"}
    options.per_module_options["skipped"] = {"follow_imports": "skip"}
    options.per_module_options["skipped.*"] = {"follow_imports": "skip"}
    sources = [build.BuildSource("native.py", "native", None)]
    for p in sorted(files):
        if os.path.basename(p).startswith("other") and p.endswith(".py"):
            sources.append(build.BuildSource(p, p.split(".")[0].replace(os.sep, "."), None))
        elif p.endswith("__init__.py") and os.path.basename(os.path.dirname(p)).startswith("other"):
            sources.append(build.BuildSource(p, os.path.dirname(p).replace(os.sep, "."), None))
    for s in sources:
        options.per_module_options.setdefault(s.module, {})["mypyc"] = True
    m = re.search(r"_python([0-9]+)_([0-9]+)(_|\b)", name)
    co = CompilerOptions(
        strip_asserts="StripAssert" in name,
        depends_on_librt_internal=has_test_name_tag(name, "librt_internal"),
        experimental_features=has_test_name_tag(name, "experimental") or has_test_name_tag(name, "librt"),
        strict_traceback_checks=False,
    )
    if m and (int(m.group(1)), int(m.group(2))) > sys.version_info[:2]:
        options.python_version = (int(m.group(1)), int(m.group(2)))
        co.capi_version = options.python_version
    groups = construct_groups(sources, False, len(sources) > 1, None)
    res: dict[str, Any] = dict(rc=[], final=[], error=None, text={})
    snap = _Snap(_REAL_INSERT[0], want_text)
    snap.real_spills = _REAL_INSERT[1]
    emitmodule.insert_ref_count_opcodes = snap  # type: ignore[assignment]
    emitmodule.insert_spills = snap.spills  # type: ignore[assignment]
    result = None
    try:
        result = emitmodule.parse_and_typecheck(sources=sources, options=options, compiler_options=co,
                                                groups=groups, alt_lib_path=".")
        errors = Errors(options)
        group_map = {source.module: lib_name for group, lib_name in groups for source in group}
        mapper = Mapper(group_map)
        result.manager.errors.set_file("<mypyc>", module=None, scope=None, options=result.manager.options)
        modules = emitmodule.compile_modules_to_ir(result, mapper, co, errors)
        if errors.num_errors:
            res["error"] = "mypyc errors: " + "; ".join(errors.new_messages())[:300]
            return res
        for _, rec in snap.out:
            rec.pop("_fn", None)
        res["rc"] = snap.out
        res["text_rc"] = snap.text
        for mod in modules.values():
            for fn in mod.functions:
                res["final"].append((fn.fullname, export_func(fn)))
                if want_text:
                    from mypyc.ir.pprint import format_func
                    res["text"][fn.fullname] = "\n".join(format_func(fn))
        if snap.failed:
            raise MachineryError("export failed: " + "; ".join(snap.failed[:3]))
    except CompileError as e:
        res["error"] = "compile error: " + "; ".join(e.messages)[:300]
    except MachineryError:
        raise
    except Exception as e:
        # a crash of the compiler on a corpus program (these are outside C06's premise)
        res["error"] = "compiler crash: %s: %s" % (type(e).__name__, str(e)[:200])
    finally:
        emitmodule.insert_ref_count_opcodes = _REAL_INSERT[0]
        emitmodule.insert_spills = _REAL_INSERT[1]
        if result is not None:
            result.manager.metastore.close()
    return res


_REAL_INSERT: list[Any] = [None, None]


def _worker_init() -> None:
    from mypyc.codegen import emitmodule
    _REAL_INSERT[0] = emitmodule.insert_ref_count_opcodes
    _REAL_INSERT[1] = emitmodule.insert_spills
    sys.setrecursionlimit(10000)


def export_file(args: tuple[str, str, list[str] | None]) -> dict[str, Any]:
    """Worker: all cases of one corpus file -> TLA+ records (text) + the metadata to map back."""
    fname, workroot, only = args
    if _REAL_INSERT[0] is None:
        _worker_init()
    workdir = os.path.join(workroot, "w%d" % os.getpid())
    os.makedirs(workdir, exist_ok=True)
    cwd = os.getcwd()
    out: list[dict[str, Any]] = []
    stats = dict(cases=0, compiled=0, failed=0)
    fails = []
    try:
        for case_id, body in split_cases(os.path.join(CORPUS_DIR, fname)):
            case = parse_case(fname, case_id, body)
            if case is None:
                continue
            if only is not None and case["name"] not in only:
                continue
            stats["cases"] += 1
            r = compile_case(case, workdir)
            if r["error"]:
                stats["failed"] += 1
                fails.append((case["name"], r["error"]))
                continue
            stats["compiled"] += 1
            for stage in ("rc", "final"):
                for fullname, rec in r[stage]:
                    nops = sum(len(b) for b in rec["blocks"])
                    out.append(dict(prog=fname + "::" + case["name"], stage=stage, fn=fullname,
                                    nops=nops, nvals=rec["nv"], tla=func_to_tla(rec),
                                    meta=rec["_meta"], vals=rec["_vals"]))
    finally:
        os.chdir(cwd)
    return dict(file=fname, funcs=out, stats=stats, fails=fails)


def list_cases(files: list[str]) -> list[tuple[str, str]]:
    res = []
    for fname in files:
        for case_id, _ in split_cases(os.path.join(CORPUS_DIR, fname)):
            parts = case_id.split("-")
            if "skip" in parts[1:]:
                continue
            res.append((fname, parts[0]))
    return res


def export_corpus(cases: list[tuple[str, str]], workroot: str, nproc: int = 16, chunk: int = 6) -> dict[str, Any]:
    """Export the given corpus cases with a pool of worker processes."""
    by_file: dict[str, list[str]] = {}
    for fname, name in cases:
        by_file.setdefault(fname, []).append(name)
    tasks = []
    for fname, names in by_file.items():
        # run-* programs are several times bigger than irbuild ones
        step = max(1, chunk // 3) if fname.startswith("run-") else chunk
        for i in range(0, len(names), step):
            tasks.append((fname, workroot, names[i:i + step]))
    tasks.sort(key=lambda t: (not t[0].startswith("run-"), t[0]))
    funcs: list[dict[str, Any]] = []
    stats = dict(cases=0, compiled=0, failed=0)
    fails: list[tuple[str, str, str]] = []
    with ProcessPoolExecutor(nproc, initializer=_worker_init) as ex:
        for r in ex.map(export_file, tasks):
            funcs += r["funcs"]
            for k in stats:
                stats[k] += r["stats"][k]
            fails += [(r["file"], n, e) for n, e in r["fails"]]
    funcs.sort(key=lambda f: (f["prog"], f["fn"], f["stage"]))
    return dict(funcs=funcs, stats=stats, fails=fails)
