"""C06 -- compiled code is memory safe: balanced reference counts, no undefined reads.

Specification: spec/Ownership.tla, an abstract machine that *executes* mypyc function IR given
as data (module OwnData, generated here) and tracks, per IR value, the references the activation
owns through it, its definedness / NULL-ness and whom it is borrowed from.  TLC walks every
feasible CFG path of every exported function; the invariants are NoLeak, NoDoubleRelease,
NoUndefRead and NoUseAfterRelease.

Binding.  (1) The IR is the real artefact: it is produced by the working tree's own pipeline
(mypyc.codegen.emitmodule.parse_and_typecheck + compile_modules_to_ir, i.e. the real
compile_scc_to_ir with the real transforms in the real order) from the programs of the
repository's mypyc test corpus, snapshotted right after insert_ref_count_opcodes (through a
wrapper) and at the end, and exported generically from the ops' own attributes.  (2) The rules of
the machine (the contracts it reads off the ops: stolen(), is_borrowed, error_kind) are bound to
the generated C: probe programs are compiled to a C extension from the working tree and executed
in a child process on tracked objects; for every probe call the machine's prediction (set of exit
kinds of the function's paths, net change 0 of every tracked object's reference count) is compared
with sys.getrefcount deltas / the observed outcome, exceptions are compared with CPython running
the same source interpreted, and a crash of the child is a violation.
"""
from __future__ import annotations

import json
import os
import random
import re
import shutil
import subprocess
import sys
import time
from concurrent.futures import ProcessPoolExecutor, ThreadPoolExecutor
from typing import Any

from harness.common import (MachineryError, PY, REPO, SPEC, VERIF, Verdict, coverage_summary,
                            parse_args, repo_env, sany, scratch, tlc)

PID = "C06"

CORPUS_DIR = os.path.join(REPO, "mypyc", "test-data")


# =========================================================================== corpus
def corpus_files() -> list[str]:
    names = sorted(os.listdir(CORPUS_DIR))
    keep = []
    for n in names:
        if not n.endswith(".test"):
            continue
        if n.startswith(("irbuild-", "run-", "refcount", "exceptions", "lowering-", "opt-",
                         "alwaysdefined", "analysis")):
            keep.append(n)
    return keep


_CASE_RE = re.compile(r"^\[case ([^\]]+)\][ \t]*$\n", re.M)


def split_cases(path: str) -> list[tuple[str, str]]:
    with open(path, encoding="utf-8") as f:
        data = f.read()
    parts = _CASE_RE.split(data)
    res = []
    for i in range(1, len(parts), 2):
        res.append((parts[i], parts[i + 1]))
    return res


# =========================================================================== IR export (runs in worker processes)
def _leaves(t: Any) -> int:
    from mypyc.ir.rtypes import RStruct, RTuple
    if isinstance(t, (RTuple, RStruct)):
        return sum(_leaves(x) for x in t.types)
    return 1 if t.is_refcounted else 0


SPILL_PREFIX = "__mypyc_temp__2_"  # mypyc.common.TEMP_ATTR_NAME + "2_", see transform/spill.py


def export_func(fn: Any) -> dict[str, Any]:
    """One FuncIR -> the record Ownership.tla executes.  Everything is read off the ops' own
    attributes (sources(), stolen(), is_borrowed, error_kind, type, ...)."""
    from mypyc.ir import ops as O
    from mypyc.ir.rtypes import RTuple

    ids: dict[Any, int] = {}
    vals: list[Any] = []

    def vid(v: Any) -> int:
        if isinstance(v, (O.Integer, O.Float, O.CString, O.Undef)):
            return 0
        i = ids.get(v)
        if i is None:
            i = ids[v] = len(ids) + 1
            vals.append(v)
        return i

    for a in fn.arg_regs:
        vid(a)
    labels = {b: i + 1 for i, b in enumerate(fn.blocks)}
    # values whose definition is followed somewhere by an error test although the defining op
    # declares error_kind NEVER (e.g. the generator helper call): they may be NULL
    tested = set()
    flags = set()   # registers a boolean branch tests (directly or through copies): literal values are tracked
    for b in fn.blocks:
        for op in b.ops:
            if isinstance(op, O.Branch) and op.op == O.Branch.IS_ERROR:
                tested.add(op.value)
            elif isinstance(op, O.Branch) and isinstance(op.value, O.Register):
                flags.add(op.value)
    grew = True
    while grew:
        grew = False
        for b in fn.blocks:
            for op in b.ops:
                if isinstance(op, O.Assign) and op.dest in flags and isinstance(op.src, O.Register) and op.src not in flags:
                    flags.add(op.src)
                    grew = True
    blocks = []
    meta = []
    for b in fn.blocks:
        ops = []
        mops = []
        for op in b.ops:
            name = type(op).__name__
            s_ = [vid(x) for x in op.sources()]
            st_ = [vid(x) for x in op.stolen()]
            r: dict[str, Any]
            if isinstance(op, O.Assign):
                if True:
                    c = 9   # (an Undef source exports as a literal: id 0)
                    if isinstance(op.src, O.Integer) and op.dest in flags:
                        c = 1 if op.src.value != 0 else 0
                    r = dict(k="assign", d=vid(op.dest), s=s_, st=st_, c=c)
            elif isinstance(op, O.Goto):
                r = dict(k="goto", t=labels[op.label])
            elif isinstance(op, O.Branch):
                c = 9
                if isinstance(op.value, O.Integer):
                    c = 1 if op.value.value != 0 else 0
                r = dict(k="branch", s=s_, t=labels[op.true], f=labels[op.false],
                         iserr=(op.op == O.Branch.IS_ERROR), neg=bool(op.negated), c=c)
            elif isinstance(op, O.Return):
                r = dict(k="ret", s=s_, st=st_)
            elif isinstance(op, O.Unreachable):
                r = dict(k="unreach")
            elif isinstance(op, O.IncRef):
                r = dict(k="inc", s=s_)
            elif isinstance(op, O.DecRef):
                r = dict(k="dec", s=s_, x=bool(op.is_xdec))
            elif isinstance(op, O.LoadErrorValue):
                r = dict(k="lev", d=vid(op), x=bool(op.undefines))
            elif isinstance(op, O.LoadAddress):
                r = dict(k="addr", d=vid(op), s=s_)
            elif isinstance(op, O.Unborrow):
                src = op.src
                lo = 0
                while isinstance(src, O.TupleGet) and src.is_borrowed:
                    t = src.src.type
                    assert isinstance(t, RTuple)
                    lo += sum(_leaves(x) for x in t.types[:src.index])
                    src = src.src
                r = dict(k="unborrow", d=vid(op), s=s_, root=0 if src is op.src else vid(src), lo=lo)
            else:
                if not isinstance(op, (O.RegisterOp, O.AssignMulti, O.SetMem)):
                    raise MachineryError("unknown op class %s" % name)
                d = 0
                if isinstance(op, O.AssignMulti):
                    d = vid(op.dest)
                elif not op.is_void:
                    d = vid(op)
                rn = False
                ln = 0
                if isinstance(op, O.CallC):
                    rn = bool(op.returns_null)
                    name = "CallC:" + op.function_name
                elif isinstance(op, O.PrimitiveOp):
                    name = "PrimitiveOp:" + op.desc.name
                elif isinstance(op, O.GetAttr):
                    rn = bool(op.allow_error_value)
                    name = "GetAttr:" + op.attr
                elif isinstance(op, O.SetAttr):
                    name = "SetAttr:" + op.attr
                elif isinstance(op, (O.Call, O.MethodCall)):
                    name = name + ":" + (op.fn.shortname if isinstance(op, O.Call) else op.method)
                if op.error_kind == O.ERR_NEVER and op in tested and isinstance(op, (O.Call, O.MethodCall, O.CallC, O.PrimitiveOp)):
                    # a call whose result is tested for the error value although it `never fails':
                    # NULL is a regular result (PyIter_Next at the end, the generator helper, ...)
                    rn = True
                ek = int(op.error_kind)
                nok: list[int] = []
                if isinstance(op, O.GetAttr) and op.attr.startswith(SPILL_PREFIX) and op not in tested:
                    # a read of a spill slot (transform/spill.py inserts it after exception
                    # handling, so it has no error branch): defined by construction of the spill
                    ek = 0
                if isinstance(op, O.SetAttr) and not op.is_propset:
                    nok = [vid(op.src)]  # storing an error value (= clearing the slot) is fine
                if op.is_borrowed:
                    if isinstance(op, O.GetAttr):
                        ln = vid(op.obj)
                    elif isinstance(op, O.Cast):
                        ln = vid(op.src)
                    elif isinstance(op, O.LoadMem):
                        ln = -3  # lent by the memory cell
                r = dict(k="op", d=d, s=s_, st=st_, bw=bool(op.is_borrowed), ek=ek, rn=rn, ln=ln, nok=nok)
                if isinstance(op, O.TupleGet):
                    t = op.src.type
                    r["k"] = "tget"
                    r["lo"] = sum(_leaves(x) for x in t.types[:op.index])
            ops.append(r)
            mops.append((name, op.line))
        blocks.append(ops)
        meta.append(mops)
    _add_kills(blocks)
    n = len(vals)
    w = [_leaves(v.type) for v in vals]
    base = []
    acc = 0
    for x in w:
        base.append(acc)
        acc += x
    # named locals without an overlapping error value: mypyc guards their reads with an is_error test
    nm = [bool(isinstance(v, O.Register) and v.name and not v.type.error_overlap) for v in vals]
    opt = []
    sig_args = fn.decl.sig.args
    if len(sig_args) == len(fn.arg_regs):
        for a, ra in zip(fn.arg_regs, sig_args):
            # an absent optional argument arrives as the error value (types whose error value
            # overlaps a real value use a bitmap argument instead)
            if ra.optional and not a.type.error_overlap:
                opt.append(ids[a])
    return dict(nv=n, na=len(fn.arg_regs), ns=acc, opt=opt, w=w, base=base, nm=nm, blocks=blocks,
                _meta=meta, _vals=[(getattr(v, "name", "") or "") for v in vals])


def _add_kills(blocks: list[list[dict[str, Any]]]) -> None:
    """Per op, the values that no op reachable from its successor mentions any more (kl; kt / kf
    for the two edges of a branch).  A plain backward `mentioned-later' analysis over the exported
    records -- independent of mypyc's own liveness analysis; the machine only uses it to forget
    st / bl of dead values so that paths differing in dead values merge (own is never forgotten,
    so a leaked reference is still seen at the return)."""
    lend: dict[int, int] = {}
    for blk in blocks:
        for op in blk:
            if op["k"] in ("op", "tget") and op["bw"] and op["ln"] > 0:
                lend[op["d"]] = op["ln"]

    def uses(op: dict[str, Any]) -> set[int]:
        u = {v for v in op.get("s", ()) if v}
        if op["k"] == "unborrow" and op["root"]:
            u.add(op["root"])
        for v in list(u):
            seen = 0
            while v in lend and seen < 8:  # a value borrowed from v needs v
                v = lend[v]
                u.add(v)
                seen += 1
        return u

    nb = len(blocks)
    succ: list[list[int]] = []
    for blk in blocks:
        last = blk[-1]
        if last["k"] == "goto":
            succ.append([last["t"] - 1])
        elif last["k"] == "branch":
            succ.append([last["t"] - 1, last["f"] - 1])
        else:
            succ.append([])
    use_b = [[uses(op) for op in blk] for blk in blocks]
    def_b = [[({op["d"]} if op.get("d") else set()) for op in blk] for blk in blocks]
    live_in: list[set[int]] = [set() for _ in range(nb)]
    changed = True
    while changed:
        changed = False
        for bi in range(nb - 1, -1, -1):
            live: set[int] = set()
            for sj in succ[bi]:
                live |= live_in[sj]
            for oi in range(len(blocks[bi]) - 1, -1, -1):
                live = (live - def_b[bi][oi]) | use_b[bi][oi]
            if live != live_in[bi]:
                live_in[bi] = live
                changed = True
    for bi, blk in enumerate(blocks):
        live = set()
        for sj in succ[bi]:
            live |= live_in[sj]
        for oi in range(len(blk) - 1, -1, -1):
            op = blk[oi]
            before = (live - def_b[bi][oi]) | use_b[bi][oi]
            if op["k"] == "branch":
                op["kt"] = sorted(before - live_in[op["t"] - 1])
                op["kf"] = sorted(before - live_in[op["f"] - 1])
            elif op["k"] not in ("goto", "unreach", "ret"):  # noqa
                op["kl"] = sorted((before | def_b[bi][oi]) - live)
            live = before


def _tla(x: Any) -> str:
    if isinstance(x, bool):
        return "TRUE" if x else "FALSE"
    if isinstance(x, int):
        return str(x)
    if isinstance(x, str):
        return '"%s"' % x
    if isinstance(x, (list, tuple)):
        return "<<" + ",".join(_tla(i) for i in x) + ">>"
    raise TypeError(repr(x))


def func_to_tla(rec: dict[str, Any]) -> str:
    blocks = "<<" + ",\n  ".join(
        "<<" + ",".join("[" + ",".join("%s|->%s" % (k, _tla(v)) for k, v in op.items()) + "]" for op in blk) + ">>"
        for blk in rec["blocks"]) + ">>"
    return ("[nv|->%d,na|->%d,ns|->%d,opt|->%s,w|->%s,base|->%s,nm|->%s,b|->\n  %s]"
            % (rec["nv"], rec["na"], rec["ns"], _tla(rec["opt"]), _tla(rec["w"]),
               _tla(rec["base"]), _tla(rec["nm"]), blocks))


class _Snap:
    """Wrapper installed around emitmodule.insert_ref_count_opcodes (the call site is the module
    global looked up by compile_scc_to_ir): runs the real transform, then exports the function."""

    def __init__(self, real: Any, want_text: bool = False) -> None:
        self.real = real
        self.out: list[tuple[str, dict[str, Any]]] = []
        self.failed: list[str] = []
        self.want_text = want_text
        self.text: dict[str, str] = {}

    def spills(self, fn: Any, env: Any) -> None:
        """Wrapper around emitmodule.insert_spills: for functions with an environment class
        (generators, coroutines) values that live across a yield are only consistent after the
        spill pass, so the post-refcount snapshot of those functions is retaken after it."""
        self.real_spills(fn, env)
        self.out = [(n, r) for n, r in self.out if r.get("_fn") is not fn]
        self(fn, run=False)

    def __call__(self, fn: Any, run: bool = True) -> None:
        if run:
            self.real(fn)
        try:
            rec = export_func(fn)
            rec["_fn"] = fn
            self.out.append((fn.fullname, rec))
            if self.want_text:
                from mypyc.ir.pprint import format_func
                self.text[fn.fullname] = "\n".join(format_func(fn))
        except MachineryError:
            raise
        except Exception as e:  # pragma: no cover
            self.failed.append("%s: %r" % (fn.fullname, e))


def parse_case(fname: str, case_id: str, body: str) -> dict[str, Any] | None:
    """A corpus case -> the files to materialise.  Mirrors mypy.test.data.parse_test_case for the
    sections that matter for compiling (case / file / builtins / typing)."""
    from mypy.test.data import expand_variables, parse_test_data

    name = case_id.split("-")[0]
    flags = case_id.split("-")[1:]
    if "skip" in flags:
        return None
    items = parse_test_data(body, name)
    files: dict[str, str] = {}
    main = "\n".join(items[0].data) + "\n"
    for it in items[1:]:
        if it.id == "file" and it.arg:
            if re.search(r"\.[0-9]+$", it.arg):
                continue  # later steps of incremental cases
            files[it.arg] = expand_variables("\n".join(it.data)) + "\n"
        elif it.id in ("builtins", "typing", "_typeshed") and it.arg:
            with open(os.path.join(CORPUS_DIR, it.arg), encoding="utf-8") as f:
                files[it.id + ".pyi"] = f.read()
    return dict(file=fname, name=name, main=main, files=files)


def compile_case(case: dict[str, Any], workdir: str, want_text: bool = False) -> dict[str, Any]:
    """Run the real front end + the real IR pipeline of the working tree on one corpus program.
    Returns {"rc": [(fullname, rec)], "final": [...], "error": str|None}."""
    from mypy import build
    from mypy.errors import CompileError
    from mypy.options import Options
    from mypyc.build import construct_groups
    from mypyc.codegen import emitmodule
    from mypyc.errors import Errors
    from mypyc.irbuild.mapper import Mapper
    from mypyc.options import CompilerOptions
    from mypyc.test.testutil import has_test_name_tag

    tmp = os.path.join(workdir, "tmp")
    if os.path.exists(tmp):
        shutil.rmtree(tmp)
    os.makedirs(tmp)
    os.chdir(tmp)
    name = case["name"]
    files = dict(case["files"])
    if "builtins.pyi" not in files and not case.get("real_typeshed"):
        shutil.copyfile(os.path.join(CORPUS_DIR, "fixtures", "ir.py"), "builtins.pyi")
    shutil.copyfile(os.path.join(CORPUS_DIR, "fixtures", "testutil.py"), "testutil.py")
    with open("native.py", "w", encoding="utf-8") as f:
        f.write(case["main"])
    for p, txt in files.items():
        d = os.path.dirname(p)
        if d:
            os.makedirs(d, exist_ok=True)
        with open(p, "w", encoding="utf-8") as f:
            f.write(txt)

    options = Options()
    options.use_builtins_fixtures = not case.get("real_typeshed")
    options.show_traceback = True
    options.strict_optional = True
    options.strict_bytes = True
    options.disable_bytearray_promotion = True
    options.disable_memoryview_promotion = True
    options.python_version = sys.version_info[:2]
    options.export_types = True
    options.preserve_asts = True
    options.allow_empty_bodies = True
    options.incremental = False
    options.check_untyped_defs = True
    options.hide_error_codes = True
    options.cache_dir = os.devnull
    options.per_module_options["unchecked.*"] = {"follow_imports": "error"}
    options.per_module_options["skipped"] = {"follow_imports": "skip"}
    options.per_module_options["skipped.*"] = {"follow_imports": "skip"}
    sources = [build.BuildSource("native.py", "native", None)]
    for p in sorted(files):
        if os.path.basename(p).startswith("other") and p.endswith(".py"):
            sources.append(build.BuildSource(p, p.split(".")[0].replace(os.sep, "."), None))
        elif p.endswith("__init__.py") and os.path.basename(os.path.dirname(p)).startswith("other"):
            sources.append(build.BuildSource(p, os.path.dirname(p).replace(os.sep, "."), None))
    for s in sources:
        options.per_module_options.setdefault(s.module, {})["mypyc"] = True
    m = re.search(r"_python([0-9]+)_([0-9]+)(_|\b)", name)
    co = CompilerOptions(
        strip_asserts="StripAssert" in name,
        depends_on_librt_internal=has_test_name_tag(name, "librt_internal"),
        experimental_features=has_test_name_tag(name, "experimental") or has_test_name_tag(name, "librt"),
        strict_traceback_checks=False,
    )
    if m and (int(m.group(1)), int(m.group(2))) > sys.version_info[:2]:
        options.python_version = (int(m.group(1)), int(m.group(2)))
        co.capi_version = options.python_version
    groups = construct_groups(sources, False, len(sources) > 1, None)
    res: dict[str, Any] = dict(rc=[], final=[], error=None, text={})
    snap = _Snap(_REAL_INSERT[0], want_text)
    snap.real_spills = _REAL_INSERT[1]
    emitmodule.insert_ref_count_opcodes = snap  # type: ignore[assignment]
    emitmodule.insert_spills = snap.spills  # type: ignore[assignment]
    result = None
    try:
        result = emitmodule.parse_and_typecheck(sources=sources, options=options, compiler_options=co,
                                                groups=groups,
                                                alt_lib_path=None if case.get("real_typeshed") else ".")
        errors = Errors(options)
        group_map = {source.module: lib_name for group, lib_name in groups for source in group}
        mapper = Mapper(group_map)
        result.manager.errors.set_file("<mypyc>", module=None, scope=None, options=result.manager.options)
        modules = emitmodule.compile_modules_to_ir(result, mapper, co, errors)
        if errors.num_errors:
            res["error"] = "mypyc errors: " + "; ".join(errors.new_messages())[:300]
            return res
        for _, rec in snap.out:
            rec.pop("_fn", None)
        res["rc"] = snap.out
        res["text_rc"] = snap.text
        for mod in modules.values():
            for fn in mod.functions:
                res["final"].append((fn.fullname, export_func(fn)))
                if want_text:
                    from mypyc.ir.pprint import format_func
                    res["text"][fn.fullname] = "\n".join(format_func(fn))
        if snap.failed:
            raise MachineryError("export failed: " + "; ".join(snap.failed[:3]))
    except CompileError as e:
        res["error"] = "compile error: " + "; ".join(e.messages)[:300]
        res["messages"] = list(e.messages)
    except MachineryError:
        raise
    except Exception as e:
        # a crash of the compiler on a corpus program (these are outside C06's premise)
        res["error"] = "compiler crash: %s: %s" % (type(e).__name__, str(e)[:200])
    finally:
        emitmodule.insert_ref_count_opcodes = _REAL_INSERT[0]
        emitmodule.insert_spills = _REAL_INSERT[1]
        if result is not None:
            result.manager.metastore.close()
    return res


_REAL_INSERT: list[Any] = [None, None]


def _worker_init() -> None:
    from mypyc.codegen import emitmodule
    _REAL_INSERT[0] = emitmodule.insert_ref_count_opcodes
    _REAL_INSERT[1] = emitmodule.insert_spills
    sys.setrecursionlimit(10000)


def export_file(args: tuple[str, str, list[str] | None]) -> dict[str, Any]:
    """Worker: all cases of one corpus file -> TLA+ records (text) + the metadata to map back."""
    fname, workroot, only = args
    if _REAL_INSERT[0] is None:
        _worker_init()
    workdir = os.path.join(workroot, "w%d" % os.getpid())
    os.makedirs(workdir, exist_ok=True)
    cwd = os.getcwd()
    out: list[dict[str, Any]] = []
    stats = dict(cases=0, compiled=0, failed=0)
    fails = []
    try:
        for case_id, body in split_cases(os.path.join(CORPUS_DIR, fname)):
            case = parse_case(fname, case_id, body)
            if case is None:
                continue
            if only is not None and case["name"] not in only:
                continue
            stats["cases"] += 1
            r = compile_case(case, workdir)
            if r["error"]:
                stats["failed"] += 1
                fails.append((case["name"], r["error"]))
                continue
            stats["compiled"] += 1
            for stage in ("rc", "final"):
                for fullname, rec in r[stage]:
                    nops = sum(len(b) for b in rec["blocks"])
                    out.append(dict(prog=fname + "::" + case["name"], stage=stage, fn=fullname,
                                    nops=nops, nvals=rec["nv"], tla=func_to_tla(rec),
                                    meta=rec["_meta"], vals=rec["_vals"]))
    finally:
        os.chdir(cwd)
    return dict(file=fname, funcs=out, stats=stats, fails=fails)


def list_cases(files: list[str]) -> list[tuple[str, str]]:
    res = []
    for fname in files:
        for case_id, _ in split_cases(os.path.join(CORPUS_DIR, fname)):
            parts = case_id.split("-")
            if "skip" in parts[1:]:
                continue
            res.append((fname, parts[0]))
    return res


def export_corpus(cases: list[tuple[str, str]], workroot: str, nproc: int = 16, chunk: int = 6) -> dict[str, Any]:
    """Export the given corpus cases with a pool of worker processes."""
    by_file: dict[str, list[str]] = {}
    for fname, name in cases:
        by_file.setdefault(fname, []).append(name)
    tasks = []
    for fname, names in by_file.items():
        # run-* programs are several times bigger than irbuild ones
        step = max(1, chunk // 3) if fname.startswith("run-") else chunk
        for i in range(0, len(names), step):
            tasks.append((fname, workroot, names[i:i + step]))
    tasks.sort(key=lambda t: (not t[0].startswith("run-"), t[0]))
    funcs: list[dict[str, Any]] = []
    stats = dict(cases=0, compiled=0, failed=0)
    fails: list[tuple[str, str, str]] = []
    with ProcessPoolExecutor(nproc, initializer=_worker_init) as ex:
        for r in ex.map(export_file, tasks):
            funcs += r["funcs"]
            for k in stats:
                stats[k] += r["stats"][k]
            fails += [(r["file"], n, e) for n, e in r["fails"]]
    funcs.sort(key=lambda f: (f["prog"], f["fn"], f["stage"]))
    return dict(funcs=funcs, stats=stats, fails=fails)


# =========================================================================== hand-made sample functions
# (spec/OwnData.tla is generated from these; they make the specification checkable on its own and
# serve as specification-level mutants: every invariant must fire on its twin.)
def _op(d: int = 0, s: Any = (), st: Any = (), bw: bool = False, ek: int = 0, rn: bool = False, ln: int = 0) -> dict[str, Any]:
    return dict(k="op", d=d, s=list(s), st=list(st), bw=bw, ek=ek, rn=rn, ln=ln, nok=[])


def _br(v: int, t: int, f: int, iserr: bool = True, neg: bool = False) -> dict[str, Any]:
    return dict(k="branch", s=[v], t=t, f=f, iserr=iserr, neg=neg, c=9)


def _ret(v: int) -> dict[str, Any]:
    return dict(k="ret", s=[v], st=[v])


def _fn(nv: int, na: int, w: list[int], nm: list[bool], blocks: list[list[dict[str, Any]]]) -> dict[str, Any]:
    base, acc = [], 0
    for x in w:
        base.append(acc)
        acc += x
    _add_kills(blocks)
    return dict(nv=nv, na=na, ns=acc, opt=[], w=w, base=base, nm=nm, blocks=blocks)


def sample_functions() -> dict[str, dict[str, Any]]:
    """name -> function record.  Values: 1 = argument x (object)."""
    F = False
    res = {}
    # r = call(x); if error return <error>; return r
    res["good_call"] = _fn(3, 1, [1, 1, 1], [F, F, F], [
        [_op(d=2, s=[1], ek=1), _br(2, 3, 2)],
        [_ret(2)],
        [dict(k="lev", d=3, x=False), _ret(3)]])
    # inc_ref x; t = box(x) [steals x]; return t
    res["good_steal"] = _fn(2, 1, [1, 1], [F, F], [
        [dict(k="inc", s=[1]), _op(d=2, s=[1], st=[1]), _ret(2)]])
    # y = 'lit'; loop: r = call(); if error -> dec y, return error; dec y; y = r; if c goto loop; return y
    res["good_loop"] = _fn(5, 1, [1, 1, 1, 0, 1], [F, True, F, F, F], [
        [dict(k="assign", d=2, s=[0], st=[0], c=9), dict(k="goto", t=2)],
        [_op(d=3, s=[1], ek=1), _br(3, 5, 3)],
        [dict(k="dec", s=[2], x=False), dict(k="assign", d=2, s=[3], st=[3], c=9), _op(d=4, s=[1]), _br(4, 2, 4, iserr=False)],
        [_ret(2)],
        [dict(k="dec", s=[2], x=False), dict(k="lev", d=5, x=False), _ret(5)]])
    # (a, b) = t  with unborrow: t = call() -> tuple[object, object]; a = borrow t[0]; b = borrow t[1];
    # a2 = unborrow a; b2 = unborrow b; dec b2; return a2
    res["good_unborrow"] = _fn(6, 1, [1, 2, 1, 1, 1, 1], [F] * 6, [
        [_op(d=2, s=[1]),
         dict(_op(d=3, s=[2], bw=True), k="tget", lo=0), dict(_op(d=4, s=[2], bw=True), k="tget", lo=1),
         dict(k="unborrow", d=5, s=[3], root=2, lo=0), dict(k="unborrow", d=6, s=[4], root=2, lo=1),
         dict(k="dec", s=[6], x=False), _ret(5)]])
    # r = call(x); r2 = call(x) fails -> return error without releasing r
    res["bad_leak"] = _fn(4, 1, [1, 1, 1, 1], [F] * 4, [
        [_op(d=2, s=[1]), _op(d=3, s=[1], ek=1), _br(3, 3, 2)],
        [dict(k="dec", s=[2], x=False), _ret(3)],
        [dict(k="lev", d=4, x=False), _ret(4)]])
    # dec_ref x (a borrowed argument); return x
    res["bad_double"] = _fn(1, 1, [1], [F], [
        [dict(k="dec", s=[1], x=False), dict(k="inc", s=[1]), _ret(1)]])
    # y = <error, undefines>; r = call(y)
    res["bad_undef"] = _fn(4, 1, [1, 1, 1, 1], [F, F, True, F], [
        [dict(k="lev", d=2, x=True), dict(k="assign", d=3, s=[2], st=[2], c=9), _op(d=4, s=[3]), _ret(4)]])
    # r = call(x); dec_ref r; r2 = call(r)
    res["bad_uaf"] = _fn(3, 1, [1, 1, 1], [F] * 3, [
        [_op(d=2, s=[1]), dict(k="dec", s=[2], x=False), _op(d=3, s=[2]), _ret(3)]])
    # r = call(x) [can fail]; r2 = call(r) without the error test
    res["bad_unchecked"] = _fn(3, 1, [1, 1, 1], [F] * 3, [
        [_op(d=2, s=[1], ek=1), _op(d=3, s=[2]), dict(k="dec", s=[2], x=True), _ret(3)]])
    return res


def data_module(tla_funcs: list[str]) -> str:
    return ("---- MODULE OwnData ----\n\\* generated by harness/drivers/c06.py -- one record per function\n"
            "EXTENDS Integers\nFuncs == <<\n" + ",\n".join(tla_funcs) + "\n>>\n====\n")


# =========================================================================== TLC over batches of functions
SPEC_FILES = ("Ownership.tla", "MC_Ownership.tla", "MC_Ownership.cfg", "Gen_Ownership.cfg", "Gen_Ownership_Exits.cfg")
_BAD_RE = re.compile(r'<<"BAD", (\d+), (\d+), (\d+), "([^"]*)", (\d+), "([^"]*)">>')
_END_RE = re.compile(r'<<"END", (\d+), "([^"]*)", "([^"]*)">>')


def write_batch(d: str, funcs: list[dict[str, Any]]) -> None:
    os.makedirs(d, exist_ok=True)
    for n in SPEC_FILES:
        shutil.copy(os.path.join(SPEC, n), d)
    with open(os.path.join(d, "OwnData.tla"), "w") as f:
        f.write(data_module([x["tla"] for x in funcs]))


def make_batches(funcs: list[dict[str, Any]], nb: int) -> list[list[dict[str, Any]]]:
    order = sorted(range(len(funcs)), key=lambda i: -funcs[i]["nops"])
    batches: list[list[dict[str, Any]]] = [[] for _ in range(nb)]
    load = [0] * nb
    for i in order:
        j = load.index(min(load))
        batches[j].append(funcs[i])
        load[j] += funcs[i]["nops"] + 20
    return [b for b in batches if b]


def run_batches(funcs: list[dict[str, Any]], root: str, tag: str, nb: int, workers: int,
                cfg: str = "Gen_Ownership.cfg", coverage: bool = False, timeout: int = 1500, par: int = 8) -> dict[str, Any]:
    """TLC in collection mode over all functions.  Returns states, transitions, the bad states
    (with the function they belong to), path ends, and per-action coverage summed over batches."""
    batches = make_batches(funcs, nb)

    def one(j: int) -> Any:
        d = os.path.join(root, "%s-b%d" % (tag, j))
        write_batch(d, batches[j])
        r = tlc("MC_Ownership", cfg, cwd=d, workers=workers, heap="3g", coverage=coverage, timeout=timeout)
        shutil.rmtree(d, ignore_errors=True)
        return r

    res: dict[str, Any] = dict(states=0, transitions=0, bad=[], ends={}, cov={}, wall=0.0, depth=0)
    with ThreadPoolExecutor(min(par, len(batches))) as ex:
        for j, r in enumerate(ex.map(one, range(len(batches)))):
            if r.error or r.violated:
                raise MachineryError("TLC batch %s/%d failed: %s %s\n%s" % (tag, j, r.violated, r.error, r.out[-1500:]))
            res["states"] += r.distinct
            res["transitions"] += r.generated
            res["wall"] = max(res["wall"], r.wall)
            res["depth"] = max(res["depth"], r.depth)
            for a, (d_, t_) in r.coverage.items():
                od, ot = res["cov"].get(a, (0, 0))
                res["cov"][a] = (od + d_, ot + t_)
            for line in r.printed:
                m = _BAD_RE.match(line)
                if m:
                    fn = batches[j][int(m.group(1)) - 1]
                    res["bad"].append(dict(f=fn, blk=int(m.group(2)), idx=int(m.group(3)), why=m.group(4),
                                           wv=int(m.group(5)), inv=m.group(6)))
                    continue
                m = _END_RE.match(line)
                if m:
                    fn = batches[j][int(m.group(1)) - 1]
                    kind = "unreach" if m.group(2) == "unreach" else ("error" if m.group(3) in ("N", "E", "F", "O") else "value")
                    res["ends"].setdefault((fn["prog"], fn["stage"], fn["fn"]), set()).add(kind)
    return res


def family_key(case: str, def_index: list[str]) -> str:
    """d<i>.<callee>.<flag> of the definedness family -> def:<shape>/<type>:<callee>.<flag>"""
    m = re.match(r"d(\d+)\.(.*)$", case)
    if m and int(m.group(1)) < len(def_index):
        return "def:%s:%s" % (def_index[int(m.group(1))], m.group(2))
    return case


def norm_fn(fn: str) -> str:
    """Compiler-generated helper functions are the same code in every program: name them generically."""
    if fn.endswith(".__mypyc_generator_helper__"):
        return "<generator>.__mypyc_generator_helper__"
    m = re.search(r"_gen(___\d+)?\.(close|throw|send|__next__|__iter__|__await__)$", fn)
    if m:
        return "<generator>." + m.group(2)
    return fn


def bad_key(b: dict[str, Any]) -> str:
    f = b["f"]
    opname = f["meta"][b["blk"] - 1][b["idx"] - 1][0]
    opname = re.sub(r"__mypyc_temp__2_\d+", "__mypyc_temp__2_N", opname)
    fn = norm_fn(f["fn"])
    where = fn if fn.startswith("<generator>") else f["prog"] + "::" + fn
    return "ir:%s:%s@%s" % (b["why"], opname, where)


def confirm_with_tlc(b: dict[str, Any], root: str) -> tuple[str | None, str]:
    """Re-check the single function with the halting invariants: the verdict on a violation is
    TLC's `Invariant ... is violated' and its counterexample goes into the replay file."""
    d = os.path.join(root, "confirm-%d" % (abs(hash((b["f"]["prog"], b["f"]["fn"], b["f"]["stage"], b["why"]))) % 10**8))
    write_batch(d, [b["f"]])
    cfg = "MC_Ownership.cfg"
    if b.get("inv"):      # only the invariant in question (the function may also hit a known finding)
        cfg = "Confirm.cfg"
        with open(os.path.join(d, cfg), "w") as f:
            f.write("SPECIFICATION Spec\nCONSTANT FSel <- AllFuncs\nINVARIANT %s\n" % b["inv"])
    r = tlc("MC_Ownership", cfg, cwd=d, workers=2, heap="2g", coverage=False, timeout=600)
    shutil.rmtree(d, ignore_errors=True)
    if r.error:
        raise MachineryError("TLC confirm failed: " + r.error)
    # the counterexample as the path through the function: [block label, op index] per step
    path = []
    for chunk in re.split(r"^State \d+:", r.trace_text, flags=re.M)[1:]:
        mb, mi = re.search(r"/\\ blk = (\d+)", chunk), re.search(r"/\\ idx = (\d+)", chunk)
        if mb and mi:
            path.append("L%d.%d" % (int(mb.group(1)) - 1, int(mi.group(1))))
    return r.violated, "path (block.op): " + " ".join(path) + "\n...\n" + r.trace_text[-1500:]


def ir_text(prog: str, stage: str, fn: str, root: str) -> str:
    """Pretty-printed IR of one function (re-exported in a child process; only used for replay files)."""
    code = ("import sys, json\nfrom harness.drivers import c06\n"
            "print(json.dumps(c06.show_function(%r, %r, %r, %r)))\n" % (prog, stage, fn, os.path.join(root, "show")))
    p = subprocess.run([PY, "-c", code], env=dict(repo_env(), PYTHONPATH=VERIF + os.pathsep + REPO),
                       capture_output=True, text=True, timeout=300, cwd=VERIF)
    try:
        return json.loads(p.stdout.strip().splitlines()[-1])
    except Exception:
        return "(IR text unavailable: %s)" % p.stderr[-300:]


def show_function(prog: str, stage: str, fn: str, workdir: str) -> str:
    _worker_init()
    fname, name = prog.split("::")
    os.makedirs(workdir, exist_ok=True)
    cwd = os.getcwd()
    try:
        if fname == "<probes>":
            r = compile_probes(workdir, want_text=True, which=name, ngen=240)
        else:
            for case_id, body in split_cases(os.path.join(CORPUS_DIR, fname)):
                case = parse_case(fname, case_id, body)
                if case and case["name"] == name:
                    r = compile_case(case, workdir, want_text=True)
                    break
            else:
                return "(case not found)"
    finally:
        os.chdir(cwd)
    t = r.get("text_rc", {}) if stage == "rc" else r.get("text", {})
    return t.get(fn, "(function not found)")


# =========================================================================== dynamic binding (probe programs)
HERE = os.path.dirname(os.path.abspath(__file__))
PROBES_SRC = os.path.join(HERE, "c06_probes.py")
RUNNER_SRC = os.path.join(HERE, "c06_runner.py")


def compile_probes(workdir: str, want_text: bool = False, which: str = "c06probes", ngen: int = 0) -> dict[str, Any]:
    """IR of the probe module (or of the generated family) through the same exporter (real typeshed,
    as `mypyc' itself uses)."""
    if which == "c06probes":
        with open(PROBES_SRC, encoding="utf-8") as f:
            src = f.read()
    elif which == "c06def":
        src = definedness_source()
    else:
        src = generated_source(ngen)
    case = dict(file="<probes>", name=which, main=src, files={}, real_typeshed=True)
    return compile_case(case, workdir, want_text=want_text)


def export_probes(args: tuple[str, str, int]) -> dict[str, Any]:
    workroot, which, ngen = args
    if _REAL_INSERT[0] is None:
        _worker_init()
    cwd = os.getcwd()
    try:
        r = compile_probes(os.path.join(workroot, "ir-" + which), which=which, ngen=ngen)
    finally:
        os.chdir(cwd)
    if r["error"]:
        raise MachineryError("module %s does not compile: %s" % (which, r["error"]))
    out = []
    for stage in ("rc", "final"):
        for fullname, rec in r[stage]:
            out.append(dict(prog="<probes>::" + which, stage=stage, fn=fullname,
                            nops=sum(len(b) for b in rec["blocks"]), nvals=rec["nv"],
                            tla=func_to_tla(rec), meta=rec["_meta"], vals=rec["_vals"]))
    return dict(funcs=out)


def export_family(args: tuple[str, str]) -> dict[str, Any]:
    """Worker: generate a table-driven family (c06prim / c06wrap) for the tree under test, drop the
    functions the tree's own front end rejects (a primitive may not be reachable in the way the
    template assumes), and export the IR of the rest.  Returns the final source and cases as well."""
    from harness.drivers import c06_families as FAM
    workroot, which = args
    if _REAL_INSERT[0] is None:
        _worker_init()
    info: dict[str, Any] = {}
    if which == "c06prim":
        fam, info = FAM.primitive_family()
    else:
        fam = FAM.wrapper_family()
    drop: set[str] = set()
    cwd = os.getcwd()
    try:
        for attempt in range(8):
            src = fam.source(drop)
            case = dict(file="<probes>", name=which, main=src, files={}, real_typeshed=True)
            r = compile_case(case, os.path.join(workroot, "ir-" + which))
            if not r["error"]:
                break
            bad = {fam.func_at_line(drop, ln) for ln in FAM.error_lines("\n".join(r.get("messages", [])), "native.py")}
            bad.discard(None)
            if not bad:
                raise MachineryError("family %s does not compile: %s" % (which, r["error"]))
            drop |= bad  # type: ignore[arg-type]
        else:
            raise MachineryError("family %s still does not compile after pruning: %s" % (which, r["error"]))
    finally:
        os.chdir(cwd)
    out = []
    for stage in ("rc", "final"):
        for fullname, rec in r[stage]:
            out.append(dict(prog="<probes>::" + which, stage=stage, fn=fullname,
                            nops=sum(len(b) for b in rec["blocks"]), nvals=rec["nv"],
                            tla=func_to_tla(rec), meta=rec["_meta"], vals=rec["_vals"]))
    used = sorted({nm.split(":", 1)[1] for f in out for blk in f["meta"] for nm, _ in blk if nm.startswith("CallC:")})
    dropped = sorted("%s (%s)" % (f["name"], f["desc"]) for f in fam.funcs if f["name"] in drop)
    return dict(funcs=out, source=src, cases=fam.live_cases(drop), dropped=dropped, info=info, c_functions_used=used,
                nfuncs=len(fam.funcs) - len(drop))


def build_family(d: str, opt: str, name: str, source: str, cases: list[dict[str, Any]]) -> None:
    """C extension of one table-driven family + its interpreted twin + the case tables."""
    os.makedirs(os.path.join(d, "interp"), exist_ok=True)
    bd = os.path.join(d, "build-" + name)
    os.makedirs(bd, exist_ok=True)
    for where in (bd, os.path.join(d, "interp")):
        with open(os.path.join(where, name + ".py"), "w", encoding="utf-8") as f:
            f.write(source)
    for where in (d, os.path.join(d, "interp")):
        with open(os.path.join(where, name + "_cases.json"), "w") as f:
            json.dump(cases, f)
        shutil.copyfile(RUNNER_SRC, os.path.join(where, "c06_runner.py"))
    env = repo_env({"MYPYC_OPT_LEVEL": opt, "MYPYC_DEBUG_LEVEL": "0"})
    p = subprocess.run([PY, "-m", "mypyc", name + ".py"], cwd=bd, env=env, capture_output=True, text=True, timeout=2400)
    so = [f for f in os.listdir(bd) if f.startswith(name + ".") and f.endswith(".so")]
    if p.returncode != 0 or not so:
        raise MachineryError("mypyc build of %s failed (-O%s): %s" % (name, opt, (p.stdout + p.stderr)[-1500:]))
    shutil.copyfile(os.path.join(bd, so[0]), os.path.join(d, so[0]))


def build_probes(d: str, opt: str, ngen: int) -> None:
    """Compile the probe module and the generated family to C extensions with the working tree's
    mypyc (real command line); each module is built by its own mypyc process."""
    mods = {"c06probes": open(PROBES_SRC, encoding="utf-8").read(), "c06gen": generated_source(ngen),
            "c06def": definedness_source()}
    os.makedirs(os.path.join(d, "interp"), exist_ok=True)
    shutil.copyfile(RUNNER_SRC, os.path.join(d, "c06_runner.py"))
    shutil.copyfile(RUNNER_SRC, os.path.join(d, "interp", "c06_runner.py"))
    env = repo_env({"MYPYC_OPT_LEVEL": opt, "MYPYC_DEBUG_LEVEL": "0"})

    def one(name: str) -> None:
        bd = os.path.join(d, "build-" + name)
        os.makedirs(bd, exist_ok=True)
        with open(os.path.join(bd, name + ".py"), "w", encoding="utf-8") as f:
            f.write(mods[name])
        # the interpreted twin (CPython baseline) lives in its own directory
        with open(os.path.join(d, "interp", name + ".py"), "w", encoding="utf-8") as f:
            f.write(mods[name])
        p = subprocess.run([PY, "-m", "mypyc", name + ".py"], cwd=bd, env=env, capture_output=True, text=True, timeout=2400)
        so = [f for f in os.listdir(bd) if f.startswith(name + ".") and f.endswith(".so")]
        if p.returncode != 0 or not so:
            raise MachineryError("mypyc build of %s failed (-O%s): %s" % (name, opt, (p.stdout + p.stderr)[-1500:]))
        shutil.copyfile(os.path.join(bd, so[0]), os.path.join(d, so[0]))

    with ThreadPoolExecutor(3) as ex:
        list(ex.map(one, sorted(mods)))


ISOLATED_CASES = ("gen_close_no_builtins",)


def run_probes(d: str, n: int, seed: int, only: str | None = None, module: str = "c06probes") -> dict[str, Any]:
    """Run the runner in a child; returns results and the cases during which a child died.  After a
    death the remaining cases run in a fresh child (at most MAX_DEATHS times), so that one crash does
    not hide the others."""
    env = dict(os.environ)
    env.pop("PYTHONPATH", None)
    env["PYTHONDONTWRITEBYTECODE"] = "1"
    env["PYTHONHASHSEED"] = "0"
    results: dict[tuple[str, str], dict[str, Any]] = {}
    deaths: list[dict[str, Any]] = []
    cmd = [PY, "c06_runner.py", module, str(n), str(seed)] + ([only] if only else [])
    while True:
        env["C06_SKIP"] = json.dumps(sorted("%s/%s" % k for k in results) + [x["case"] for x in deaths])
        try:
            p = subprocess.run(cmd, cwd=d, env=env, capture_output=True, text=True, timeout=600)
            out, err, rcode = p.stdout, p.stderr, p.returncode
        except subprocess.TimeoutExpired as e:   # a probe that never returns is as bad as one that crashes
            out = e.stdout.decode() if isinstance(e.stdout, bytes) else (e.stdout or "")
            err, rcode = "timeout: the child did not finish within 600s", "timeout"
        begun = None
        done = False
        for line in out.splitlines():
            if line.startswith("BEGIN "):
                begun = line[6:]
            elif line.startswith("RESULT "):
                r = json.loads(line[7:])
                results[(r["case"], r["kind"])] = r
                begun = None
            elif line == "DONE":
                done = True
        if done:
            break
        deaths.append(dict(case=begun or "?", rc=rcode, stderr=err[-500:]))
        if begun is None or len(deaths) >= MAX_DEATHS:
            break
    first = deaths[0] if deaths else None
    return dict(results=results, rc=first["rc"] if first else rcode, died_in=first["case"] if first else None,
                stderr=first["stderr"] if first else err[-800:], deaths=deaths)


MAX_DEATHS = 6
FAMILY_N = {"quick": 10, "thorough": 40}


# =========================================================================== main
FAMILIES = ("c06prim", "c06wrap")
MIN_FAMILY = {"c06prim": 200, "c06wrap": 80}
ALWAYS_FULL = ("run-generators.test", "run-exceptions.test")
# programs outside ALWAYS_FULL in which a known finding lives: always part of the quick tier
MUST = {("run-async.test", "testBorrowedFinalAttrAcrossAsyncComprehension")}
MIN_FUNCS = {"quick": 4000, "thorough": 12000}
RUN_SAMPLE = 0.12      # share of the remaining run-*.test programs the quick tier samples (seeded)


def select_cases(tier: str, rnd: random.Random) -> tuple[list[tuple[str, str]], dict[str, int]]:
    files = corpus_files()
    allc = list_cases(files)
    if tier != "quick":
        return allc, dict(available=len(allc), selected=len(allc))
    fixed = [c for c in allc if not c[0].startswith("run-") or c[0] in ALWAYS_FULL or c in MUST]
    rest = [c for c in allc if c not in set(fixed)]
    rnd.shuffle(rest)
    sel = fixed + sorted(rest[: int(len(rest) * RUN_SAMPLE)])
    return sel, dict(available=len(allc), selected=len(sel))


def nontrivial(f: dict[str, Any]) -> bool:
    """A function record is non-trivial when it contains reference-count traffic and a branch."""
    t = f["tla"]
    return ('k|->"branch"' in t) and ('k|->"inc"' in t or 'k|->"dec"' in t)


def main(argv: list[str]) -> int:
    tier, seed, replay = parse_args(argv)
    if replay:
        return do_replay(replay)
    v = Verdict(PID, tier, seed)
    rnd = random.Random(seed)
    root = scratch("c06-")
    t0 = time.time()
    sany(os.path.join(SPEC, "MC_Ownership.tla"))
    assumptions = [
        "ops are interpreted through the contracts mypyc/ir/ops.py declares (stolen(), is_borrowed, error_kind); "
        "whether the generated C honours them is what the probe runs check, for the probes only",
        "heap state is not modelled: a read of a spill slot (__mypyc_temp__2_N) is taken to be defined; "
        "always-defined attribute analysis is trusted statically (probed dynamically)",
        "registers whose address is taken (out parameters) are not tracked",
        "locals of types whose error value overlaps a real value (i64, float, ...) use a bitmap the machine does "
        "not interpret: their definedness is only probed dynamically",
        "out-of-memory failures of runtime helpers are not exercised dynamically",
    ]

    # ---- 0. the specification on its own: sample functions, and its mutants must be rejected
    cov: dict[str, Any] = {}
    states = transitions = 0
    r = tlc("MC_Ownership", "MC_Ownership_Sample.cfg", workers=2, heap="1g")
    if not r.ok:
        raise MachineryError("sample functions rejected: %s %s" % (r.violated, r.error))
    states += r.distinct
    transitions += r.generated
    mut = {}
    for name, inv in (("Leak", "NoLeak"), ("Double", "NoDoubleRelease"), ("Undef", "NoUndefRead"),
                      ("UseAfter", "NoUseAfterRelease"), ("Unchecked", "NoUndefRead")):
        rm = tlc("MC_Ownership", "Mut_Ownership_%s.cfg" % name, workers=1, heap="1g", coverage=False)
        mut[name] = rm.violated
        if not rm.violated:
            raise MachineryError("specification mutant %s not rejected by %s: %s %s" % (name, inv, rm.violated, rm.error))
    cov["spec_mutants_rejected"] = mut

    # ---- 1. dynamic binding: build the probe extension(s) in the background
    opts = ["0"] if tier == "quick" else ["0", "3"]
    ngen = {"0": 40 if tier == "quick" else 240, "3": 60}
    build_pool = ThreadPoolExecutor(3 * len(opts))
    builds = {o: build_pool.submit(build_probes, os.path.join(root, "dyn-O" + o), o, ngen[o]) for o in opts}

    # ---- 2. IR of the corpus from the real pipeline of the working tree
    cases, sel_stats = select_cases(tier, rnd)
    only = os.environ.get("C06_ONLY")   # development aid (mutant screening): restrict the corpus by regex
    if only:
        cases = [c for c in cases if re.search(only, c[0] + "::" + c[1])]
        print("WARNING: C06_ONLY=%s restricts the corpus to %d programs; not a valid check run" % (only, len(cases)), flush=True)
        v.notes.append("C06_ONLY=%s: corpus restricted, development run" % only)
    ex = export_corpus(cases, os.path.join(root, "exp"), nproc=14)
    funcs = ex["funcs"]
    with ProcessPoolExecutor(5, initializer=_worker_init) as pool:
        fam_f = [pool.submit(export_family, (root, w)) for w in FAMILIES]
        pe = list(pool.map(export_probes, [(root, "c06probes", 0), (root, "c06gen", ngen["0"]), (root, "c06def", 0)]))
        fams = {w: f.result() for w, f in zip(FAMILIES, fam_f)}
    pex = dict(funcs=pe[0]["funcs"] + pe[1]["funcs"] + pe[2]["funcs"] + [f for w in FAMILIES for f in fams[w]["funcs"]])
    fam_desc = {c["name"]: (w, c["desc"]) for w in FAMILIES for c in fams[w]["cases"]}
    for w in FAMILIES:
        if fams[w]["nfuncs"] < MIN_FAMILY[w] or len(fams[w]["cases"]) < 5 * MIN_FAMILY[w]:
            raise MachineryError("family %s shrank to %d functions / %d cases (dropped: %s)"
                                 % (w, fams[w]["nfuncs"], len(fams[w]["cases"]), fams[w]["dropped"][:5]))
    fam_builds = {(o, w): build_pool.submit(build_family, os.path.join(root, "dyn-O" + o), o, w, fams[w]["source"], fams[w]["cases"])
                  for o in opts for w in FAMILIES}
    n_corpus = len(funcs)
    print("exported %d function records (%d ops) from %d/%d programs in %.0fs; %d programs did not compile"
          % (n_corpus, sum(f["nops"] for f in funcs), ex["stats"]["compiled"], ex["stats"]["cases"],
             time.time() - t0, ex["stats"]["failed"]), flush=True)
    if n_corpus < (50 if only else MIN_FUNCS[tier]):
        raise MachineryError("only %d functions exported (minimum %d): the exporter is broken" % (n_corpus, MIN_FUNCS[tier]))
    if ex["stats"]["compiled"] < 0.9 * ex["stats"]["cases"]:
        raise MachineryError("only %d of %d corpus programs compiled" % (ex["stats"]["compiled"], ex["stats"]["cases"]))
    crashes = [f for f in ex["fails"] if "compiler crash" in f[2]]

    # ---- 3. TLC: every feasible path of every function, both stages
    t1 = time.time()
    nb = 12 if tier == "quick" else 32
    # identical records (the same helper / __top_level__ code in many programs) are explored once
    reps: dict[str, dict[str, Any]] = {}
    for f in funcs:
        rep = reps.setdefault(f["tla"], f)
        rep["dups"] = rep.get("dups", 0) + 1
    ufuncs = list(reps.values())
    res = run_batches(ufuncs, root, "corpus", nb=nb, workers=2, par=8)
    # TLC's -coverage is far too costly on the big data modules (it instruments every literal), so the
    # per-action coverage is measured on a small batch: for every kind of op the smallest function
    # containing it, plus the first functions of refcount.test
    kinds = ("goto", "unreach", "branch", "ret", "inc", "dec", "assign", "lev", "addr", "unborrow", "tget", "op")
    pick: dict[int, dict[str, Any]] = {}
    for kd in kinds:
        have = [f for f in ufuncs if ('k|->"%s"' % kd) in f["tla"]]
        if kd == "unreach":   # reachable in the machine only after an op whose failure is not a literal
            have = [f for f in have if any(nm == "RaiseStandardError" for blk in f["meta"] for nm, _ in blk)] or have
        for f0 in sorted(have, key=lambda f: (f["nops"], f["prog"], f["fn"], f["stage"]))[:6]:
            pick[id(f0)] = f0
    for f in [f for f in ufuncs if f["prog"].startswith("refcount.test") and f["nops"] < 40][:50]:
        pick[id(f)] = f
    cres = run_batches(list(pick.values()), root, "cover", nb=1, workers=2, coverage=True)
    pres = run_batches(pex["funcs"], root, "probes", nb=2, workers=2, cfg="Gen_Ownership_Exits.cfg", coverage=False)
    states += res["states"] + pres["states"]
    transitions += res["transitions"] + pres["transitions"]
    print("TLC: %d states, %d transitions, depth %d in %.0fs" % (states, transitions, res["depth"], time.time() - t1), flush=True)
    acts = {a: dt for a, dt in cres["cov"].items() if a.startswith("Do")}
    never = sorted(a for a, (d, t) in acts.items() if t == 0)
    if never or len(acts) < 12:
        raise MachineryError("actions never fired in the coverage batch: %s (seen %s)" % (never, sorted(acts)))
    opkinds: dict[str, int] = {}
    for f in funcs:
        for kd in kinds:
            opkinds[kd] = opkinds.get(kd, 0) + f["tla"].count('k|->"%s"' % kd)
    cov["Ownership"] = {"per_action": {a: {"distinct": d, "total": t} for a, (d, t) in sorted(acts.items())},
                        "never_fired": never, "per_action_measured_on": "coverage batch of %d functions (%d states)" % (len(pick), cres["states"]),
                        "ops_by_kind_in_all_explored_functions": opkinds,
                        "states": res["states"], "transitions": res["transitions"]}

    # ---- 4. verdict of the static part
    by_key: dict[str, list[dict[str, Any]]] = {}
    for b in res["bad"] + pres["bad"]:
        by_key.setdefault(bad_key(b), []).append(b)
    inv_counts: dict[str, int] = {"NoLeak": 0, "NoDoubleRelease": 0, "NoUndefRead": 0, "NoUseAfterRelease": 0}
    new_static = 0
    for key in sorted(by_key):
        bs = by_key[key]
        b = min(bs, key=lambda x: (x["f"]["nops"], x["f"]["prog"], x["f"]["stage"]))
        affected = sum(x["f"].get("dups", 1) for x in bs)
        inv_counts[b["inv"]] = inv_counts.get(b["inv"], 0) + affected
        if key in v.known:
            for _ in range(affected):
                v.violation(key, None)
            continue
        new_static += 1
        if new_static > 12:
            v.violation(key, {"kind": "ir", "prog": b["f"]["prog"], "fn": b["f"]["fn"], "stage": b["f"]["stage"]},
                        "%s (not re-confirmed: too many new violations)" % key)
            continue
        violated, trace = confirm_with_tlc(b, root)
        if violated != b["inv"]:
            raise MachineryError("collection run reported %s for %s but the halting run says %s" % (b["inv"], key, violated))
        opname = b["f"]["meta"][b["blk"] - 1][b["idx"] - 1]
        v.violation(key, {"kind": "ir", "prog": b["f"]["prog"], "fn": b["f"]["fn"], "stage": b["f"]["stage"],
                          "block": b["blk"], "op_index": b["idx"], "op": opname[0], "source_line": opname[1],
                          "value": b["wv"], "value_name": (b["f"]["vals"][b["wv"] - 1] if b["wv"] else ""),
                          "reason": b["why"], "invariant": b["inv"], "functions_affected": affected,
                          "ir": ir_text(b["f"]["prog"], b["f"]["stage"], b["f"]["fn"], root),
                          "tlc_counterexample": trace},
                    "TLC: invariant %s violated (%s) in %s %s [%s IR] at block L%d op %d (%s, line %d); %d function records affected"
                    % (b["inv"], b["why"], b["f"]["prog"], b["f"]["fn"], b["f"]["stage"], b["blk"] - 1, b["idx"], opname[0], opname[1], affected))

    # ---- 5. dynamic binding: machine predictions vs the compiled extension vs CPython
    exits: dict[str, set[str]] = {}
    cut = {b["f"]["fn"] for b in pres["bad"]}     # paths of these functions end in a bad state: no prediction
    for (prog, stage, fn), kinds in pres["ends"].items():
        if stage == "final" and fn not in cut:
            exits[fn] = kinds
    dyn_compared = 0
    noisy: list[str] = []
    result_diffs: dict[str, str] = {}
    def_index = definedness_index()
    other_diffs: list[str] = []
    dyn_samples: list[Any] = []
    drift: list[str] = []
    for o in opts:
        try:
            builds[o].result()
        except MachineryError as e:
            if not v.violations:
                raise
            # the IR is already known to be broken; that the C compiler rejects the result is a consequence
            v.notes.append("dynamic binding skipped at -O%s: %s" % (o, str(e)[:300]))
            print("NOTE: dynamic binding skipped at -O%s (build failed, violations already reported)" % o, flush=True)
            continue
        try:
            for w in FAMILIES:
                fam_builds[(o, w)].result()
        except MachineryError as e:
            if not v.violations:
                raise
            v.notes.append("family build failed at -O%s: %s" % (o, str(e)[:300]))
            continue
        d = os.path.join(root, "dyn-O" + o)
        n = 30 if tier == "quick" else 200
        comp = run_probes(d, n, seed)
        base = run_probes(os.path.join(d, "interp"), max(5, n // 6), seed)
        gcomp = run_probes(d, max(10, n // 4), seed, module="c06gen")
        gbase = run_probes(os.path.join(d, "interp"), 5, seed, module="c06gen")
        dcomp = run_probes(d, max(10, n // 4), seed, module="c06def")
        dbase = run_probes(os.path.join(d, "interp"), 5, seed, module="c06def")
        for bb in (base, gbase, dbase):
            if bb["died_in"] or bb["rc"] != 0:
                raise MachineryError("interpreted baseline run failed: %s %s" % (bb["died_in"], bb["stderr"]))
        if len(gcomp["results"]) < 6 * ngen[o] and not gcomp["died_in"]:
            raise MachineryError("generated-family runner produced only %d results" % len(gcomp["results"]))
        if len(dcomp["results"]) < 12 * len(def_index) and not dcomp["died_in"]:
            raise MachineryError("definedness-family runner produced only %d results" % len(dcomp["results"]))
        fam_runs = []
        for w in FAMILIES:
            fc = run_probes(d, FAMILY_N[tier], seed, module=w)
            fb = run_probes(os.path.join(d, "interp"), 4, seed, module=w)
            if fb["died_in"] or fb["rc"] != 0:
                raise MachineryError("interpreted baseline run of %s failed: %s %s" % (w, fb["died_in"], fb["stderr"]))
            if len(fc["results"]) + len(fc["deaths"]) < 0.9 * len(fams[w]["cases"]):
                raise MachineryError("family %s: only %d of %d cases produced a result" % (w, len(fc["results"]), len(fams[w]["cases"])))
            fam_runs.append((fc, fb))
        for extra_c, extra_b in [(gcomp, gbase), (dcomp, dbase)] + fam_runs:
            comp["results"].update(extra_c["results"])
            base["results"].update(extra_b["results"])
        deaths = [comp, gcomp, dcomp] + [fc for fc, _ in fam_runs]
        for iso in ISOLATED_CASES:     # cases that may kill the process run in a child of their own
            ci = run_probes(d, 3, seed, only=iso)
            bi = run_probes(os.path.join(d, "interp"), 3, seed, only=iso)
            if bi["died_in"] or bi["rc"] != 0 or not bi["results"]:
                raise MachineryError("interpreted baseline of isolated case %s failed: %s" % (iso, bi["stderr"]))
            comp["results"].update(ci["results"])
            base["results"].update(bi["results"])
            deaths.append(ci)
        for cd in deaths:
            for dd in cd["deaths"]:
                case = family_key(dd["case"].split("/")[0], def_index)
                if case in fam_desc:
                    case = "%s:%s" % (fam_desc[case][0][3:], fam_desc[case][1])
                dyn_compared += 1
                v.violation("dyn:crash:" + case, {"kind": "dyn", "case": dd["case"].split("/"), "opt": o, "rc": dd["rc"]},
                            "the child running the compiled probe module died (exit %s) during case %s [%s] at -O%s (CPython runs the same case fine): %s"
                            % (dd["rc"], dd["case"], case, o, dd["stderr"][-300:]))
        if len(comp["results"]) < 50 and not comp["died_in"]:
            raise MachineryError("probe runner produced only %d results" % len(comp["results"]))
        for ck in sorted(comp["results"]):
            rc_ = comp["results"][ck]
            rb = base["results"].get(ck)
            if rb is None:
                raise MachineryError("baseline has no result for %s" % (ck,))
            in_family = rc_["case"] in fam_desc
            if rb["delta"] != [0, 0]:
                if in_family:     # the call itself keeps the object (interned attribute name, stored in the receiver ...)
                    noisy.append("%s/%s" % ck)
                    continue
                raise MachineryError("harness noise: interpreted baseline changes reference counts in %s: %s" % (ck, rb))
            dyn_compared += 1
            case = rc_["case"]
            if in_family:
                w, desc = fam_desc[case]
                if max(abs(x) for x in rc_["delta"]) < rc_["n"] // 2:
                    rc_ = dict(rc_, delta=[0, 0])      # a one-off (cache, interning), not a per-call imbalance
                case = "%s:%s:%s" % (w[3:], desc, "+".join(rc_["outs"])) if w == "c06prim" else "%s:%s" % (w[3:], desc)
                if not rc_["typed"] and (rc_["outs"] != rb["outs"] or rc_.get("value") != rb.get("value")):
                    if w == "c06wrap" and ("TypeError" in rc_["outs"]) != ("TypeError" in rb["outs"]):
                        v.violation("dyn:binding:" + case, {"kind": "dyn", "case": ck, "opt": o, "compiled": rc_["outs"], "cpython": rb["outs"]},
                                    "wrapper of %s: compiled %s, CPython %s (argument binding must raise TypeError exactly where CPython does)"
                                    % (case, rc_["outs"], rb["outs"]))
                    else:
                        result_diffs[case] = "%s %s vs CPython %s %s" % (rc_["outs"], (rc_.get("value") or "")[:60], rb["outs"], (rb.get("value") or "")[:60])
            if len(dyn_samples) < 3 and rc_["outs"] != ["ret"]:
                dyn_samples.append({"case": "%s/%s" % ck, "opt": "O" + o, "compiled": rc_["outs"], "cpython": rb["outs"],
                                    "refcount_delta_after_%d_calls" % n: rc_["delta"],
                                    "machine_exits": sorted(exits.get("native." + rc_["fn"], []))})
            per_call = [x / float(rc_["n"]) for x in rc_["delta"]]
            if re.match(r"g\d+\.", case):
                # the generated family: findings are keyed by the way the call ended, not by the function
                case = "<generated>:" + "+".join(rc_["outs"])
            elif re.match(r"d\d+\.", case):
                case = family_key(case, def_index)
            if any(x > 0 for x in rc_["delta"]):
                v.violation("dyn:leak:" + case, {"kind": "dyn", "case": ck, "opt": o, "result": rc_},
                            "compiled %s leaks: refcount delta %s after %d calls (%s per call) on %s objects, outcome %s; CPython: balanced"
                            % (case, rc_["delta"], rc_["n"], per_call, ck[1], rc_["outs"]))
            if any(x < 0 for x in rc_["delta"]):
                v.violation("dyn:over-release:" + case, {"kind": "dyn", "case": ck, "opt": o, "result": rc_},
                            "compiled %s releases references it does not own: refcount delta %s after %d calls on %s objects"
                            % (case, rc_["delta"], rc_["n"], ck[1]))
            # the property's own oracle for undefined reads: UnboundLocalError / AttributeError exactly
            # where CPython raises them (other differences in behaviour are not C06's business)
            # (UnboundLocalError / NameError / AttributeError count as one class: mypyc keeps generator
            # locals in attributes of the environment object and reports them with AttributeError)
            undef = {"UnboundLocalError", "AttributeError", "NameError"}
            if in_family:
                pass      # the families compare results / binding errors themselves (above)
            elif not rc_["typed"] and bool(set(rc_["outs"]) & undef) != bool(set(rb["outs"]) & undef):
                v.violation("dyn:undefined-read:" + family_key(rc_["case"], def_index),
                            {"kind": "dyn", "case": ck, "opt": o, "compiled": rc_["outs"], "cpython": rb["outs"]},
                            "compiled %s: outcomes %s, CPython: %s (an undefined local / attribute must raise as in CPython)"
                            % (family_key(rc_["case"], def_index), rc_["outs"], rb["outs"]))
            elif not rc_["typed"] and rc_["outs"] != rb["outs"]:
                other_diffs.append("%s/%s: %s vs %s" % (ck[0], ck[1], rc_["outs"], rb["outs"]))
            # the machine's prediction of how the function can be left
            ek = exits.get("native." + rc_["fn"])
            if ek is not None and not (in_family and fam_desc[rc_["case"]][0] == "c06wrap"):
                for out in rc_["outs"]:
                    if rc_["typed"] and out == "TypeError":
                        continue   # may come from the argument conversion of the Python-level wrapper, not the body
                    need = "value" if out == "ret" else "error"
                    if need not in ek:
                        drift.append("%s: observed %s but the machine's paths of %s end in %s" % (ck, out, rc_["fn"], sorted(ek)))
    build_pool.shutdown()
    if drift and not v.violations:
        raise MachineryError("model drift (the machine does not describe the compiled code): " + "; ".join(drift[:5]))
    if dyn_compared == 0 and not v.violations:
        raise MachineryError("the dynamic binding step did not run")

    # ---- 6. evidence
    n_nontrivial = sum(1 for f in ufuncs if nontrivial(f))
    progs = sorted({f["prog"] for f in funcs})
    sample_f = next((f for f in funcs if f["prog"].startswith("refcount.test") and nontrivial(f)), funcs[0])
    coverage = {
        "states": states, "transitions": transitions,
        "traces_validated_against_impl": dyn_compared,
        "evaluations": n_corpus + len(pex["funcs"]) + dyn_compared,
        "distinct_nontrivial": n_nontrivial,
        "rule": "every function of every selected corpus program, exported at two pipeline stages (after "
                "insert_ref_count_opcodes [+ spills for generators], and final IR); TLC explores every feasible CFG path of each; "
                "distinct = distinct exported records; non-trivial = the record contains a branch and at least one inc_ref/dec_ref. "
                "quick tier: all irbuild-*/refcount/exceptions/lowering/opt programs + run-generators/run-exceptions + a "
                "seeded %d%% sample of the other run-*.test programs; thorough: the whole corpus" % int(RUN_SAMPLE * 100),
        "function_records_checked": n_corpus, "distinct_function_records": len(ufuncs),
        "ir_ops": sum(f["nops"] for f in funcs),
        "programs": len(progs), "programs_available": sel_stats["available"], "programs_not_compiling": ex["stats"]["failed"],
        "compiler_crashes_on_corpus_programs": [list(c) for c in crashes][:10],
        "bad_states_by_invariant": inv_counts,
        "dynamic_probe_runs_compared": dyn_compared, "dynamic_opt_levels": ["-O" + o for o in opts],
        "generated_functions": ngen, "definedness_family_functions": len(def_index),
        "definedness_family": "%d local types x %d shapes, each x 3 callee behaviours x 2 flags x 2 object kinds"
                              % (len(DEF_TYPES), len(DEF_SHAPES)),
        "behaviour_differences_outside_property": other_diffs[:10],
        "primitive_contract_family": {
            "functions": fams["c06prim"]["nfuncs"], "cases": len(fams["c06prim"]["cases"]),
            "registry_c_functions_targeted": len(fams["c06prim"]["info"]["registry_c_functions"]),
            "registry_c_functions_reached_in_ir": len(set(fams["c06prim"]["info"]["registry_c_functions"]) & set(fams["c06prim"]["c_functions_used"])),
            "registry_c_functions_not_reached": sorted(set(fams["c06prim"]["info"]["registry_c_functions"]) - set(fams["c06prim"]["c_functions_used"])),
            "distinct_c_functions_called": len(fams["c06prim"]["c_functions_used"]),
            "registry_entries_not_expressible": fams["c06prim"]["info"]["skipped"],
            "templates_rejected_by_the_front_end": fams["c06prim"]["dropped"]},
        "wrapper_family": {"functions_and_methods": fams["c06wrap"]["nfuncs"], "cases": len(fams["c06wrap"]["cases"])},
        "family_cases_skipped_as_self_retaining": len(noisy),
        "result_differences_to_cpython_outside_property": dict(list(sorted(result_diffs.items()))[:25]),
        "result_differences_to_cpython_count": len(result_diffs),
        "probe_functions_model_checked": len(pex["funcs"]),
        "search_depth": res["depth"],
        "samples": [{"function": sample_f["prog"] + " " + sample_f["fn"] + " [" + sample_f["stage"] + "]",
                     "record": sample_f["tla"][:1500]}] + dyn_samples,
        "tlc": cov,
        "exhaustive": tier == "thorough",
        "wall_export_s": round(t1 - t0, 1),
    }
    return v.finish("model_checking", coverage, assumptions)


def do_replay(path: str) -> int:
    """Re-run one recorded violation: the static ones re-export the program from the working tree and
    let TLC check that single function with the halting invariants."""
    with open(path) as f:
        rep = json.load(f)
    r = rep.get("replay") or {}
    root = scratch("c06-replay-")
    if r.get("kind") == "ir":
        if _REAL_INSERT[0] is None:
            _worker_init()
        fname, name = r["prog"].split("::")
        if fname == "<probes>":
            funcs = export_probes((root, name, 240))["funcs"]
        else:
            funcs = export_file((fname, root, [name]))["funcs"]
        hit = [f for f in funcs if f["fn"] == r["fn"] and f["stage"] == r["stage"]]
        if not hit:
            raise MachineryError("function %s not found when re-exporting %s" % (r["fn"], r["prog"]))
        violated, trace = confirm_with_tlc(dict(f=hit[0], why=r.get("reason", "")), root)
        print("replay: %s %s [%s]: %s" % (r["prog"], r["fn"], r["stage"], "invariant %s violated" % violated if violated else "no violation"))
        print(trace[-2500:])
        return 1 if violated else 0
    if r.get("kind") == "dyn":
        d = os.path.join(root, "dyn")
        build_probes(d, r.get("opt", "0"), 240)
        mod = "c06probes"
        if isinstance(r["case"], list) and re.match(r"[gd]\d+\.", r["case"][0]):
            mod = "c06gen" if r["case"][0].startswith("g") else "c06def"
        only = r["case"][0] if isinstance(r["case"], list) and r["case"][0] in ISOLATED_CASES else None
        comp = run_probes(d, 50, 0, only=only, module=mod)
        ck = tuple(r["case"]) if isinstance(r["case"], list) else None
        res = comp["results"].get(ck) if ck else None
        print("replay:", r["case"], "->", res, "died_in:", comp["died_in"])
        bad = comp["died_in"] is not None or (res is not None and res["delta"] != [0, 0])
        return 1 if bad else 0
    raise MachineryError("unknown replay file")




# =========================================================================== generated programs
GEN_STRUCT_SEED = 20260925   # the generated family is fixed; VERIF_SEED only permutes execution order


def _gen_block(rnd: random.Random, depth: int, budget: int, ind: str, in_loop: bool) -> list[str]:
    out: list[str] = []
    for _ in range(budget):
        k = rnd.randrange(16 if depth < 2 else 10)
        if k == 0:
            out.append(ind + rnd.choice(["x = y", "y = x", "x = a", "y = b", "x = t[0]", "y = t[1]", "x = l[0]", "y = [x, b]", "x = (x, y)"]))
        elif k == 1:
            out.append(ind + rnd.choice(["l.append(x)", "l = [y, x]", "l = l + [a]", "l.append(l[0])"]))
        elif k == 2:
            out.append(ind + rnd.choice(["t = (y, x)", "t = (t[1], t[0])", "x, y = t", "x, y = y, x", "t = (t[0], a)"]))
        elif k == 3:
            out.append(ind + "f()")
        elif k == 4:
            out.append(ind + rnd.choice(["d = {a: x}", "d[b] = y", "x = d[a]", "y = d.get(b)"]))
        elif k == 5:
            out.append(ind + rnd.choice(["if c:", "if not c:", "if len(l) > 1:"]))
            out.append(ind + "    " + rnd.choice(["return x", "return [l, t]", "raise KeyError(y)", "w = x", "return (x, y)"]))
        elif k == 6:
            out.append(ind + rnd.choice(["x = w", "y = [w]"]))
        elif k == 7:
            out.append(ind + rnd.choice(["s = s + 'p'", "x = s", "n = n + (1 << 70)", "y = n", "x = str(n)"]))
        elif k == 8:
            out.append(ind + rnd.choice(["x = K(x).v", "k = K(y)", "k.v = x", "y = k.v"]))
        elif k == 9:
            out.append(ind + ("break" if in_loop and rnd.random() < 0.5 else "x = [x]"))
        elif k in (10, 11):
            out.append(ind + rnd.choice(["if c:", "if isinstance(x, list):", "if len(l) > 2:"]))
            out += _gen_block(rnd, depth + 1, rnd.randint(1, 3), ind + "    ", in_loop)
            if rnd.random() < 0.6:
                out.append(ind + "else:")
                out += _gen_block(rnd, depth + 1, rnd.randint(1, 2), ind + "    ", in_loop)
        elif k == 12:
            out.append(ind + rnd.choice(["for v in [a, b]:", "for i in range(2):", "for v in (x, y):"]))
            out += _gen_block(rnd, depth + 1, rnd.randint(1, 3), ind + "    ", True)
        else:
            # (no break inside try: mypyc does not implement break/continue through try/finally)
            out.append(ind + "try:")
            out += _gen_block(rnd, depth + 1, rnd.randint(1, 2), ind + "    ", False)
            out.append(ind + "    f()")
            out += _gen_block(rnd, depth + 1, rnd.randint(0, 2), ind + "    ", False)
            form = rnd.randrange(3)
            if form in (0, 2):
                out.append(ind + rnd.choice(["except ValueError:", "except ValueError as e:", "except (ValueError, KeyError):"]))
                out += _gen_block(rnd, depth + 1, rnd.randint(1, 2), ind + "    ", False)
            if form in (1, 2):
                out.append(ind + "finally:")
                out += _gen_block(rnd, depth + 1, rnd.randint(1, 2), ind + "    ", False)
    return out


def generated_source(nfuncs: int) -> str:
    """A fixed (seed-independent) family of small functions over tracked objects: assignments, tuples,
    lists, dicts, native attributes, loops, try/except/finally, early returns, raises, maybe-undefined `w`."""
    rnd = random.Random(GEN_STRUCT_SEED)
    src = ["from typing import Any, Optional", "", "",
           "class K:", "    def __init__(self, v: object) -> None:", "        self.v = v", "", ""]
    for i in range(nfuncs):
        src.append("def g%d(a: object, b: object, f: Any, c: bool) -> object:" % i)
        src += ["    x: Any = a", "    y: Any = b", "    l: list[object] = [a]",
                "    t: tuple[object, object] = (a, b)", "    d: dict[object, object] = {}",
                "    s: str = 'q'", "    n: int = 1 << 65", "    k: K = K(a)"]
        if rnd.random() < 0.5:
            src.append("    w: Any = b")
        else:
            src += ["    if c:", "        w: Any = a"]
        src += _gen_block(rnd, 0, rnd.randint(3, 7), "    ", False)
        src += ["    return [x, y, l, t, d, s, n, k]", "", ""]
    return "\n".join(src) + "\n"



# =========================================================================== definedness family
# A fully enumerated (not sampled) family: every local TYPE x every SHAPE in which a local may be
# unbound when it is read or released.  Every function has the signature (a, b, f, c) of the generated
# family, so the runner calls it with every callee behaviour (returns / raises ValueError / raises
# KeyError) x flag: each local type x each shape x each way of leaving x defined / undefined.
# The types include the unboxed aggregates (tuples, nested tuples, tuples mixing int / float and
# object items), whose release is open-coded per item by the C backend, and a bitmap-tracked type.
DEF_TYPES = [
    ("obj", "object", "a"),
    ("lst", "list[object]", "[a, b]"),
    ("big", "int", "len(l) + (1 << 70)"),
    ("str", "str", "str(len(l)) + 'x'"),
    ("nat", "K", "K(a)"),
    ("flt", "float", "len(l) + 0.5"),
    ("tup", "tuple[object, object]", "(a, b)"),
    ("tin", "tuple[int, object]", "(len(l) + (1 << 70), a)"),
    ("tfl", "tuple[float, object, str]", "(len(l) + 0.5, b, str(len(l)))"),
    ("tne", "tuple[tuple[object, object], object]", "((a, b), b)"),
    ("tnn", "tuple[object, tuple[int, tuple[object, str]]]", "(a, (len(l) + (1 << 70), (b, str(len(l)))))"),
]

# {T} type, {E} expression, {MK} a call that first calls f() (which may raise) and then returns {E}
DEF_SHAPES = [
    ("cond_same", """
    if c:
        v: {T} = {E}
    f()
    if c:
        return [v]
    return [l]"""),
    ("cond_read", """
    if c:
        v: {T} = {E}
    f()
    return [v]"""),
    ("try_after", """
    try:
        f()
        v: {T} = {E}
    except ValueError:
        l.append(b)
    return [v]"""),
    ("handler_read", """
    try:
        v: {T} = {MK}
    except ValueError:
        l.append(b)
        return [v]
    return [v, l]"""),
    ("nested_in_finally", """
    try:
        l.append(a)
        try:
            v: {T} = {MK}
        except ValueError:
            l.append(b)
            return [v]
    finally:
        l.append(a)
    return [v, l]"""),
    ("nested_in_finally_after", """
    try:
        l.append(a)
        try:
            v: {T} = {MK}
        except ValueError:
            l.append(b)
        l.append([v])
    finally:
        l.append(a)
    return [l]"""),
    ("nested_loop_in_finally", """
    try:
        for i in range(2):
            l.append(a)
            try:
                v: {T} = {MK}
            except ValueError:
                l.append(b)
            l.append([v])
    finally:
        l.append(a)
    return [l]"""),
    ("nested_in_except", """
    try:
        l.append(a)
        try:
            v: {T} = {MK}
        except ValueError:
            l.append([v])
    except KeyError:
        l.append(b)
    return [v, l]"""),
    ("nested_finally_in_except", """
    try:
        l.append(a)
        try:
            v: {T} = {MK}
        finally:
            l.append(b)
    except ValueError:
        return [v]
    return [v, l]"""),
    ("nested_three", """
    try:
        l.append(a)
        try:
            l.append(b)
            try:
                v: {T} = {MK}
            except ValueError:
                l.append([v])
        finally:
            l.append(a)
    except KeyError:
        return [v]
    return [v, l]"""),
    ("nested_in_with", """
    with DefCtx(c):
        l.append(a)
        try:
            v: {T} = {MK}
        except KeyError:
            l.append([v])
    return [v, l]"""),
    ("nested_in_loop_else", """
    for i in range(2):
        l.append(a)
        try:
            if c or i == 1:
                v: {T} = {MK}
        except ValueError:
            return [v]
    else:
        l.append(b)
    return [v, l]"""),
    ("loop_alternate", """
    for i in range(3):
        if c and i == 1:
            v: {T} = {E}
        l.append(a)
    f()
    return [v]"""),
    ("cond_del", """
    v: {T} = {E}
    if c:
        del v
    f()
    return [v]"""),
    ("reassign_in_try", """
    if c:
        v: {T} = {E}
    try:
        f()
        v = {E}
        f()
    except ValueError:
        return [v]
    finally:
        l.append(a)
    return [v, l]"""),
    ("finally_return", """
    return [fr_{N}(f, a, b, l), l]"""),
    ("generator", """
    return list(dg_{N}(a, b, f, c, l))"""),
]


def definedness_source() -> str:
    src = ["from typing import Any, Iterator", "", "",
           "class K:", "    def __init__(self, v: object) -> None:", "        self.v = v", "", "",
           "class DefCtx:", "    def __init__(self, swallow: bool) -> None:", "        self.swallow = swallow", "",
           "    def __enter__(self) -> None:", "        pass", "",
           "    def __exit__(self, x: object, y: object, z: object) -> bool:", "        return self.swallow", "", ""]
    for name, typ, expr in DEF_TYPES:
        src += ["def mk_%s(f: Any, a: object, b: object, l: list[object]) -> %s:" % (name, typ),
                "    f()", "    return %s" % expr, "", "",
                "def fr_%s(f: Any, a: object, b: object, l: list[object]) -> %s:" % (name, typ),
                "    try:", "        f()", "        return %s" % expr, "    finally:", "        l.append(a)", "", "",
                "def dg_%s(a: object, b: object, f: Any, c: bool, l: list[object]) -> Iterator[object]:" % name,
                "    if c:", "        v: %s = %s" % (typ, expr), "    yield a", "    f()", "    yield [v]", "", ""]
    i = 0
    for sname, body in DEF_SHAPES:
        for name, typ, expr in DEF_TYPES:
            src.append("def d%d(a: object, b: object, f: Any, c: bool) -> object:" % i)
            src.append("    # %s / %s" % (sname, name))
            src.append("    l: list[object] = [a]")
            src += body.format(T=typ, E=expr, MK="mk_%s(f, a, b, l)" % name, N=name).strip("\n").split("\n")
            src += ["", ""]
            i += 1
    return "\n".join(src) + "\n"


def definedness_index() -> list[str]:
    return ["%s/%s" % (sname, name) for sname, _ in DEF_SHAPES for name, _, _ in DEF_TYPES]


if __name__ == "__main__":
    try:
        sys.exit(main(sys.argv[1:]))
    except MachineryError as e:
        print("MACHINERY FAILURE:", e, file=sys.stderr)
        sys.exit(2)
    except Exception:  # an unexpected failure of the machinery is never a verdict about mypy
        import traceback
        traceback.print_exc()
        print("MACHINERY FAILURE: unexpected failure of the machinery", file=sys.stderr)
        sys.exit(2)
    except Exception:  # anything unexpected is a failure of the machinery, never a verdict
        import traceback
        traceback.print_exc()
        print("MACHINERY FAILURE: unexpected exception", file=sys.stderr)
        sys.exit(2)
