"""C04 — a killed run or a failed cache write never makes later runs wrong.

Specification: spec/Incremental.tla with Crash and failing writes as independently enabled actions
(both stores).  TLC checks OutEqualsCold / FreshIsRight over every interleaving; the specification
mutants (one per protocol safeguard of the code) must be rejected.  Binding: for base histories
`run ; edit ; run<fault> ; (nothing | revert | other edit) ; run ; edit a ; run` over catalogue M
(aligned with the specification) and a sample of catalogue R, the REAL faulted run is killed after
each of its store operations (real process death of a forked child) or has each (pair) of its
writes fail, and every later run is compared with a cold run of the same mypy on the same files.
The recorded store traces are validated against Trace_Incremental.tla.
"""
from __future__ import annotations

import json
import os

os.environ["VERIF_NO_ROUNDTRIP"] = "1"  # the record round-trip binding (world._hook_roundtrip) belongs to C02
import random
import shutil
import sys
import time
from concurrent.futures import ProcessPoolExecutor
from typing import Any

from harness.common import MachineryError, SPEC, Verdict, coverage_summary, parse_args, sany, scratch, tlc
from harness import world as W
from harness.tracecheck import validate_store_traces

PID = "C04"
_cold_cache: dict[str, Any] = {}


def cold(root: str, tree: W.Tree) -> dict[str, Any]:
    key = json.dumps(tree.world, sort_keys=True)
    if key not in _cold_cache:
        _cold_cache[key] = W.run_build(root, cache_dir=None, record=False)
    return _cold_cache[key]


def diff(warm: dict[str, Any], cold_: dict[str, Any]) -> str | None:
    if warm.get("crash"):
        return "internal error: " + warm["crash"][-400:]
    if W.norm(warm) != W.norm(cold_):
        return "warm: status %s %r  cold: status %s %r" % (warm["status"], warm["messages"], cold_["status"], cold_["messages"])
    return None


def scenario_worker(args: tuple[int, dict[str, Any]]) -> dict[str, Any]:
    """All faults of one base history. Returns counts, violations, sample traces."""
    idx, job = args
    W.preload()
    store, fmt = job["cfg"]
    w0, w1 = job["w0"], job["w1"]
    root = scratch("c04-")
    src = os.path.join(root, "src")
    cache = os.path.join(root, "cache")
    snap = os.path.join(root, "snap")
    out: dict[str, Any] = {"scenarios": 0, "nontrivial": 0, "violations": [], "traces": [], "kills": 0, "fails": 0, "ops": 0}
    t = W.Tree(src)
    t.apply(w0)
    r0 = W.run_build(src, cache_dir=cache, store=store, fmt=fmt, tick=t.tick); t.tick = r0["tick"]
    d = diff(r0, cold(src, t))
    if d:
        out["violations"].append({"key": "nofault:" + json.dumps([w0]), "what": d, "replay": job})
        return out
    t.apply(w1)
    base_tick = t.tick
    base_world = dict(t.world)
    os.makedirs(cache, exist_ok=True)
    shutil.copytree(cache, snap + "-cache")
    shutil.copytree(src, snap + "-src")

    def restore() -> None:
        shutil.rmtree(cache); shutil.copytree(snap + "-cache", cache)
        shutil.rmtree(src); shutil.copytree(snap + "-src", src)
        t.tick = base_tick
        t.world = dict(base_world)

    # reference (unfaulted) run: counts the store operations of the run that follows the edit
    ref = W.run_build(src, cache_dir=cache, store=store, fmt=fmt, tick=base_tick)
    nops, nwrites = ref["nops"], ref["nwrites"]
    out["ops"] = nops
    faults: list[dict[str, Any]] = [{"kill": k} for k in range(1, nops)]
    faults += [{"fail": [i]} for i in range(1, nwrites + 1)]
    if job.get("pairs"):
        faults += [{"fail": [i, j]} for i in range(1, nwrites + 1) for j in range(i + 1, nwrites + 1)]
    followups = job["followups"]
    for fault in faults:
        for fu in followups:
            out["scenarios"] += 1
            restore()
            rf = W.run_build(src, cache_dir=cache, store=store, fmt=fmt, tick=t.tick,
                             kill_after=fault.get("kill"), fail_writes=set(fault.get("fail", [])))
            t.tick = max(t.tick, rf["tick"])
            if "kill" in fault:
                out["kills"] += 1
                if not rf["killed"]:
                    raise MachineryError("kill point %r not reached (%d ops)" % (fault, rf["nops"]))
            else:
                out["fails"] += 1
                d = diff(rf, cold(src, t))   # a run with failed writes must itself report correctly
                if d:
                    out["violations"].append({"key": "failrun:" + json.dumps([store, w0, w1, fault]), "what": d,
                                              "replay": dict(job, fault=fault, followup=fu)})
            runs = [r0["trace"], rf["trace"]]
            killed = [False, bool(rf["killed"])]
            steps = {"none": [], "revert": [w0], "other": [job["w2"]] if job.get("w2") else []}[fu]
            # after the (optional) edit a clean run; then toggle `a` (forces dependants to load trees from data records)
            seq = steps + [None, "toggle-a"]
            bad = None
            for step in seq:
                if step == "toggle-a":
                    cur = dict(t.world)
                    alts = [x for x in (W.MVARIANTS["a"] if cur["a"] in W.MVARIANTS["a"] else ["a0", "a2"]) if x != cur["a"]]
                    cur["a"] = alts[0]
                    t.apply(cur)
                elif step is not None:
                    t.apply(step)
                    continue
                r = W.run_build(src, cache_dir=cache, store=store, fmt=fmt, tick=t.tick); t.tick = r["tick"]
                runs.append(r["trace"]); killed.append(False)
                d = diff(r, cold(src, t))
                if d:
                    bad = d
                    break
            if rf.get("killed") or fault.get("fail"):
                out["nontrivial"] += 1
            if bad:
                key = "fault:" + json.dumps({"store": store, "w0": w0, "w1": w1, "fault": fault, "followup": fu}, sort_keys=True)
                out["violations"].append({"key": key, "what": bad, "replay": dict(job, fault=fault, followup=fu)})
            if len(out["traces"]) < 6 or bad:
                out["traces"].append({"fault": fault, "followup": fu, "sqlite": store == "sqlite", "runs": runs, "killed": killed})
    shutil.rmtree(root, ignore_errors=True)
    return out


def parallel_fault_scenario(job: dict[str, Any]) -> dict[str, Any]:
    """A worker of a real parallel build is killed after its k-th store operation (or has its i-th write fail);
    the runs that follow (sequential and parallel, with further edits) must report what a cold run reports."""
    from harness import par
    W.preload()
    root = scratch("c04p-")
    src, cache, gate = os.path.join(root, "src"), os.path.join(root, "cache"), os.path.join(root, "gate")
    out: dict[str, Any] = {"violations": [], "runs": 0, "killed": False, "job": job}
    store, n, shape = job["store"], job["n"], job["shape"]
    par.write_program(src, shape, {}, 1000)
    r0 = par.run_parallel(src, cache_dir=cache, n=n, gate=gate, store=store)
    if r0.get("machinery") or r0.get("crash"):
        out["machinery"] = True
        shutil.rmtree(root, ignore_errors=True)
        return out
    par.write_program(src, shape, job["edit"], 1100)
    if job["fault"].startswith("coord:"):
        rf = par.run_parallel(src, cache_dir=cache, n=n, gate=gate, store=store, coord_kill_msgs=int(job["fault"].split(":")[1]))
    else:
        rf = par.run_parallel(src, cache_dir=cache, n=n, gate=gate, store=store, worker_fault=job["fault"])
    out["runs"] += 1
    out["killed"] = bool([f for f in os.listdir(gate) if f.startswith("killed.")]) if os.path.isdir(gate) else False
    out["killed"] = out["killed"] or bool(rf.get("coordinator_killed"))
    out["faulted_status"] = rf.get("status")
    if job["fault"].split(":")[1:2] == ["fail"] and not rf.get("crash") and not rf.get("machinery"):
        ref = par.run_sequential(src, cache_dir=None)
        if W.norm(rf) != W.norm(ref):
            # NOT a statement of C04 (which is about the runs that FOLLOW a fault): recorded as a by-product only
            out.setdefault("byproducts", []).append({"step": "faulted", "what": "parallel run with a failed write in a worker reports differently from the sequential build: "
                                      "only here %r / only sequential %r" % (sorted(set(rf["messages"]) - set(ref["messages"]))[:3], sorted(set(ref["messages"]) - set(rf["messages"]))[:3])})
    # give orphaned workers (their coordinator saw the failure) time to go away: single-writer assumption
    import time as _t
    _t.sleep(0.3)
    steps = [("sequential-warm", None), ("revert+sequential-warm", {}), ("edit+parallel-warm", job["edit2"])]
    tick = 1200
    for name, variant in steps:
        if variant is not None:
            tick += 100
            par.write_program(src, shape, variant, tick)
        if "parallel" in name:
            r = par.run_parallel(src, cache_dir=cache, n=n, gate=gate, store=store)
        else:
            r = par.run_sequential(src, cache_dir=cache, store=store, tick=9000 + tick)
        out["runs"] += 1
        if r.get("machinery"):
            continue
        ref = par.run_sequential(src, cache_dir=None)
        if r.get("crash") or W.norm(r) != W.norm(ref):
            out["violations"].append({"step": name, "what": "%s after a faulted parallel run (%s): status %s vs cold %s; only here %r; only cold %r %s" % (
                name, job["fault"], r.get("status"), ref["status"], sorted(set(r["messages"]) - set(ref["messages"]))[:3],
                sorted(set(ref["messages"]) - set(r["messages"]))[:3], (r.get("crash") or "")[-300:])})
            break
    shutil.rmtree(root, ignore_errors=True)
    return out


def base_histories(tier: str, rnd: random.Random) -> list[dict[str, Any]]:
    """(w0, w1) pairs differing in exactly one module, over catalogue M (all) and R (sample)."""
    jobs = []
    mw = W.m_worlds()
    for w0 in mw:
        for m in ("a", "b", "c"):
            for v in W.MVARIANTS[m]:
                if v != w0[m]:
                    w1 = dict(w0); w1[m] = v
                    jobs.append({"w0": w0, "w1": w1, "cat": "M"})
    rw = W.all_worlds()
    rjobs = []
    for w0 in rw:
        for m in ("b", "c"):
            for v in W.VARIANTS[m]:
                if v != w0[m] and v not in W.MVARIANTS[m] and w0[m] not in W.MVARIANTS[m] and w0["a"] not in W.MVARIANTS["a"]:
                    w1 = dict(w0); w1[m] = v
                    rjobs.append({"w0": w0, "w1": w1, "cat": "R"})
    rnd.shuffle(rjobs)
    # import cycle b <-> c: the two-phase write of a multi-module SCC (data of all members, then metas)
    cyc = []
    for a in ("a0", "a2", "a3"):
        for b in ("b0", "b1", "b2"):
            for c0_, c1_ in (("c5", "c6"), ("c6", "c5"), ("c5", "c7"), ("c7", "c5")):
                cyc.append({"w0": {"a": a, "b": b, "c": c0_}, "w1": {"a": a, "b": b, "c": c1_}, "cat": "R-cycle"})
    for a in ("a0", "a2"):
        for c_ in ("c5", "c6"):
            for b0_, b1_ in (("b0", "b1"), ("b1", "b0"), ("b0", "b2")):
                cyc.append({"w0": {"a": a, "b": b0_, "c": c_}, "w1": {"a": a, "b": b1_, "c": c_}, "cat": "R-cycle"})
    if tier == "quick":
        # re-exporting b (b0), b with a module-level use (b1) and b with a use inside a function (b2) of c's interface
        rjobs = cyc[0:4] + cyc[4:6] + cyc[8:10] + cyc[36:38] + rjobs
    else:
        rjobs = cyc + rjobs
    if tier == "quick":
        # deterministic core (no seed involved): for every kind of b, every edit of c from/to the default
        # content and every edit of b under c[1,0]; `a` edits and catalogue R are sampled
        core = []
        for j in jobs:
            w0, w1 = j["w0"], j["w1"]
            if w0["a"] != "use":
                continue
            if w0["c"] != w1["c"] and "c[0,0]" in (w0["c"], w1["c"]):
                core.append(j)
            elif w0["b"] != w1["b"] and w0["c"] == "c[1,0]":
                core.append(j)
        rest = [j for j in jobs if j not in core]
        rnd.shuffle(rest)
        return core + rest[:6] + rjobs[:14]
    return jobs + rjobs[:250]


def main(argv: list[str]) -> int:
    tier, seed, replay = parse_args(argv)
    v = Verdict(PID, tier, seed)
    rnd = random.Random(seed)
    sany(os.path.join(SPEC, "MC_Incremental.tla"))
    cov: dict[str, Any] = {}
    states = transitions = 0
    # ---- 1. model checking with Crash / failing writes, both stores; specification mutants
    if tier == "quick":
        mcs = ["MC_Incremental_fs_crash_q.cfg", "MC_Incremental_sq_crash_q.cfg", "MC_Incremental_fs_fail.cfg"]
    else:
        mcs = ["MC_Incremental_fs_crash.cfg", "MC_Incremental_sq_crash.cfg", "MC_Incremental_fs_fail.cfg",
               "MC_Incremental_sq_fail.cfg", "MC_Incremental_fs_crash4.cfg", "MC_Incremental_sq_crash4.cfg"]
    muts = [("Mut_Incremental_NoRmEx.cfg", "FreshIsRight"), ("Mut_Incremental_NoSkip.cfg", "FreshIsRight")]
    if tier == "thorough":
        muts.append(("Mut_Incremental_OldHash.cfg", "FreshIsRight"))
    tlc_results = []
    for c in mcs + [m for m, _ in muts]:
        tlc_results.append((c, tlc("MC_Incremental", c, workers=16, timeout=3000, heap="12g")))
    # ---- 2. real fault enumeration
    jobs = base_histories(tier, rnd)
    cfgs = [("fs", "ff"), ("sqlite", "ff")] if tier == "quick" else W.CONFIGS
    work = []
    for j in jobs:
        for cfg in cfgs:
            work.append(dict(j, cfg=cfg, followups=["none", "revert"],
                             pairs=(tier == "thorough" and j["cat"] == "M" and cfg[1] == "ff" and j["w0"]["a"] == "use")))
    results = []
    with ProcessPoolExecutor(16) as pex:
        for res in pex.map(scenario_worker, list(enumerate(work)), chunksize=1):
            results.append(res)
    for c, r in tlc_results:
        expect = dict(muts).get(c)
        if r.error:
            raise MachineryError("TLC %s: %s" % (c, r.error))
        if expect is None:
            if r.violated:
                v.violation("model:%s:%s" % (c, r.violated), {"cfg": c, "trace": r.trace_text},
                            "specification invariant %s violated (%s): the protocol as modelled is unsafe" % (r.violated, c))
            states += r.distinct; transitions += r.generated
            cov[c] = dict(coverage_summary(r), states=r.distinct, transitions=r.generated, wall_s=round(r.wall, 1))
        else:
            if not r.violated:
                raise MachineryError("specification mutant %s not rejected (%s)" % (c, r.violated))
            cov.setdefault("spec_mutants_rejected", {})[c] = r.violated
    # ---- 2b. workers of a real parallel build killed / failing
    pjobs = []
    kills = range(1, 9) if tier == "quick" else range(1, 15)
    for k in kills:
        for ordinal in (0, 1):
            pjobs.append({"store": "fs" if (k + ordinal) % 2 else "sqlite", "n": 2, "shape": "diamond", "edit": {1: 1}, "edit2": {1: 1, 3: 1},
                          "fault": "%d:kill:%d" % (ordinal, k)})
    for i in (range(1, 5) if tier == "quick" else range(1, 9)):
        pjobs.append({"store": "fs" if i % 2 else "sqlite", "n": 2, "shape": "diamond", "edit": {1: 1}, "edit2": {2: 1}, "fault": "0:fail:%d" % i})
    for k in (range(1, 7) if tier == "quick" else range(1, 13)):
        pjobs.append({"store": "fs" if k % 2 else "sqlite", "n": 2, "shape": "diamond", "edit": {1: 1}, "edit2": {1: 1, 3: 1}, "fault": "coord:%d" % k})
    presults = []
    with ProcessPoolExecutor(5) as pex:
        for res in pex.map(parallel_fault_scenario, pjobs, chunksize=1):
            presults.append(res)
    for r in presults:
        for x in r["violations"]:
            v.violation("parallel-fault:" + json.dumps({"job": r["job"], "step": x["step"]}, sort_keys=True), r["job"], x["what"])
    # ---- 3. verdicts of the real enumeration
    scen = sum(r["scenarios"] for r in results)
    nontriv = sum(r["nontrivial"] for r in results)
    allv = [x for r in results for x in r["violations"]]
    seen_keys = set()
    for x in allv[:40]:
        if x["key"] in seen_keys:
            continue
        seen_keys.add(x["key"])
        v.violation(x["key"], x["replay"], x["what"])
    # ---- 4. trace validation of recorded executions against the protocol-only trace spec
    traces = [s for r in results for s in r["traces"]]
    tv = validate_store_traces(traces[:600])
    if tv["rejected"]:
        for rej in tv["rejected"][:5]:
            v.violation("trace:" + json.dumps(rej["at"]), rej, "recorded store trace is not a behaviour of Trace_Incremental.tla: " + rej["why"])
    if scen == 0 or (tv["validated"] == 0 and not tv["rejected"]):
        raise MachineryError("conformance step did not run")
    samples = [dict(s) for r in results for s in r["traces"]][:2]
    for s in samples:
        s["runs"] = [[e for e in tr if e["ev"] != "store" or any(e["rec"].startswith(m + ".") for m in "abc")][:30] for tr in s["runs"]][1:4]
    byp = [x for r in presults for x in r.get("byproducts", [])]
    if byp:
        v.notes.append("by-product (outside C04's statement): in %d scenarios the faulted parallel run ITSELF printed something else than the sequential build, e.g. %s"
                       % (len(byp), byp[0]["what"][:400]))
    coverage = {
        "states": states, "transitions": transitions, "faulted_parallel_runs_that_differ_themselves": len(byp),
        "evaluations": scen, "distinct_nontrivial": nontriv,
        "traces_validated_against_impl": tv["validated"],
        "base_histories": len(work), "parallel_worker_fault_scenarios": len(presults),
        "parallel_workers_really_killed": sum(1 for r in presults if r.get("killed")), "kill_points": sum(r["kills"] for r in results), "failed_write_runs": sum(r["fails"] for r in results),
        "rule": "base history = (world, one-module edit) x store config; the run after the edit is killed after EACH of its store "
                "operations (real process death) and has EACH of its writes fail (thorough: also each pair), x follow-up {none, revert}; "
                "then a clean run and a run after toggling `a`; every completed run compared with a cold run. non-trivial = scenario "
                "whose faulted run was really killed / had a write fail",
        "samples": samples, "tlc": cov, "trace_validation": {k: tv[k] for k in ("validated", "states", "events")},
        "exhaustive": tier == "thorough",
    }
    return v.finish("fault_enumeration", coverage, [
        "A-clock: logical integer mtimes; same-second aliasing excluded",
        "A-kill: process death (os._exit in a forked child), not power loss",
        "A-single-writer; builds run in-process (build.build) with the test fixtures",
        "parallel builds: a worker is killed after its k-th store operation / has its i-th write fail (k, i enumerated up to a bound); the coordinator is not killed",
    ])


if __name__ == "__main__":
    try:
        sys.exit(main(sys.argv[1:]))
    except MachineryError as e:
        print("MACHINERY FAILURE:", e, file=sys.stderr)
        sys.exit(2)
    except Exception:  # an unexpected failure of the machinery is never a verdict about mypy
        import traceback
        traceback.print_exc()
        print("MACHINERY FAILURE: unexpected failure of the machinery", file=sys.stderr)
        sys.exit(2)
