"""C16 — the daemon survives client faults; the IPC channel delivers intact messages.

Specifications: spec/Ipc.tla (framing under every segmentation of the byte stream) and
spec/DmypyServe.tla (Server.serve with the reassembly state reused across connections).
TLC checks the invariants on both, and emits every bounded behaviour; the behaviours are
replayed into the real code: mypy.ipc.IPCBase (in-process, and through a real socketpair) and a
real foreground `dmypy daemon` attacked over its real socket.  The property is decided by
comparing what the real daemon / channel did with what the (invariant-satisfying) model did.
"""
from __future__ import annotations

import json
import os
import random
import signal
import socket
import struct
import subprocess
import sys
import time
from concurrent.futures import ThreadPoolExecutor
from typing import Any

from harness.common import (MachineryError, REPO, SPEC, Verdict, coverage_summary, parse_args,
                            repo_env, sany, scratch, tlc, PY)

PID = "C16"


# =========================================================================== framing replay
class FakeConn:
    """A connection whose recv() is scripted by the model's history."""

    def __init__(self) -> None:
        self.wire = bytearray()
        self.script: list[dict[str, Any]] = []
        self.pos = 0
        self.owner: Any = None
        self.mismatch: str | None = None
        self.sender: Any = None
        self.frames_to_send: list[bytes] = []

    def sendall(self, data: bytes) -> None:
        self.wire.extend(data)

    def recv(self, size: int) -> bytes:
        # perform pending sender actions, then the recv / eof the model chose
        while self.pos < len(self.script):
            ev = self.script[self.pos]
            if ev["a"] == "send":
                self.sender.write_bytes(self.frames_to_send.pop(0))
                self.pos += 1
            elif ev["a"] == "close":
                self.pos += 1
            elif ev["a"] in ("recv", "eof"):
                ms = self.owner.message_size
                got = (len(self.owner.buffer), 999 if ms is None else ms)
                if got != (ev["b"], ev["ms"]):
                    self.mismatch = "at %s: real (len(buffer), message_size)=%r, model=%r" % (ev, got, (ev["b"], ev["ms"]))
                self.pos += 1
                if ev["a"] == "eof":
                    return b""
                n = ev["n"]
                if n > len(self.wire):
                    self.mismatch = "model recv %d > wire %d" % (n, len(self.wire))
                    n = len(self.wire)
                out = bytes(self.wire[:n])
                del self.wire[:n]
                return out
            else:  # "frame": the model has a frame available, the code must not call recv
                self.mismatch = "code called recv() where the model delivers a frame (%s)" % ev
                return b""
        self.mismatch = "code called recv() after the end of the model behaviour"
        return b""


def payload_for(i: int, n: int) -> bytes:
    return bytes(((i * 37 + k * 11) % 251) + 1 for k in range(n))


def replay_framing(hist: list[dict[str, Any]], lens: list[int]) -> str | None:
    """Step real IPCBase objects along one TLC behaviour; None if conformant and property holds."""
    from mypy.ipc import IPCBase

    conn = FakeConn()
    rx = IPCBase("rx", None)
    tx = IPCBase("tx", None)
    rx.connection = conn  # type: ignore[assignment]
    tx.connection = conn  # type: ignore[assignment]
    conn.owner, conn.sender = rx, tx
    conn.script = hist
    conn.frames_to_send = [payload_for(i + 1, n) for i, n in enumerate(lens)]
    expected = list(conn.frames_to_send)
    delivered: list[bytes] = []
    guard = 0
    while True:
        guard += 1
        if guard > 200:
            return "no termination"
        # senders may act before the receiver looks at its buffer
        while conn.pos < len(hist) and hist[conn.pos]["a"] in ("send", "close"):
            if hist[conn.pos]["a"] == "send":
                tx.write_bytes(conn.frames_to_send.pop(0))
            conn.pos += 1
        data = rx.read_bytes()
        if conn.mismatch:
            return conn.mismatch
        if data == b"":
            # must be the model's eof
            if conn.pos == 0 or hist[conn.pos - 1]["a"] != "eof":
                return "read_bytes returned b'' but the model is at %s" % (hist[conn.pos - 1] if conn.pos else None)
            break
        delivered.append(data)
        while conn.pos < len(hist) and hist[conn.pos]["a"] in ("send", "close"):
            if hist[conn.pos]["a"] == "send":
                tx.write_bytes(conn.frames_to_send.pop(0))
            conn.pos += 1
        if conn.pos >= len(hist) or hist[conn.pos]["a"] != "frame":
            return "code delivered a frame where the model is at %s" % (hist[conn.pos] if conn.pos < len(hist) else "end")
        ev = hist[conn.pos]
        conn.pos += 1
        ms = rx.message_size
        got = (len(data), len(rx.buffer), 999 if ms is None else ms)
        if got != (ev["n"], ev["b"], ev["ms"]):
            return "after frame: real (len, len(buffer), message_size)=%r model=%r" % (got, (ev["n"], ev["b"], ev["ms"]))
        if delivered != expected[: len(delivered)]:
            return "PROPERTY: delivered frames are not a prefix of the frames sent: %r" % (delivered,)
    if conn.pos != len(hist):
        return "behaviour not consumed (%d of %d)" % (conn.pos, len(hist))
    if delivered != expected:
        return "PROPERTY: at end of stream delivered=%r sent=%r" % (delivered, expected)
    if len(rx.buffer) or rx.message_size is not None:
        return "PROPERTY: leftover reassembly state at end of stream"
    return None


def replay_framing_socket(chunks: list[int], lens: list[int]) -> str | None:
    """Same segmentation through a real AF_UNIX socketpair (the writer sends the chunks one by one
    and the reader is called between them)."""
    from mypy.ipc import IPCBase

    a, b = socket.socketpair(socket.AF_UNIX)
    try:
        rx = IPCBase("rx", None)
        rx.connection = b  # type: ignore[assignment]
        frames = [payload_for(i + 1, n) for i, n in enumerate(lens)]
        stream = b"".join(struct.pack("!L", len(f)) + f for f in frames)
        delivered: list[bytes] = []
        pos = 0
        b.setblocking(False)
        for n in chunks:
            a.sendall(stream[pos: pos + n])
            pos += n
            while True:
                try:
                    d = rx.read_bytes()
                except BlockingIOError:
                    break
                if d == b"":
                    break
                delivered.append(d)
        a.close()
        b.setblocking(True)
        while True:
            d = rx.read_bytes()
            if d == b"":
                break
            delivered.append(d)
        if delivered != frames:
            return "PROPERTY(socketpair): delivered %r != sent %r for chunks %r" % (delivered, frames, chunks)
        return None
    finally:
        b.close()


# =========================================================================== daemon attack
PROG = {0: "def f(x: int) -> int:\n    return x\n\nf(1)\n",
        1: "def f(x: int) -> int:\n    return x\n\nf('a')\n"}


class Daemon:
    def __init__(self, wid: int, root: str) -> None:
        self.dir = os.path.join(root, "d%d" % wid)
        os.makedirs(self.dir, exist_ok=True)
        self.status_file = os.path.join(self.dir, "status.json")
        self.prog = os.path.join(self.dir, "prog.py")
        self.proc: subprocess.Popen[bytes] | None = None
        self.tick = 1_000_000_000
        self.ver = -1
        self.sock_name = ""
        self.starts = 0
        self.checked = False

    def write_prog(self, ver: int) -> None:
        with open(self.prog, "w") as f:
            f.write(PROG[ver])
        self.tick += 10
        os.utime(self.prog, (self.tick, self.tick))
        self.ver = ver

    def start(self) -> None:
        self.stop_hard()
        if os.path.exists(self.status_file):
            os.unlink(self.status_file)
        self.log = open(os.path.join(self.dir, "log.txt"), "ab")
        self.proc = subprocess.Popen(
            [PY, "-m", "mypy.dmypy", "--status-file", self.status_file, "daemon", "--",
             "--no-error-summary", "--python-version", "3.12"],
            cwd=self.dir, env=repo_env(), stdout=self.log, stderr=self.log, stdin=subprocess.DEVNULL)
        t0 = time.time()
        while time.time() - t0 < 60:
            if os.path.exists(self.status_file):
                try:
                    with open(self.status_file) as f:
                        d = json.load(f)
                    self.sock_name = d["connection_name"]
                    self.starts += 1
                    self.checked = False
                    return
                except (ValueError, KeyError):
                    pass
            if self.proc.poll() is not None:
                break
            time.sleep(0.01)
        raise MachineryError("daemon did not start: " + open(os.path.join(self.dir, "log.txt")).read()[-2000:])

    def alive(self) -> bool:
        return self.proc is not None and self.proc.poll() is None

    def wait_exit(self, t: float = 10.0) -> bool:
        assert self.proc is not None
        try:
            self.proc.wait(timeout=t)
            return True
        except subprocess.TimeoutExpired:
            return False

    def stop_hard(self) -> None:
        if self.proc is not None and self.proc.poll() is None:
            self.proc.kill()
            self.proc.wait()
        self.proc = None

    # ---- one client connection following a plan; returns the observed reply class + detail
    def connect(self, plan: dict[str, Any], offset: int | None = None) -> tuple[str, Any]:
        from mypy.dmypy_util import receive
        from mypy.ipc import IPCClient, IPCException

        payload = request_payload(plan["cls"], self.prog)
        frame = struct.pack("!L", len(payload)) + payload
        L = 6
        sent = plan["sent"]
        if offset is not None:
            data = frame[:offset]
        elif sent == 99:
            # oversized length header: a little more than the payload, and the large values (beyond any sane frame,
            # sign bit set, all ones), in rotation
            self.huge_i = getattr(self, "huge_i", 0) + 1
            hdr = [len(payload) + 5, (1 << 28) + 1, 1 << 31, 0xFFFFFFFF, (1 << 24) + 7][self.huge_i % 5]
            data = struct.pack("!L", hdr) + payload
        elif sent > 100:
            # the complete request followed, in the same write, by the beginning of a second frame
            k = sent - 100
            data = frame + (frame[:k] if k <= 4 else frame[: 4 + len(payload) // 2])
        elif sent >= L:
            data = frame
        elif sent <= 4:
            data = frame[:sent]
        else:
            data = frame[: 4 + len(payload) // 2]
        t0 = time.time()
        while True:
            try:
                client = IPCClient(self.sock_name, 240)
                break
            except BlockingIOError as e:
                # EAGAIN: the listen(1) backlog is full because the daemon has not yet accepted the
                # previous (already closed) connection -- not a fault of the daemon; wait for it
                if time.time() - t0 > 20 or not self.alive():
                    return "refused", str(e)
                time.sleep(0.005)
            except (OSError, IPCException) as e:
                return "refused", str(e)
        try:
            if data:
                client.connection.sendall(data)
            if not (sent >= L and sent != 99 and plan["waits"] and offset is None):
                client.close()
                return "closed-by-client", None
            resp: dict[str, Any] = {}
            final = False
            while not final:
                resp = receive(client)
                final = bool(resp.pop("final", False))
            return "reply", resp
        except (OSError, IPCException) as e:
            return "closed", str(e)
        finally:
            try:
                client.close()
            except OSError:
                pass


def request_payload(cls: str, prog: str) -> bytes:
    base = {"is_tty": False, "terminal_width": 80}
    if cls == "status":
        d: Any = dict(base, command="status")
    elif cls == "check":
        d = dict(base, command="check", files=[prog], export_types=False)
    elif cls == "stop":
        d = dict(base, command="stop")
    elif cls == "garbage":
        return b"\xff\xfe{not json at all"
    elif cls == "nondict":
        return b"[1, 2, 3]"
    elif cls == "nocmd":
        d = dict(base, files=[prog])
    elif cls == "cmdnotstr":
        d = dict(base, command=5)
    elif cls == "unknown":
        d = dict(base, command="frobnicate", files=[prog])
    else:
        raise MachineryError("class " + cls)
    return json.dumps(d).encode()


def classify(kind: str, resp: Any, plan: dict[str, Any], expected_check: dict[int, Any], ver: int) -> str:
    """Map the real observation to the model's reply alphabet."""
    if kind == "closed-by-client":
        # the model distinguishes a complete unread request from an incomplete one
        return "unread" if (plan["sent"] == 6 and plan["cls"] not in ("garbage", "nondict")) else "closed"
    if kind in ("closed", "refused"):
        return kind
    assert kind == "reply"
    cls = plan["cls"]
    if "error" in resp:
        return "error"
    if cls == "check":
        core = {k: resp.get(k) for k in ("out", "err", "status")}
        if core == expected_check[ver]:
            return "check%d" % ver
        return "check-wrong:" + json.dumps(core)
    if cls == "status":
        return "status" if "memory_rss_mib" in resp or "platform" in resp else "status?"
    if cls == "stop":
        return "stop"
    return "reply?"


def run_history(d: Daemon, hist: list[dict[str, Any]], expected_check: dict[int, Any],
                offsets: dict[int, int] | None = None) -> tuple[str | None, list[Any]]:
    """Replay one model behaviour on a live daemon. A reply that TIMES OUT (240 s) is only believed when it
    reproduces on a freshly started daemon: on an overloaded machine a slow answer is not a hang."""
    prob, seen = _run_history(d, hist, expected_check, offsets)
    if prob and "timed out" in prob:
        d.stop_hard()
        d.start()
        prob, seen = _run_history(d, hist, expected_check, offsets)
    return prob, seen


def _run_history(d: Daemon, hist: list[dict[str, Any]], expected_check: dict[int, Any],
                 offsets: dict[int, int] | None = None) -> tuple[str | None, list[Any]]:
    """Replay one model behaviour on a live daemon. Returns (problem or None, observations)."""
    if not d.alive() or not os.path.exists(d.status_file):
        d.start()
    if d.ver != 0:
        d.write_prog(0)
    ver = 0
    seen: list[Any] = []
    for i, ev in enumerate(hist):
        if ev["ev"] == "edit":
            ver = 1 - ver
            d.write_prog(ver)
            continue
        kind, resp = d.connect(ev, None if offsets is None else offsets.get(i))
        got = classify(kind, resp, ev, expected_check, ver)
        seen.append([ev["cls"], ev["sent"], ev["waits"], got])
        if got != ev["reply"]:
            return ("connection %d (%s sent=%s waits=%s): model reply %r, daemon %r %s"
                    % (i, ev["cls"], ev["sent"], ev["waits"], ev["reply"], got,
                       "" if resp is None else str(resp)[:300]), seen)
        if not ev["alive"]:
            if not d.wait_exit(240):
                return "model: daemon exits after %s; real daemon still running" % ev["cls"], seen
            if os.path.exists(d.status_file):
                return "PROPERTY: daemon exited but its status file remains", seen
            d.proc = None
            return None, seen
    # closing probe: the daemon must still be serving and its status file must name it
    kind, resp = d.connect({"cls": "status", "sent": 6, "waits": True})
    if kind != "reply" or "error" in resp:
        gone = not d.alive()
        return ("PROPERTY: after the fault sequence the daemon %s (probe: %s %s; status file %s)"
                % ("has exited" if gone else "does not answer a status request", kind, str(resp)[:200],
                   "present" if os.path.exists(d.status_file) else "absent"), seen)
    if not os.path.exists(d.status_file):
        return "PROPERTY: daemon alive but status file missing", seen
    return None, seen


def learn_expected(root: str) -> dict[int, Any]:
    """Responses of a never-attacked twin daemon for both versions of the file."""
    d = Daemon(99, root)
    d.start()
    try:
        exp: dict[int, Any] = {}
        for ver in (0, 1, 0, 1):
            d.write_prog(ver)
            kind, resp = d.connect({"cls": "check", "sent": 6, "waits": True})
            if kind != "reply" or "error" in resp:
                raise MachineryError("twin daemon check failed: %s %s" % (kind, resp))
            core = {k: resp.get(k) for k in ("out", "err", "status")}
            core["out"] = core["out"].replace(d.prog, "PROG") if isinstance(core["out"], str) else core["out"]
            if ver in exp and exp[ver] != core:
                raise MachineryError("twin daemon not deterministic")
            exp[ver] = core
        if exp[0]["status"] != 0 or exp[1]["status"] != 1:
            raise MachineryError("unexpected twin outputs %r" % exp)
        return exp
    finally:
        d.stop_hard()



# =========================================================================== client commands / status file lifecycle
IDLE_TIMEOUT = 12      # seconds; --timeout of daemons in histories with an Idle step


def replay_lifecycle(args: tuple[int, list[dict[str, Any]], str]) -> tuple[str | None, list[Any]]:
    """One DmypyLifecycle.tla behaviour through the real `dmypy` command line."""
    wid, hist, root = args
    d = os.path.join(root, "lc%d" % wid)
    os.makedirs(d, exist_ok=True)
    sf = os.path.join(d, "st.json")
    if os.path.exists(sf):
        os.unlink(sf)
    with open(os.path.join(d, "prog.py"), "w") as f:
        f.write("x: int = 1\n")
    pids: list[int] = []
    seen: list[Any] = []
    # histories with an idle exit start their daemons with a short --timeout; every other history keeps the default (none)
    idle_hist = any(e["cmd"] == "idle" for e in hist)
    tmo = ["--timeout", str(IDLE_TIMEOUT)] if idle_hist else []
    t_contact = time.time()

    def cur_pid() -> int | None:
        try:
            with open(sf) as f:
                return int(json.load(f)["pid"])
        except (OSError, ValueError, KeyError):
            return None

    def pid_alive(pid: int | None) -> bool:
        if pid is None:
            return False
        try:
            os.kill(pid, 0)
        except OSError:
            return False
        try:
            with open("/proc/%d/stat" % pid) as f:
                zombie = f.read().rsplit(")", 1)[1].split()[0] == "Z"
        except OSError:
            return False
        if zombie:
            # the daemon is an orphan re-parented to this driver (child subreaper, see main): reap it, as init
            # would on an ordinary system -- dmypy's alive() takes an unreaped zombie for a live daemon
            try:
                os.waitpid(pid, os.WNOHANG)
            except OSError:
                pass
            return False
        return True

    def dmypy(*a: str) -> int:
        p = subprocess.run([PY, "-m", "mypy.dmypy", "--status-file", sf, *a], cwd=d, env=repo_env(), capture_output=True, text=True, timeout=600)
        return p.returncode

    try:
        for i, e in enumerate(hist):
            c = e["cmd"]
            for p0 in pids:
                pid_alive(p0)              # reap daemons that have exited
            if idle_hist and c != "idle" and i > 0 and hist[i - 1]["alive"] and time.time() - t_contact > 0.4 * IDLE_TIMEOUT:
                # the live daemon's idle time (counted from its last accepted connection, which is not earlier than the
                # start of the last command) may run out before this command reaches it: not comparable, never an alarm
                seen.append(["slow", "inconclusive: %.1f s since the last command" % (time.time() - t_contact)])
                return None, seen
            if not (c == "start" and i > 0 and hist[i - 1]["alive"]):
                t_contact = time.time()        # `start` with a live daemon only reads the status file: no connection, no reset
            if c == "extkill":
                pid = cur_pid()
                if pid is not None and pid_alive(pid):
                    os.kill(pid, signal.SIGKILL)
                    t0 = time.time()
                    while pid_alive(pid) and time.time() - t0 < 90:
                        time.sleep(0.01)
                rc = 0
            elif c == "idle":
                # the daemon's own idle exit: nothing is sent, the idle time passes
                pid = cur_pid()
                t0 = time.time()
                while pid is not None and pid_alive(pid) and time.time() - t0 < 240:
                    time.sleep(0.05)
                if pid is not None and pid_alive(pid):
                    return None, seen + [["idle", "inconclusive: daemon still alive after 240 s"]]
                rc = 0
            elif c == "start":
                for p0 in pids:
                    pid_alive(p0)          # reap whatever died
                rc = dmypy("start", *tmo, "--", "--no-error-summary")
            elif c == "restart":
                rc = dmypy("restart", *tmo, "--", "--no-error-summary")
            elif c == "run":
                rc = dmypy("run", *tmo, "--", "--no-error-summary", "prog.py")
            elif c == "check":
                rc = dmypy("check", "prog.py")
            else:
                rc = dmypy(c)
            pid = cur_pid()
            if pid is not None and pid not in pids:
                pids.append(pid)
            if c in ("stop", "kill"):
                # the process goes away asynchronously after answering / being signalled
                t0 = time.time()
                while any(pid_alive(p) for p in pids if p != pid or c in ("stop", "kill")) and time.time() - t0 < 90 and not e["alive"]:
                    time.sleep(0.01)
            live = [p for p in pids if pid_alive(p)]
            got = {"rc": 0 if rc == 0 else 2, "alive": bool(live), "file": os.path.exists(sf)}
            seen.append([c, got])
            if len(live) > 1:
                return "PROPERTY: two daemons alive for one status file after %s" % c, seen
            want = {"rc": e["rc"], "alive": e["alive"], "file": e["file"]}
            if idle_hist and c != "idle" and want["alive"] and not got["alive"] and not got["file"]:
                # the idle time ran out earlier than this history places it (a slow machine): the daemon's exit was
                # orderly (no file left), the rest of the history is not comparable -- never an alarm
                seen.append(["early-idle", "inconclusive"])
                return None, seen
            if got != want:
                return "command %d (%s): real %r, specification %r" % (i, c, got, want), seen
        return None, seen
    finally:
        for p in pids:
            try:
                os.kill(p, signal.SIGKILL)
            except OSError:
                pass

# =========================================================================== main
def main(argv: list[str]) -> int:
    tier, seed, replay = parse_args(argv)
    v = Verdict(PID, tier, seed)
    rnd = random.Random(seed)
    root = scratch("c16-")
    sany(os.path.join(SPEC, "MC_Ipc.tla"))
    sany(os.path.join(SPEC, "MC_DmypyServe.tla"))
    cov: dict[str, Any] = {}
    states = transitions = 0

    # ---- 1. model checking: framing
    for cfg in (["MC_Ipc_A.cfg"] if tier == "quick" else ["MC_Ipc_A.cfg", "MC_Ipc_C.cfg"]):
        r = tlc("MC_Ipc", cfg)
        if r.error:
            raise MachineryError("TLC %s: %s" % (cfg, r.error))
        if r.violated:
            v.violation("model:Ipc:" + r.violated, {"cfg": cfg, "trace": r.trace_text},
                        "specification invariant %s violated in %s" % (r.violated, cfg))
        states += r.distinct; transitions += r.generated
        cov["Ipc/" + cfg] = dict(coverage_summary(r), states=r.distinct, transitions=r.generated)
        if r.never_fired():
            raise MachineryError("actions never fired in %s: %s" % (cfg, r.never_fired()))
    # ---- 2. model checking: serve loop, and its specification-level mutants (non-vacuity)
    r = tlc("MC_DmypyServe", "MC_DmypyServe.cfg")
    if r.error:
        raise MachineryError("TLC DmypyServe: " + r.error)
    if r.violated:
        v.violation("model:DmypyServe:" + r.violated, {"trace": r.trace_text}, "specification invariant violated")
    states += r.distinct; transitions += r.generated
    cov["DmypyServe"] = dict(coverage_summary(r), states=r.distinct, transitions=r.generated)
    mut = {}
    for m, inv in (("CatchReceiveError", "Alive"), ("ResetOnAccept", "Intact"), ("ResetOnEof", "Intact"),
                   ("CatchSendError", "Alive")):
        rm = tlc("MC_DmypyServe", "Mut_DmypyServe_%s.cfg" % m, coverage=False)
        mut[m] = rm.violated
        if not rm.violated:
            raise MachineryError("specification mutant %s not rejected as expected: %s %s" % (m, rm.violated, rm.error))
    cov["spec_mutants_rejected"] = mut

    # ---- 3. framing replay: every behaviour TLC emits, into real IPCBase objects
    framing_runs = 0
    framing_samples: list[Any] = []
    distinct_seg: set[tuple[int, ...]] = set()
    for cfg, lens in ((("Gen_Ipc_B.cfg", [2, 1]),) if tier == "quick" else (("Gen_Ipc_B.cfg", [2, 1]), ("Gen_Ipc_A.cfg", [1, 3, 2]))):
        if cfg == "Gen_Ipc_A.cfg":
            # 18-byte stream: the behaviours (send interleavings x segmentations) are too many to enumerate with a history
            # variable; sample them (MC_Ipc_A.cfg above covers the same instance exhaustively without the history)
            g = tlc("MC_Ipc", cfg, workers=1, coverage=False, timeout=3000, heap="8g", simulate="num=40000", depth=80, seed=seed + 1)
        else:
            g = tlc("MC_Ipc", cfg, workers=1, coverage=False, timeout=3000, heap="8g")
        if not g.ok:
            raise MachineryError("Gen Ipc: %s %s" % (g.violated, g.error))
        hists = g.json_lines("HIST")
        if len(hists) < 100:
            raise MachineryError("too few framing behaviours emitted: %d" % len(hists))
        for hst in hists:
            bad = replay_framing(hst, lens)
            framing_runs += 1
            seg = tuple(e["n"] for e in hst if e["a"] == "recv")
            distinct_seg.add((len(lens),) + seg)
            if bad:
                key = "framing:" + ("property" if bad.startswith("PROPERTY") else "conformance") + ":" + json.dumps([[e["a"], e["n"]] for e in hst])
                v.violation(key, {"kind": "framing", "lens": lens, "history": hst}, bad)
                break
        framing_samples.append({"lens": lens, "history": hists[len(hists) // 2]})
        # all segmentations of the whole stream through a real socketpair
        total = sum(4 + n for n in lens)
        segs = all_compositions(total) if total <= 11 else [random_composition(total, rnd) for _ in range(3000)]
        if tier == "quick":
            rnd.shuffle(segs); segs = segs[:400]
        for chunks in segs:
            bad = replay_framing_socket(chunks, lens)
            framing_runs += 1
            if bad:
                v.violation("framing-socket:" + json.dumps(chunks), {"kind": "framing-socket", "lens": lens, "chunks": chunks}, bad)
                break

    # ---- 4. serve-loop replay on real daemons
    g = tlc("MC_DmypyServe", "Gen_DmypyServe.cfg", workers=1, coverage=False)
    if not g.ok:
        raise MachineryError("Gen DmypyServe: %s %s" % (g.violated, g.error))
    hists = g.json_lines("HIST")
    # drop trailing edits (no observation follows them) and de-duplicate
    uniq: dict[str, list[dict[str, Any]]] = {}
    for hst in hists:
        while hst and hst[-1]["ev"] == "edit":
            hst = hst[:-1]
        if hst:
            uniq[json.dumps(hst, sort_keys=True)] = hst
    hists = [uniq[k] for k in sorted(uniq)]
    rnd.shuffle(hists)
    with_stop = [x for x in hists if any(e["cls"] == "stop" and e["sent"] == 6 for e in x)]
    no_stop = [x for x in hists if x not in with_stop]
    if tier == "quick":
        # all single-connection behaviours + a seeded sample of the two-connection ones
        singles = [x for x in no_stop if sum(1 for e in x if e["ev"] == "conn") == 1]
        doubles = [x for x in no_stop if x not in singles]
        # a client that writes bytes after its complete request, followed by a well-behaved one: all of them
        trail2 = [x for x in doubles if any(e["ev"] == "conn" and e["sent"] > 100 for e in x[:-1])
                  and x[-1]["ev"] == "conn" and x[-1]["sent"] == 6 and x[-1]["waits"] and x[-1]["cls"] in ("status", "check")]
        doubles = [x for x in doubles if x not in trail2]
        chosen = singles + doubles[:260] + trail2[:64] + with_stop[:10]
    else:
        chosen = no_stop + with_stop[:120]
    expected_check = learn_expected(root)
    nworkers = 8
    buckets: list[list[Any]] = [[] for _ in range(nworkers)]
    for i, hst in enumerate(chosen):
        buckets[i % nworkers].append(("model", hst, None))
    # refinement: early close at EVERY real byte offset of a check request, then a full check
    plen = len(request_payload("check", os.path.join(root, "d0", "prog.py"))) + 4
    step = 1 if tier == "thorough" else 3
    for off in range(0, plen, step):
        hst = [{"ev": "conn", "cls": "check", "sent": 5 if off >= 4 else off, "waits": False, "reply": "closed", "alive": True, "status": True},
               {"ev": "conn", "cls": "check", "sent": 6, "waits": True, "reply": "check0", "alive": True, "status": True}]
        buckets[off % nworkers].append(("offset", hst, {0: off}))
    daemon_runs = 0
    daemon_samples: list[Any] = []
    problems: list[tuple[str, Any, str]] = []

    def work(wid: int) -> tuple[int, list[Any]]:
        d = Daemon(wid, root)
        n = 0
        obs: list[Any] = []
        try:
            for kind, hst, offs in buckets[wid]:
                if len(problems) >= 12:
                    break       # enough counterexamples: a daemon that hangs costs minutes per further behaviour
                exp = {k: dict(val, out=val["out"].replace("PROG", d.prog)) for k, val in expected_check.items()}
                bad, seen = run_history(d, hst, exp, offs)
                n += 1
                if len(obs) < 3:
                    obs.append(seen)
                if bad:
                    problems.append((kind, {"history": hst, "offsets": offs}, bad))
                    d.stop_hard()  # fresh daemon for the next behaviour
        finally:
            d.stop_hard()
        return n, obs

    with ThreadPoolExecutor(nworkers) as ex:
        for n, obs in ex.map(work, range(nworkers)):
            daemon_runs += n
            daemon_samples += obs[:1]
    for kind, rep, bad in problems[:20]:
        hk = [[e["ev"], e["cls"], e["sent"], e["waits"]] for e in rep["history"]]
        key = "serve:" + json.dumps(minimal_key(hk, rep["offsets"]))
        v.violation(key, dict(rep, kind="serve"), bad)

    # ---- 5. client commands and the status file (DmypyLifecycle.tla)
    try:
        import ctypes
        ctypes.CDLL(None).prctl(36, 1, 0, 0, 0)     # PR_SET_CHILD_SUBREAPER: orphaned daemons become our children
    except Exception:
        pass
    sany(os.path.join(SPEC, "MC_DmypyLifecycle.tla"))
    rl = tlc("MC_DmypyLifecycle", "MC_DmypyLifecycle.cfg")
    if not rl.ok:
        if rl.violated:
            v.violation("model:DmypyLifecycle:" + rl.violated, {"trace": rl.trace_text}, "specification invariant violated")
        else:
            raise MachineryError("TLC DmypyLifecycle: %s" % rl.error)
    states += rl.distinct; transitions += rl.generated
    cov["DmypyLifecycle"] = dict(coverage_summary(rl), states=rl.distinct, transitions=rl.generated)
    gl = tlc("MC_DmypyLifecycle", "Gen_DmypyLifecycle.cfg", workers=1, coverage=False)
    if not gl.ok:
        raise MachineryError("Gen DmypyLifecycle: %s %s" % (gl.violated, gl.error))
    lh = gl.json_lines("HIST")
    rnd.shuffle(lh)
    idle_h = [x for x in lh if any(e["cmd"] == "idle" for e in x)]
    lh = [x for x in lh if x not in idle_h]
    cheap = [x for x in lh if not any(e["cmd"] in ("run", "check") and e["rc"] == 0 for e in x)]
    costly = [x for x in lh if x not in cheap]
    # idle histories: one Idle step each in the quick tier (each costs the idle time), any number in the thorough tier
    idle1 = [x for x in idle_h if sum(1 for e in x if e["cmd"] == "idle") == 1]
    lchosen = (cheap[:24] + costly[:6] + idle1[:8]) if tier == "quick" else (cheap[:400] + costly[:120] + idle_h[:96])
    lifecycle_runs = 0
    idle_runs = idle_inconclusive = 0
    with ThreadPoolExecutor(8) as ex:
        for (bad, seen_l), hst in zip(ex.map(replay_lifecycle, [(i, hst, root) for i, hst in enumerate(lchosen)]), lchosen):
            lifecycle_runs += 1
            if any(e["cmd"] == "idle" for e in hst):
                idle_runs += 1
                if any(isinstance(x[1], str) and x[1].startswith("inconclusive") for x in seen_l):
                    idle_inconclusive += 1
            if bad:
                v.violation("lifecycle:" + json.dumps([e["cmd"] for e in hst]), {"kind": "lifecycle", "history": hst, "observed": seen_l}, bad)

    n_faulty = sum(1 for x in chosen if any(e["ev"] == "conn" and e["reply"] in ("closed", "unread", "error") for e in x))
    coverage = {
        "states": states, "transitions": transitions,
        "traces_validated_against_impl": framing_runs + daemon_runs + lifecycle_runs,
        "lifecycle_command_sequences_replayed": lifecycle_runs,
        "lifecycle_sequences_with_idle_exit": idle_runs,
        "lifecycle_idle_inconclusive": idle_inconclusive,
        "framing_behaviours_replayed": framing_runs,
        "distinct_segmentations": len(distinct_seg),
        "daemon_fault_sequences_replayed": daemon_runs,
        "daemon_fault_sequences_available": len(hists),
        "distinct_nontrivial": n_faulty,
        "evaluations": framing_runs + daemon_runs,
        "rule": "framing: every behaviour TLC emits for the Gen configs (all interleavings of sends with all segmentations); "
                "daemon: TLC-emitted client-plan sequences (<=2 connections + edit) and early close at real byte offsets; "
                "non-trivial = sequence contains at least one faulty client (reply closed/unread/error)",
        "samples": framing_samples[:1] + [{"daemon_history_observed": s} for s in daemon_samples[:2]],
        "tlc": cov,
        "exhaustive": tier == "thorough",
    }
    return v.finish("fault_enumeration", coverage, [
        "A-kill: client faults are connection-level (close / bytes); no signals are sent to the daemon",
        "zero-length frames are indistinguishable from EOF in ipc.py and are outside the model (Lens >= 1)",
        "daemon started in the foreground with the real CLI; check results compared with a never-attacked twin daemon",
    ])


def minimal_key(hk: list[Any], offs: Any) -> Any:
    return {"h": hk, "o": offs}


def all_compositions(n: int) -> list[list[int]]:
    res = []
    for mask in range(1 << (n - 1)):
        cur = 1; parts = []
        for i in range(n - 1):
            if mask >> i & 1:
                parts.append(cur); cur = 1
            else:
                cur += 1
        parts.append(cur)
        res.append(parts)
    return res


def random_composition(n: int, rnd: random.Random) -> list[int]:
    parts = []; left = n
    while left:
        k = rnd.randint(1, min(left, 5)); parts.append(k); left -= k
    return parts


if __name__ == "__main__":
    try:
        sys.exit(main(sys.argv[1:]))
    except MachineryError as e:
        print("MACHINERY FAILURE:", e, file=sys.stderr)
        sys.exit(2)
    except Exception:  # an unexpected failure of the machinery is never a verdict about mypy
        import traceback
        traceback.print_exc()
        print("MACHINERY FAILURE: unexpected failure of the machinery", file=sys.stderr)
        sys.exit(2)
