"""C01, fragment 3: override compatibility of a member across class hierarchies (spec/Override.tla).

TLC enumerates every hierarchy of MaxClasses classes (ordered base lists with a C3 linearisation, one member `limit`
defined per class as nothing / attribute / read-only property / settable property of type A or B(A)), checks that the
transcribed acceptance rule (own definition vs every class of mro[1:], multiple-inheritance shadowing) implies the
run-time claims, and emits every hierarchy with its MROs, the accepted classes and the resolved definitions.
Every hierarchy is rendered as Python with a reader `r_b` and a writer `w_b` per class and
  (i)   checked by the real mypy: the classes with errors and the rejected writers must be the specification's (model drift
        otherwise);
  (ii)  executed by CPython: the MRO of every class must be the specification's (machinery failure otherwise); for every
        instance class Kc all of whose MRO classes mypy accepted and every Kb in that MRO: `r_b(Kc())` must return a member
        of the declared type, an accepted `w_b(Kc())` must not raise -- otherwise a VIOLATION (real mypy vs CPython).
"""
from __future__ import annotations

import os
import time
from typing import Any

from harness.common import MachineryError
from harness.drivers.c01_seq import run_mypy

PRELUDE = "class A: pass\nclass B(A): pass\n"
KIND = {"attrA": ("attr", "A"), "attrB": ("attr", "B"), "roA": ("ro", "A"), "roB": ("ro", "B"),
        "rwA": ("rw", "A"), "rwB": ("rw", "B"), "none": ("none", "A")}


def decode(arr: list[Any]) -> dict[str, Any]:
    bases, defs, mros, accept, resolved = arr
    return {"bases": bases, "defs": defs, "mros": mros, "accept": accept, "resolved": resolved}


def key_of(rec: dict[str, Any]) -> str:
    out = []
    for c, (bs, d) in enumerate(zip(rec["bases"], rec["defs"]), 1):
        k, t = KIND[d]
        out.append("K%d(%s){%s}" % (c, ",".join("K%d" % b for b in bs), "" if k == "none" else "%s limit: %s" % (k, t)))
    return " ".join(out)


def render(recs: list[dict[str, Any]]) -> tuple[str, list[dict[str, Any]]]:
    lines = PRELUDE.rstrip("\n").split("\n")
    infos = []
    for hi, rec in enumerate(recs):
        info: dict[str, Any] = {"cls": {}, "r": {}, "w": {}}
        n = len(rec["defs"])
        for c in range(1, n + 1):
            start = len(lines) + 1
            bs = rec["bases"][c - 1]
            lines.append("class H%d_%d%s:" % (hi, c, "(%s)" % ", ".join("H%d_%d" % (hi, b) for b in bs) if bs else ""))
            k, t = KIND[rec["defs"][c - 1]]
            if k == "none":
                lines.append("    pass")
            elif k == "attr":
                lines.append("    limit: %s = %s()" % (t, t))
            else:
                lines.append("    _v%d_%d: %s = %s()" % (hi, c, t, t))
                lines.append("    @property")
                lines.append("    def limit(self) -> %s:" % t)
                lines.append("        return self._v%d_%d" % (hi, c))
                if k == "rw":
                    lines.append("    @limit.setter")
                    lines.append("    def limit(self, v: %s) -> None:" % t)
                    lines.append("        self._v%d_%d = v" % (hi, c))
            info["cls"][c] = (start, len(lines))
        for c in range(1, n + 1):
            res = rec["resolved"][c - 1]
            if res == "none":
                continue
            t = KIND[res][1]
            lines.append("def r%d_%d(o: H%d_%d) -> %s:" % (hi, c, hi, c, t))
            lines.append("    return o.limit")
            info["r"][c] = (len(lines) - 1, len(lines))
            lines.append("def w%d_%d(o: H%d_%d) -> None:" % (hi, c, hi, c))
            lines.append("    o.limit = %s()" % t)
            info["w"][c] = (len(lines) - 1, len(lines))
        infos.append(info)
    return "\n".join(lines) + "\n", infos


def check_chunk(job: tuple[int, list[dict[str, Any]], str]) -> dict[str, Any]:
    cid, recs, root = job
    text, infos = render(recs)
    t0 = time.time()
    mres = run_mypy(text, os.path.join(root, "seqcache-%d" % os.getpid()), "ovrm")
    if mres["crash"]:
        raise MachineryError("mypy crashed on an override module: " + mres["crash"][-300:])
    t_mypy = time.time() - t0
    errs = mres["errors"]
    if any(ln <= 2 for ln in errs):
        raise MachineryError("mypy error in the override prelude")

    def has_err(rng: tuple[int, int]) -> bool:
        return any(rng[0] <= ln <= rng[1] for ln in errs)

    g: dict[str, Any] = {}
    exec(compile(text, "ovrm.py", "exec"), g)
    drift, bad = [], []
    n_exec = n_acc = 0
    for hi, rec in enumerate(recs):
        info = infos[hi]
        n = len(rec["defs"])
        acc = {c: not has_err(info["cls"][c]) for c in range(1, n + 1)}
        why = None
        for c in range(1, n + 1):
            if acc[c] != rec["accept"][c - 1]:
                msgs = [m for ln, ms in errs.items() if info["cls"][c][0] <= ln <= info["cls"][c][1] for m in ms]
                why = "class K%d: spec %s, mypy %s %s" % (c, "accepts" if rec["accept"][c - 1] else "rejects",
                                                       "accepts" if acc[c] else "rejects", "; ".join(msgs)[:160])
                break
        if why is None:
            for c, rng in info["w"].items():
                wok = KIND[rec["resolved"][c - 1]][0] in ("attr", "rw")
                if has_err(rng) == wok:
                    why = "writer through K%d: spec %s, mypy %s" % (c, "accepts" if wok else "rejects",
                                                                     "rejects" if has_err(rng) else "accepts")
                    break
                if has_err(info["r"][c]):
                    why = "reader through K%d rejected by mypy" % c
                    break
        if why:
            drift.append({"prog": key_of(rec), "why": why})
        # CPython: MRO (binds C3 of the specification), then reads / writes through base-typed functions
        for c in range(1, n + 1):
            cls = g["H%d_%d" % (hi, c)]
            mro = [int(k.__name__.split("_")[1]) for k in cls.__mro__[:-1]]
            if mro != rec["mros"][c - 1]:
                raise MachineryError("MRO of %s: CPython %s, specification %s" % (key_of(rec), mro, rec["mros"][c - 1]))
        first_bad = None
        for c in range(1, n + 1):
            if not all(acc[b] for b in rec["mros"][c - 1]):
                continue
            n_acc += 1
            for b in rec["mros"][c - 1]:
                if b not in info["r"] or has_err(info["r"][b]):
                    continue
                obj = g["H%d_%d" % (hi, c)]()
                n_exec += 1
                problem = None
                try:
                    v = g["r%d_%d" % (hi, b)](obj)
                    tb = KIND[rec["resolved"][b - 1]][1]
                    if not isinstance(v, g[tb]):
                        problem = ("member", "reading K%d().limit through a K%d reference yields %s, declared %s"
                                   % (c, b, type(v).__name__, tb))
                except (AttributeError, TypeError) as e:
                    problem = ("exception", "reading K%d().limit through a K%d reference: %s: %s" % (c, b, type(e).__name__, e))
                if problem is None and not has_err(info["w"][b]):
                    n_exec += 1
                    try:
                        g["w%d_%d" % (hi, b)](obj)
                    except (AttributeError, TypeError) as e:
                        problem = ("exception", "K%d().limit = ... through a K%d reference: %s: %s" % (c, b, type(e).__name__, e))
                if problem and first_bad is None:
                    first_bad = {"kind": problem[0], "what": problem[1]}
        if first_bad:
            bad.append(dict(first_bad, prog=key_of(rec), rec={"bases": rec["bases"], "defs": rec["defs"]}))
    sample = None
    if cid == 0 and recs:
        i = min(len(recs) - 1, 5)
        lo = infos[i]["cls"][1][0]
        hi_ = max(r[1] for r in list(infos[i]["w"].values()) + list(infos[i]["cls"].values()))
        sample = {"hierarchy": key_of(recs[i]), "python": text.split("\n")[lo - 1: hi_],
                  "mypy_errors": {str(ln): m for ln, m in errs.items() if lo <= ln <= hi_}}
    return {"cid": cid, "n": len(recs), "drift": drift, "bad": bad, "executions": n_exec, "instances_accepted": n_acc,
            "t_mypy": t_mypy, "sample": sample}
