"""C01, try fragment (spec/TryFlow.tla): every (program, raise schedule) TLC emits is replayed in CPython and compared
with the outcome the specification gives (binding of the exception semantics); real mypy's verdict on each program
decides the property: an accepted program with an execution that ends in TypeError breaks C01."""
from __future__ import annotations

import json
import os
import subprocess
import sys
from concurrent.futures import ThreadPoolExecutor
from typing import Any

from harness.common import REPO, MachineryError, scratch, tlc

PY = "/venv/bin/python"
HEADER = ("from typing import Optional\n_S: list[int] = []\n\n\ndef boom() -> None:\n    if _S.pop(0):\n        raise ValueError('boom')\n\n\n")
TEXT = {"N": "x = None", "I": "x = 7", "B": "boom()", "U": "x + 1"}


def render(progs: list[list[str]]) -> tuple[str, list[tuple[int, int, dict[int, int]]]]:
    """One module with one function per program. Returns (source, [(first line, last line, line -> token position)])."""
    lines = HEADER.split("\n")[:-1]
    spans = []
    for k, p in enumerate(progs):
        first = len(lines) + 1
        lines.append("def f%d(n: int) -> None:" % k)
        lines.append("    x: Optional[int] = None")
        lines.append("    x = n")
        ind = 1
        l2t: dict[int, int] = {}
        for i, t in enumerate(p):
            if t == "T":
                lines.append("    " * ind + "try:"); ind += 1
            elif t in ("XV", "XK"):
                lines.append("    " * (ind - 1) + ("except ValueError:" if t == "XV" else "except KeyError:"))
                if p[i + 1] == "E":
                    lines.append("    " * ind + "pass")
            elif t == "E":
                ind -= 1
                continue
            else:
                lines.append("    " * ind + TEXT[t])
            l2t[len(lines)] = i + 1
        spans.append((first, len(lines), l2t))
        lines.append("")
        lines.append("")
    return "\n".join(lines) + "\n", spans


def mypy_verdicts(src: str, spans: list[tuple[int, int, dict[int, int]]], d: str, name: str) -> list[bool]:
    path = os.path.join(d, name + ".py")
    with open(path, "w") as f:
        f.write(src)
    env = dict(os.environ, PYTHONPATH=REPO, PYTHONDONTWRITEBYTECODE="1")
    env.pop("MYPYPATH", None)
    p = subprocess.run([PY, "-m", "mypy", "--no-incremental", "--strict", "--no-error-summary", "--hide-error-context",
                        "--no-color-output", "--show-traceback", "--cache-dir", os.path.join(d, name + "_cache"), path], cwd=d, env=env, capture_output=True, text=True, timeout=1800)
    if p.returncode not in (0, 1):
        raise MachineryError("mypy on the try-fragment module failed (%d): %s" % (p.returncode, (p.stdout + p.stderr)[-800:]))
    bad_lines = set()
    for line in p.stdout.splitlines():
        parts = line.split(":", 3)
        if len(parts) >= 4 and parts[1].isdigit() and " error" in parts[2] + parts[3][:8]:
            bad_lines.add(int(parts[1]))
    if p.returncode == 1 and not bad_lines:
        raise MachineryError("mypy exit 1 without parsable errors: " + p.stdout[-500:])
    return [not any(a <= n <= b for n in bad_lines) for a, b, _ in spans]


def cpython_outcome(ns: dict[str, Any], k: int, span: tuple[int, int, dict[int, int]], sched: list[str], fname: str) -> dict[str, Any]:
    ns["_S"][:] = [1 if c == "r" else 0 for c in sched]
    try:
        ns["f%d" % k](1)
    except TypeError as e:
        tb = e.__traceback__
        line = None
        while tb is not None:
            if tb.tb_frame.f_code.co_filename == fname and span[0] <= tb.tb_lineno <= span[1]:
                line = tb.tb_lineno
            tb = tb.tb_next
        return {"k": "wrong", "pos": span[2].get(line or -1, -1), "left": len(ns["_S"])}
    except ValueError:
        return {"k": "escaped", "pos": 0, "left": len(ns["_S"])}
    except IndexError:
        return {"k": "schedule-too-short", "pos": 0, "left": 0}
    return {"k": "ok", "pos": 0, "left": len(ns["_S"])}


def run_try_family(v: Any, tier: str, seed: int) -> dict[str, Any]:
    m = tlc("MC_TryFlow", "Mut_TryFlow_Innermost.cfg", coverage=False, timeout=1800)
    if not m.violated:
        raise MachineryError("specification mutant Innermost not rejected: %s" % m.error)
    cfg = "Gen_TryFlow_9.cfg"      # both tiers: the 10-token / 2-use / 2-boom instance has > 13 M states (not finished in 7 min)
    g = tlc("MC_TryFlow", cfg, workers=1, coverage=False, timeout=6000, heap="8g")
    if g.violated:
        v.violation("model:TryFlow:" + g.violated, {"trace": g.trace_text}, "specification property violated")
    if not g.ok:
        raise MachineryError("Gen TryFlow: %s %s" % (g.violated, g.error))
    r = g
    runs = g.json_lines("RUN")
    by_prog: dict[tuple[str, ...], list[dict[str, Any]]] = {}
    for x in runs:
        by_prog.setdefault(tuple(x["p"]), []).append(x)
    progs = sorted(by_prog)
    if len(progs) < 1000:
        raise MachineryError("too few try-fragment programs emitted: %d" % len(progs))
    d = scratch("c01try-")
    B = 400
    batches = [progs[i:i + B] for i in range(0, len(progs), B)]
    rendered = [render([list(p) for p in b]) for b in batches]
    with ThreadPoolExecutor(14) as ex:
        verdicts = list(ex.map(lambda a: mypy_verdicts(a[1][0], a[1][1], d, "tf%d" % a[0]), enumerate(rendered)))
    n_acc = n_exec = n_wrong_runs = drift = 0
    nested_escape = 0
    samples: list[Any] = []
    for bi, (b, (src, spans)) in enumerate(zip(batches, rendered)):
        fname = os.path.join(d, "tf%d.py" % bi)
        ns: dict[str, Any] = {}
        exec(compile(src, fname, "exec"), ns)
        for k, p in enumerate(b):
            acc = verdicts[bi][k]
            n_acc += acc
            for x in by_prog[p]:
                got = cpython_outcome(ns, k, spans[k], x["s"], fname)
                n_exec += 1
                want = x["o"]
                if got["k"] != want["k"] or got["pos"] != want["pos"] or got["left"] != 0:
                    drift += 1
                    if drift <= 3:
                        samples.append({"drift": list(p), "sched": x["s"], "spec": want, "cpython": got})
                    continue
                if got["k"] == "wrong":
                    n_wrong_runs += 1
                    if acc:
                        text = "\n".join(src.split("\n")[spans[k][0] - 1:spans[k][1]])
                        v.violation("try:" + " ".join(p), {"kind": "try", "program": list(p), "schedule": x["s"], "source": text},
                                    "mypy --strict accepts the function, CPython raises TypeError at token %d (`x + 1` with x = None) "
                                    "when boom() raises per schedule %s:\n%s" % (got["pos"], "".join(x["s"]), text))
            if sum(1 for t in p if t == "T") == 2 and "XK" in p:
                nested_escape += 1
    if drift:
        raise MachineryError("TryFlow.tla does not describe CPython on %d executions: %s" % (drift, json.dumps(samples)[:800]))
    return {"states": r.distinct, "transitions": r.generated, "programs": len(progs), "accepted_by_mypy": n_acc,
            "executions": n_exec, "executions_ending_in_TypeError": n_wrong_runs, "model_drift": drift,
            "programs_with_two_try_statements_and_a_non_matching_handler": nested_escape,
            "spec_mutant_rejected": {"Innermost": m.violated}, "cfg": cfg}


if __name__ == "__main__":
    class _V:
        def __init__(self) -> None:
            self.n = 0
        def violation(self, key: str, replay: Any, msg: str) -> None:
            self.n += 1
            if self.n <= 3:
                print("VIOLATION", key, "\n ", msg)
    vv = _V()
    print(json.dumps(run_try_family(vv, "quick", 0), indent=1)); print("violations", vv.n)
