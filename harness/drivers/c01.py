"""C01 -- accepted programs do not go wrong (flow-sensitive narrowing / join / call-compatibility core).

spec/FlowTyping.tla generates every program of a small imperative language up to a bound (token by
token), type-checks it with a transcription of mypy's binder + narrowing rules (one action per statement
the real checker visits) and executes every accepted program on every input; TLC checks that no value
leaves the type assigned to it, nothing skipped as unreachable executes and nothing goes wrong.

Binding (three-way).  Every program TLC emits (with its Gamma) is printed as Python, a probe call
``P(f, point, reveal_type(x), ...)`` at every program point, hundreds of functions per module:
  (i)   the real mypy checks the module (in-process build, test fixtures): the type revealed at each probe
        must equal the specification's Gamma, the type map entry must equal the last-visit Gamma, the
        statements with errors must be the specification's -- a difference is *model drift* (recorded,
        never a violation; too much of it is a machinery failure: the specification no longer binds);
  (ii)  CPython (the oracle) runs every function mypy accepted on every argument class and every vector of
        opaque conditions with a recording probe: every recorded value's class must be a member of the
        type mypy revealed there (and of the type-map type), no probe mypy treated as unreachable may
        fire, no TypeError / AttributeError may escape, the returned value must be in the declared type;
  (iii) single-edit perturbations (one annotation / one constructor changed, one isinstance guard
        dropped) of accepted programs go through (ii) as well: a perturbation whose execution fails
        must have at least one mypy error.
A violation is always real mypy vs CPython; its key is the program text.
"""
from __future__ import annotations

import hashlib
import json
import multiprocessing as mp
import os
import random
import re
import shutil
import subprocess
import sys
import time
from typing import Any, Iterable

from harness.common import (MachineryError, PY, REPO, SPEC, Verdict, coverage_summary, parse_args,
                            repo_env, sany, scratch, tlc)
from harness.drivers import c01_ovr, c01_seq

PID = "C01"
NPROC = max(2, min(12, (os.cpu_count() or 4) - 2))
TLC_WORKERS = 6
CHUNK = 240                # functions per generated module
COND_BITS = 3              # opaque conditions enumerated per execution (later calls return False)
FUEL = 80                  # probe hits per execution

ATOMS = ["A", "B", "C", "D", "E", "N"]
SUB = {("B", "A"), ("C", "A"), ("E", "A")}
HAS_M = {"A", "B", "C", "E"}
ORDER = {a: i for i, a in enumerate(ATOMS)}


def sub_atom(a: str, b: str) -> bool:
    return a == b or (a, b) in SUB


def meaning(t: Iterable[str]) -> frozenset[str]:
    t = list(t)
    return frozenset(c for c in ATOMS if any(sub_atom(c, a) for a in t))


def tname(t: Iterable[str]) -> str:
    items = sorted(t, key=lambda a: ORDER[a])
    return " | ".join("None" if a == "N" else a for a in items)


def hname(t: Iterable[str]) -> str:
    return "use_" + "_".join(sorted(t, key=lambda a: ORDER[a]))


# =========================================================================== programs -> Python
PRELUDE_HEAD = '''from typing import final
class A:
    def m(self) -> None: pass
@final
class B(A): pass
@final
class C(A): pass
@final
class D: pass
@final
class E(A):
    def __bool__(self) -> bool: return False
def cond() -> bool: return False
def P(f: int, i: int, *v: object) -> None: pass
'''
# variant 1: the final leaf E defines nothing itself and INHERITS __len__ (always 0: falsy) from a non-final base
PRELUDE_HEAD_INHERITED = PRELUDE_HEAD.replace('''@final
class E(A):
    def __bool__(self) -> bool: return False
''', '''class F(A):
    def __len__(self) -> int: return 0
@final
class E(F): pass
''')
VARIANT_NOTE = " [E inherits __len__ from a non-final base]"


def expr_text(e: dict[str, str]) -> str:
    if e["ek"] == "new":
        return e["c"] + "()"
    if e["ek"] == "none":
        return "None"
    return e["w"]


def cond_text(q: dict[str, str]) -> str:
    k = q["qk"]
    if k == "isi":
        return "isinstance(%s, %s)" % (q["v"], q["c"])
    if k == "isn":
        return q["v"] + " is None"
    if k == "nn":
        return q["v"] + " is not None"
    if k == "tru":
        return q["v"]
    return "cond()"


def stmt_text(t: dict[str, Any]) -> str:
    k = t["k"]
    if k == "asg":
        return "%s = %s" % (t["v"], expr_text(t["e"]))
    if k == "ret":
        return "return " + expr_text(t["e"])
    if k == "call":
        return "%s(%s)" % (hname(t["t"]), t["v"])
    if k == "meth":
        return t["v"] + ".m()"
    if k == "brk":
        return "break"
    if k == "cnt":
        return "continue"
    if k == "if":
        return "if %s:" % cond_text(t["q"])
    if k == "while":
        return "while %s:" % cond_text(t["q"])
    if k == "else":
        return "else:"
    if k == "end":
        return "end"
    if k == "match":
        return "match %s: case %s():" % (t["v"], t["q"]["c"])
    if k == "case":
        return "case %s():" % t["q"]["c"]
    raise MachineryError("token " + repr(t))


def prog_vars(rec: dict[str, Any]) -> list[str]:
    return ["x", "y"] if rec["h"]["e0"]["ek"] != "-" else ["x"]


def source_key(rec: dict[str, Any]) -> str:
    """Compact one-line text of a program: identifies it in violation keys."""
    h = rec["h"]
    parts = ["def f(x: %s) -> %s" % (tname(h["tx"]), tname(h["r"]))]
    if h["e0"]["ek"] != "-":
        parts.append("y: %s = %s" % (tname(h["ty"]), expr_text(h["e0"])))
    out = "; ".join(parts) + " {"
    for t in rec["p"]:
        k = t["k"]
        if k in ("if", "while", "match"):
            out += " " + stmt_text(t)[:-1] + " {"
        elif k == "else":
            out += " } else {"
        elif k == "case":
            out += " } " + stmt_text(t)[:-1] + " {"
        elif k == "end":
            out += " }"
        else:
            out += " " + stmt_text(t) + ";"
    return out + " }" + (VARIANT_NOTE if rec.get("variant") else "")


class Rendered:
    def __init__(self) -> None:
        self.text = ""
        self.funcs: list[dict[str, Any]] = []   # per function: first/last line, probe lines, token lines
        self.helper_lines: dict[int, str] = {}   # line of the helper's probe -> helper name


def render_module(recs: list[dict[str, Any]]) -> Rendered:
    """One module with the prelude, the helper functions the programs call and one function per program."""
    out = Rendered()
    variants = {rec.get("variant", 0) for rec in recs}
    if len(variants) > 1:
        raise MachineryError("mixed prelude variants in one module")
    head = PRELUDE_HEAD_INHERITED if variants == {1} else PRELUDE_HEAD
    out.nhead = len(head.rstrip("\n").split("\n"))
    lines = head.rstrip("\n").split("\n")
    helpers: dict[str, list[str]] = {}
    for rec in recs:
        for t in rec["p"]:
            if t["k"] == "call":
                helpers[hname(t["t"])] = list(t["t"])
    out.helpers = {}
    for hid, (name, t) in enumerate(sorted(helpers.items())):
        lines.append("def %s(p: %s) -> None:" % (name, tname(t)))
        lines.append("    P(999999, %d, reveal_type(p))" % hid)
        out.helper_lines[len(lines)] = name
        out.helpers[hid] = (name, sorted(t))
        if set(t) <= HAS_M:
            lines.append("    p.m()")
    for fi, rec in enumerate(recs):
        h = rec["h"]
        vs = prog_vars(rec)
        info: dict[str, Any] = {"first": len(lines) + 1, "probe": {}, "tok": {}, "vars": vs}
        lines.append("def f%d(x: %s) -> %s:" % (fi, tname(h["tx"]), tname(h["r"])))
        info["def"] = len(lines)
        if len(vs) == 2:
            lines.append("    y: %s = %s" % (tname(h["ty"]), expr_text(h["e0"])))
            info["tok"][0] = len(lines)
        ind = 1

        def probe(pi: int) -> None:
            # one reveal_type per line (mypy drops a second identical note on the same line)
            lines.append("%sP(%d, %d, reveal_type(x)%s" % ("    " * ind, fi, pi, ")" if len(vs) == 1 else ","))
            info["probe"][pi] = [len(lines)]
            if len(vs) == 2:
                lines.append("%s  reveal_type(y))" % ("    " * ind))
                info["probe"][pi].append(len(lines))

        stack: list[str] = []
        for i, t in enumerate(rec["p"], 1):
            k = t["k"]
            if k == "else":
                probe(i)
                ind -= 1
                lines.append("    " * ind + "else:")
                ind += 1
            elif k == "end":
                probe(i)
                ind -= 2 if stack.pop() == "match" else 1
            elif k == "match":
                probe(i)
                lines.append("    " * ind + "match %s:" % t["v"])
                info["tok"][i] = len(lines)
                lines.append("    " * (ind + 1) + "case %s():" % t["q"]["c"])
                ind += 2
                stack.append("match")
            elif k == "case":
                probe(i)
                ind -= 1
                lines.append("    " * ind + "case %s():" % t["q"]["c"])
                ind += 1
            else:
                probe(i)
                lines.append("    " * ind + stmt_text(t))
                info["tok"][i] = len(lines)
                if k in ("if", "while"):
                    ind += 1
                    stack.append(k)
        if ind != 1:
            raise MachineryError("unbalanced program " + source_key(rec))
        probe(len(rec["p"]) + 1)
        info["last"] = len(lines)
        out.funcs.append(info)
    out.text = "\n".join(lines) + "\n"
    return out


# =========================================================================== real mypy (in-process)
_RE_MSG = re.compile(r"^[^:]+:(\d+):(\d+): (error|note): (.*)$")
_RE_REV = re.compile(r'^Revealed type is "(.*)"$')


def parse_type(s: str) -> list[str] | None:
    items = []
    for it in s.split(" | "):
        it = it.strip()
        if it == "None":
            items.append("N")
        elif it.startswith("m.") and it[2:] in ORDER:
            items.append(it[2:])
        else:
            return None
    return sorted(set(items), key=lambda a: ORDER[a])


def type_atoms(t: Any) -> list[str] | None:
    from mypy.types import Instance, NoneType, UnionType, get_proper_type
    t = get_proper_type(t)
    items = t.items if isinstance(t, UnionType) else [t]
    res = []
    for it in items:
        it = get_proper_type(it)
        if isinstance(it, NoneType):
            res.append("N")
        elif isinstance(it, Instance) and it.type.name in ORDER:
            res.append(it.type.name)
        else:
            return None
    return sorted(set(res), key=lambda a: ORDER[a])


def mypy_options(real_typeshed: bool = False) -> Any:
    from mypy.options import Options
    o = Options()
    o.python_version = (3, 12)
    o.incremental = False
    o.show_traceback = True
    o.export_types = True
    o.preserve_asts = True
    o.show_column_numbers = True
    o.many_errors_threshold = -1
    o.error_summary = False
    o.color_output = False
    if not real_typeshed:
        o.use_builtins_fixtures = True
    return o


def run_mypy(text: str, libdir: str, rd: Rendered) -> dict[str, Any]:
    """Check one generated module with the real mypy; project the result per function."""
    from mypy import build
    from mypy.modulefinder import BuildSource
    from mypy.nodes import CallExpr, NameExpr
    from mypy.traverser import TraverserVisitor

    res = build.build([BuildSource(os.path.join(libdir, "m.py"), "m", text)], mypy_options(), alt_lib_path=libdir)
    reveals: dict[int, list[tuple[int, list[str] | None]]] = {}
    errors: dict[int, list[str]] = {}
    for m in res.errors:
        mm = _RE_MSG.match(m)
        if not mm:
            raise MachineryError("unparsed mypy output: " + m)
        line, col, sev, msg = int(mm.group(1)), int(mm.group(2)), mm.group(3), mm.group(4)
        if sev == "note":
            r = _RE_REV.match(msg)
            if r:
                reveals.setdefault(line, []).append((col, parse_type(r.group(1))))
                continue
            continue  # other notes accompany an error
        errors.setdefault(line, []).append(msg)
    # type map: the argument expressions of every probe call
    tmap: dict[int, list[list[str] | None]] = {}
    types = res.types

    class V(TraverserVisitor):
        def visit_call_expr(self, e: CallExpr) -> None:
            if isinstance(e.callee, NameExpr) and e.callee.name == "P":
                row = []
                for a in e.args[2:]:
                    t = types.get(a)
                    row.append(None if t is None else type_atoms(t))
                tmap[e.line] = row
            super().visit_call_expr(e)

    tree = res.graph["m"].tree
    if tree is None:
        raise MachineryError("mypy kept no tree")
    tree.accept(V())
    out: dict[str, Any] = {"funcs": [], "prelude_errors": []}
    last_prelude = rd.funcs[0]["first"] - 1 if rd.funcs else 10 ** 9
    for line, msgs in errors.items():
        if line <= last_prelude:
            out["prelude_errors"].append((line, msgs))
    helper_types = {}
    for line, name in rd.helper_lines.items():
        rv = reveals.get(line)
        helper_types[name] = rv[0][1] if rv else None
    out["helpers"] = helper_types
    for info in rd.funcs:
        nv = len(info["vars"])
        rev: dict[int, Any] = {}
        tm: dict[int, Any] = {}
        for pi, plines in info["probe"].items():
            rv = [reveals[ln][0][1] for ln in plines if ln in reveals]
            if rv:
                if len(rv) != nv or any(len(reveals[ln]) != 1 for ln in plines):
                    raise MachineryError("probe line %d: %d reveals for %d variables" % (plines[0], len(rv), nv))
                rev[pi] = rv
            row = tmap.get(plines[0])
            if row is not None and any(t is not None for t in row):
                tm[pi] = row
        errs: dict[int, list[str]] = {}
        tokline = {ln: pos for pos, ln in info["tok"].items()}
        for line in range(info["first"], info["last"] + 1):
            if line in errors:
                if line == info["def"]:
                    pos = -1     # reported at the def: missing return
                elif line in tokline:
                    pos = tokline[line]
                else:
                    pos = -2     # on a probe line: unexpected
                errs.setdefault(pos, []).extend(errors[line])
        out["funcs"].append({"rev": rev, "tm": tm, "errs": errs})
    return out


# =========================================================================== CPython (the oracle)
class _Fuel(BaseException):
    pass


def arg_classes(tx: Iterable[str]) -> list[str]:
    return sorted(meaning(tx), key=lambda a: ORDER[a])


def run_cpython(text: str, rd: Rendered, recs: list[dict[str, Any]], mres: dict[str, Any],
                accepted: list[bool], only: set[int] | None = None, cond_bits: int = COND_BITS,
                fuel: int = FUEL) -> tuple[list[dict[str, Any]], dict[str, int]]:
    """Run every accepted function on every input; return property violations (real mypy vs CPython)."""
    g: dict[str, Any] = {"__name__": "m"}
    exec(compile(text, "m.py", "exec"), g)
    g["reveal_type"] = lambda v: v
    stats = {"executions": 0, "probe_hits": 0, "runtime_failures": 0, "rejected_failing": 0}
    state: dict[str, Any] = {"bits": [], "ncond": 0, "hits": 0, "exp": None, "bad": None, "fi": -1}
    helper_exp = {}
    for hid, (name, t) in rd.helpers.items():
        ht = mres["helpers"].get(name)
        helper_exp[hid] = None if ht is None else meaning(ht)

    def cname(v: Any) -> str:
        n = type(v).__name__
        return "N" if n == "NoneType" else n

    def P(f: int, i: int, *vals: Any) -> None:
        state["hits"] += 1
        if state["hits"] > fuel:
            raise _Fuel()
        if state["exp"] is None:
            return
        if f == 999999:
            allowed = helper_exp[i]
            if allowed is not None and cname(vals[0]) not in allowed and state["bad"] is None:
                state["bad"] = ("member-param", "helper %s got %s" % (rd.helpers[i][0], cname(vals[0])))
            return
        exp = state["exp"].get(i)
        if exp is None:
            if state["bad"] is None:
                state["bad"] = ("unreachable-executed", "point %d runs, mypy treated it as unreachable" % i)
            return
        for k, v in enumerate(vals):
            if cname(v) not in exp[k]:
                if state["bad"] is None:
                    state["bad"] = ("member", "point %d: %s holds %s, mypy says %s" % (i, "xy"[k], cname(v), exp[k][-1]))
                return

    def cond() -> bool:
        n = state["ncond"]
        state["ncond"] = n + 1
        return state["bits"][n] if n < len(state["bits"]) else False

    g["P"], g["cond"] = P, cond
    bad: list[dict[str, Any]] = []
    for fi, rec in enumerate(recs):
        if only is not None and fi not in only:
            continue
        fr = mres["funcs"][fi]
        acc = accepted[fi]
        if acc:
            exp: dict[int, Any] = {}
            for pi, row in fr["rev"].items():
                trow = fr["tm"].get(pi)
                e = []
                for k, t in enumerate(row):
                    allowed = set(meaning(t)) if t is not None else set(ATOMS)
                    label = tname(t) if t is not None else "?"
                    if trow is not None and trow[k] is not None:
                        allowed &= meaning(trow[k])
                        if set(trow[k]) != set(t or []):
                            label += " / type map " + tname(trow[k])
                    e.append((frozenset(allowed), label))
                exp[pi] = [_Allowed(a, l) for a, l in e]
            state["exp"] = exp
        else:
            state["exp"] = None
        fn = g["f%d" % fi]
        rmean = meaning(rec["h"]["r"])
        failing = False
        for cls in arg_classes(rec["h"]["tx"]):
            work: list[list[bool]] = [[]]
            while work:
                bits = work.pop()
                state.update(bits=bits, ncond=0, hits=0, bad=None)
                arg = None if cls == "N" else g[cls]()
                stats["executions"] += 1
                outcome = None
                try:
                    rv = fn(arg)
                    if cname(rv) not in rmean:
                        outcome = ("return", "returns %s, declared %s" % (cname(rv), tname(rec["h"]["r"])))
                except _Fuel:
                    pass
                except (AttributeError, TypeError) as e:
                    outcome = ("exception", "%s: %s" % (type(e).__name__, e))
                except UnboundLocalError:
                    pass
                stats["probe_hits"] += state["hits"]
                used = state["ncond"]
                for j in range(len(bits), min(used, cond_bits)):
                    work.append(bits + [False] * (j - len(bits)) + [True])
                if outcome is not None:
                    failing = True
                problem = state["bad"] or outcome
                if acc and problem is not None:
                    bad.append({"fi": fi, "kind": problem[0], "what": problem[1], "arg": cls, "conds": bits})
                    work = []
                    break
            else:
                continue
            break
        if failing:
            stats["runtime_failures"] += 1
            if not acc:
                stats["rejected_failing"] += 1
    return bad, stats


class _Allowed:
    """Set of allowed class names with the type text it came from (for messages)."""
    __slots__ = ("s", "label")

    def __init__(self, s: frozenset[str], label: str) -> None:
        self.s, self.label = s, label

    def __contains__(self, x: str) -> bool:
        return x in self.s

    def __getitem__(self, i: int) -> str:
        return self.label


# =========================================================================== one chunk = one module
_LIBDIR = ""


def _init_worker(libdir: str) -> None:
    global _LIBDIR
    _LIBDIR = os.path.join(libdir, "w%d" % os.getpid())
    os.makedirs(_LIBDIR, exist_ok=True)
    shutil.copy(os.path.join(libdir, "builtins.pyi"), os.path.join(_LIBDIR, "builtins.pyi"))


def spec_errs(rec: dict[str, Any]) -> set[int]:
    n = len(rec["p"])
    return {(-1 if e == n + 1 else e) for e in rec["e"]}


def check_chunk(job: tuple[int, list[dict[str, Any]], bool]) -> dict[str, Any]:
    """Render, run real mypy, compare with Gamma (when the records carry one), run CPython."""
    cid, recs, has_gamma = job
    rd = render_module(recs)
    t0 = time.time()
    mres = run_mypy(rd.text, _LIBDIR, rd)
    t_mypy = time.time() - t0
    if mres["prelude_errors"]:
        raise MachineryError("mypy reports errors in the prelude: %r" % mres["prelude_errors"][:3])
    drift: list[dict[str, Any]] = []
    accepted: list[bool] = []
    n_probe = 0
    for fi, rec in enumerate(recs):
        fr = mres["funcs"][fi]
        if -2 in fr["errs"]:
            raise MachineryError("mypy error on a probe line: %s %r" % (source_key(rec), fr["errs"][-2]))
        accepted.append(not fr["errs"])
        if not has_gamma:
            continue
        vs = prog_vars(rec)
        why = None
        for pi in range(1, len(rec["p"]) + 2):
            gm, gl = rec["g"][pi - 1], rec["l"][pi - 1]
            n_probe += 1
            rv = fr["rev"].get(pi)
            if gm["seen"] != (rv is not None):
                why = "point %d: spec %s, mypy %s" % (pi, "reachable" if gm["seen"] else "unreachable",
                                                     "reachable" if rv is not None else "unreachable")
                break
            if rv is None:
                continue
            for k, v in enumerate(vs):
                if rv[k] is None or set(rv[k]) != set(gm["ty"][v]):
                    why = "point %d: %s revealed %s, spec %s" % (pi, v, rv[k] and tname(rv[k]), tname(gm["ty"][v]))
                    break
                tm = fr["tm"].get(pi)
                if tm is None or tm[k] is None or set(tm[k]) != set(gl["ty"][v]):
                    why = "point %d: %s type map %s, spec (last visit) %s" % (
                        pi, v, tm and tm[k] and tname(tm[k]), tname(gl["ty"][v]))
                    break
            if why:
                break
        if why is None and set(fr["errs"]) != spec_errs(rec):
            why = "errors at %s, spec %s (%s)" % (sorted(fr["errs"]), sorted(spec_errs(rec)),
                                                   "; ".join(m for ms in fr["errs"].values() for m in ms)[:200])
        if why:
            drift.append({"prog": source_key(rec), "why": why, "fi": fi, "accepted_by_mypy": accepted[fi]})
    t0 = time.time()
    bad, stats = run_cpython(rd.text, rd, recs, mres, accepted)
    # a drifting program that mypy accepts is where unsoundness hides (mypy narrower than the specification): run it
    # again, against mypy's own revealed types, with a deeper tree of opaque conditions and more fuel
    deep = {d["fi"] for d in drift if d["accepted_by_mypy"]} - {bd["fi"] for bd in bad}
    if deep:
        bad2, stats2 = run_cpython(rd.text, rd, recs, mres, accepted, only=deep, cond_bits=6, fuel=400)
        bad += bad2
        for d in drift:
            if d["fi"] in deep:
                d["deeper_executions"] = stats2["executions"]
    for d in drift:
        d["violates_property"] = any(bd["fi"] == d["fi"] for bd in bad)
    t_run = time.time() - t0
    for bd in bad:
        rec = recs[bd["fi"]]
        bd["prog"] = source_key(rec)
        bd["rec"] = {"h": rec["h"], "p": rec["p"], "variant": rec.get("variant", 0)}
    sample = None
    if cid == 0 and recs:
        fi = next((i for i, a in enumerate(accepted) if a and len(recs[i]["p"]) >= 3), 0)
        info = rd.funcs[fi]
        sample = {"program": source_key(recs[fi]), "accepted_by_mypy": accepted[fi],
                  "python": rd.text.split("\n")[info["first"] - 1: info["last"]],
                  "mypy_revealed": {str(k): [t and tname(t) for t in v] for k, v in sorted(mres["funcs"][fi]["rev"].items())}}
    return {"cid": cid, "n": len(recs), "accepted": sum(accepted), "acc_flags": accepted, "drift": drift, "bad": bad,
            "stats": stats, "n_probe": n_probe, "t_mypy": t_mypy, "t_run": t_run, "sample": sample}


# =========================================================================== perturbations (iii)
# (no E: the class whose truthiness varies is explored only in the exhaustive slices, where finding C01/1 lives;
#  seeded spaces must stay clear of it so that runs do not depend on the seed)
TYPE_POOL = [["A"], ["B"], ["D"], ["N"], ["A", "N"], ["B", "N"], ["A", "D"], ["B", "D"], ["B", "C"], ["C", "D"],
             ["A", "D", "N"], ["B", "D", "N"], ["B", "C", "N"], ["C", "N"], ["D", "N"]]
CLASS_POOL = ["A", "B", "C", "D"]


def mentions_E(rec: dict[str, Any]) -> bool:
    return '"E"' in json.dumps([rec["h"], rec["p"]])


def reductions(rec: dict[str, Any]) -> list[dict[str, Any]]:
    """Programs with one statement removed, one block removed, or one block replaced by its (first) body."""
    p = rec["p"]
    n = len(p)
    res = []

    def close(i: int) -> tuple[int, list[int]]:
        """(index of the matching end, indices of the else/case tokens at depth 0) of the compound opened at i."""
        d = 0
        seps = []
        for j in range(i + 1, n):
            k = p[j]["k"]
            if k in ("if", "while", "match"):
                d += 1
            elif k == "end":
                if d == 0:
                    return j, seps
                d -= 1
            elif k in ("else", "case") and d == 0:
                seps.append(j)
        raise MachineryError("unbalanced")

    for i, t in enumerate(p):
        k = t["k"]
        if k in ("else", "end", "case"):
            continue
        if k in ("if", "while", "match"):
            e, seps = close(i)
            res.append(p[:i] + p[e + 1:])                                   # drop the whole statement
            first_end = seps[0] if seps else e
            body = p[i + 1:first_end]
            res.append(p[:i] + body + p[e + 1:])                            # keep only the first body
            if seps and k == "if":
                res.append(p[:i] + p[seps[0] + 1:e] + p[e + 1:])            # keep only the else body
                res.append(p[:seps[0]] + p[e:])                             # drop the else part
        else:
            res.append(p[:i] + p[i + 1:])
    out = []
    for q in res:
        # an else body must not be empty, break/continue must stay inside a loop
        ok = True
        depth_loop = []
        for j, t in enumerate(q):
            if t["k"] == "else" and q[j + 1]["k"] == "end":
                ok = False
            if t["k"] in ("if", "while", "match"):
                depth_loop.append(t["k"])
            elif t["k"] == "end":
                depth_loop.pop()
            elif t["k"] in ("brk", "cnt") and "while" not in depth_loop:
                ok = False
        if ok and q:
            out.append({"h": rec["h"], "p": q, "variant": rec.get("variant", 0)})
    return out


def minimise(rec: dict[str, Any], kind: str) -> dict[str, Any]:
    """1-minimal failing program: no single reduction still fails (real mypy + CPython decide)."""
    cur = {"h": rec["h"], "p": rec["p"], "variant": rec.get("variant", 0)}
    for _ in range(40):
        cands = reductions(cur)
        if not cands:
            break
        res = check_chunk((-1, cands, False))
        failing = sorted({bd["fi"] for bd in res["bad"]})
        if not failing:
            break
        cur = cands[failing[0]]
    return cur


def perturbations(rec: dict[str, Any]) -> list[dict[str, Any]]:
    """All single edits: one annotation changed, one constructor changed, one isinstance guard dropped."""
    res: list[dict[str, Any]] = []
    base = {"h": rec["h"], "p": rec["p"]}

    def clone() -> dict[str, Any]:
        return json.loads(json.dumps(base))

    h = rec["h"]
    for fld in ("tx", "ty", "r"):
        if fld == "ty" and h["e0"]["ek"] == "-":
            continue
        for t in TYPE_POOL:
            if set(t) != set(h[fld]):
                c = clone(); c["h"][fld] = t; c["edit"] = "annotation %s: %s -> %s" % (fld, tname(h[fld]), tname(t))
                res.append(c)
    if h["e0"]["ek"] == "new":
        for k in CLASS_POOL:
            if k != h["e0"]["c"]:
                c = clone(); c["h"]["e0"]["c"] = k; c["edit"] = "constructor y0: %s -> %s" % (h["e0"]["c"], k)
                res.append(c)
    for i, t in enumerate(rec["p"]):
        if t["k"] in ("asg", "ret") and t["e"]["ek"] == "new":
            for k in CLASS_POOL:
                if k != t["e"]["c"]:
                    c = clone(); c["p"][i]["e"]["c"] = k; c["edit"] = "constructor @%d: %s -> %s" % (i + 1, t["e"]["c"], k)
                    res.append(c)
        if t["k"] == "call":
            for tt in TYPE_POOL:
                if set(tt) != set(t["t"]):
                    c = clone(); c["p"][i]["t"] = tt; c["edit"] = "annotation helper @%d: %s -> %s" % (i + 1, tname(t["t"]), tname(tt))
                    res.append(c)
        if t["k"] in ("if", "while") and t["q"]["qk"] == "isi":
            c = clone(); c["p"][i]["q"] = {"qk": "opq", "v": "-", "c": "-"}; c["edit"] = "guard @%d dropped" % (i + 1)
            res.append(c)
    return res


# =========================================================================== TLC
def run_tlc_slice(cfg: str, workers: int, timeout: int, simulate: str | None = None, seed: int | None = None,
                  depth: int | None = None) -> Any:
    r = tlc("MC_FlowTyping", cfg, workers=workers, timeout=timeout, simulate=simulate, seed=seed, depth=depth,
            coverage=simulate is None, heap="6g")
    if r.error:
        raise MachineryError("TLC %s: %s" % (cfg, r.error))
    return r


def decode_program(arr: list[Any]) -> dict[str, Any]:
    """Compact JSON arrays printed by FlowTyping!Emit -> the record form used in this module."""
    hd, toks, g, l, errs = arr
    h = {"tx": hd[0], "ty": hd[1], "e0": {"ek": hd[2], "c": hd[3], "w": hd[4]}, "r": hd[5]}
    two = hd[2] != "-"
    p = [{"k": t[0], "v": t[1], "e": {"ek": t[2], "c": t[3], "w": t[4]}, "q": {"qk": t[5], "v": t[6], "c": t[7]},
          "t": t[8]} for t in toks]

    def gam(rows: list[Any]) -> list[dict[str, Any]]:
        return [{"seen": r[0], "ty": ({"x": r[1], "y": r[2]} if two else {"x": r[1]})} for r in rows]

    gg = gam(g)
    return {"h": h, "p": p, "g": gg, "l": gam(l) if l else gg, "e": errs}


def programs_of(r: Any) -> list[dict[str, Any]]:
    seen: dict[str, dict[str, Any]] = {}
    for arr in r.json_lines("PROG"):
        rec = decode_program(arr)
        seen.setdefault(json.dumps([rec["h"], rec["p"]], sort_keys=True), rec)
    return [seen[k] for k in sorted(seen)]


# =========================================================================== real CLI, real typeshed (A-fixtures)
def cli_crosscheck(recs: list[dict[str, Any]], root: str, sub: str = "cli") -> dict[str, Any]:
    """The same module through `python -m mypy` with the real typeshed: diagnostics must be identical."""
    rd = render_module(recs)
    d = os.path.join(root, sub)
    os.makedirs(d, exist_ok=True)
    shutil.copy(os.path.join(root, "builtins.pyi"), os.path.join(d, "builtins.pyi"))
    mres = run_mypy(rd.text, d, rd)
    os.unlink(os.path.join(d, "builtins.pyi"))
    path = os.path.join(d, "m.py")
    with open(path, "w") as f:
        f.write(rd.text)
    p = subprocess.run([PY, "-m", "mypy", "--no-incremental", "--show-column-numbers", "--no-error-summary",
                        "--python-version", "3.12", "--no-color-output", "m.py"],
                       cwd=d, env=repo_env(), capture_output=True, text=True, timeout=600)
    if p.returncode not in (0, 1):
        raise MachineryError("mypy CLI failed: " + (p.stdout + p.stderr)[-1500:])
    reveals: dict[int, list[Any]] = {}
    errs: set[int] = set()
    for line in p.stdout.splitlines():
        mm = _RE_MSG.match(line)
        if not mm:
            continue
        ln, col, sev, msg = int(mm.group(1)), int(mm.group(2)), mm.group(3), mm.group(4)
        r = _RE_REV.match(msg)
        if sev == "note" and r:
            reveals.setdefault(ln, []).append((col, parse_type(r.group(1).replace("m.", "m."))))
        elif sev == "error":
            errs.add(ln)
    diffs = []
    n = 0
    for fi, info in enumerate(rd.funcs):
        fr = mres["funcs"][fi]
        for pi, plines in info["probe"].items():
            n += 1
            cli = [t for ln in plines for _, t in reveals.get(ln, [])] or None
            if cli != fr["rev"].get(pi):
                diffs.append("f%d point %d: CLI %r fixtures %r" % (fi, pi, cli, fr["rev"].get(pi)))
        cli_err = any(ln in errs for ln in range(info["first"], info["last"] + 1))
        if cli_err != bool(fr["errs"]):
            diffs.append("f%d: CLI %s, fixtures %s" % (fi, "rejects" if cli_err else "accepts",
                                                      "rejects" if fr["errs"] else "accepts"))
    return {"functions": len(recs), "probes_compared": n, "differences": diffs[:5], "n_diff": len(diffs)}


# =========================================================================== main
def tlc_plan(tier: str, seed: int) -> list[dict[str, Any]]:
    plan: list[dict[str, Any]] = []
    mc = (["S1", "S2", "L0", "P0", "N0", "E0"] if tier == "quick"
          else ["S1t", "S2t", "L1", "E1", "C1", "R1", "P1", "N0t", "E0t"])
    plan.append({"name": "T0", "kind": "gen", "cfg": "Gen_FlowTyping_T0.cfg", "workers": 3})
    plan.append({"name": "T0-pinned", "kind": "finding", "cfg": "Finding_FlowTyping_T0.cfg", "workers": 3})
    if tier == "thorough":
        plan.append({"name": "T0-repaired", "kind": "fixcheck", "cfg": "MC_FlowTyping_T0fix.cfg", "workers": 3})
    muts = ["dropopt", "elsedrop"] if tier == "quick" else ["dropopt", "noskip", "elsedrop", "asgnocheck", "jumpmiss"]
    nsim = 300 if tier == "quick" else 4000
    for m in mc:
        plan.append({"name": m, "kind": "mc", "cfg": "MC_FlowTyping_%s.cfg" % m, "workers": 4 if tier == "quick" else TLC_WORKERS})
    for m in ("Sim", "SimW"):
        plan.append({"name": m, "kind": "sim", "cfg": "Gen_FlowTyping_%s.cfg" % m, "workers": 3,
                     "simulate": "num=%d" % nsim, "seed": seed + 1})
    for m in muts:
        plan.append({"name": "mut-" + m, "kind": "mut", "cfg": "Mut_FlowTyping_%s.cfg" % m, "workers": 2})
    # fragment 2: sequence patterns (spec/SeqMatch.tla); fragment 3: overrides across hierarchies (spec/Override.tla)
    for m in (["Q1", "Q2", "Q3", "Q4"] if tier == "quick" else ["Q1", "Q2", "Q3", "Q4", "T1", "T2"]):
        plan.append({"name": "seq-" + m, "kind": "seq", "module": "MC_SeqMatch", "cfg": "MC_SeqMatch_%s.cfg" % m, "workers": 2})
    plan.append({"name": "seq-hole", "kind": "seqfinding", "module": "MC_SeqMatch", "cfg": "Finding_SeqMatch_Hole.cfg", "workers": 2})
    for m in (["offbyone"] if tier == "quick" else ["offbyone", "homirref"]):
        plan.append({"name": "seqmut-" + m, "kind": "mut", "module": "MC_SeqMatch", "cfg": "Mut_SeqMatch_%s.cfg" % m, "workers": 2})
    for m in (["3"] if tier == "quick" else ["3", "4"]):
        plan.append({"name": "ovr-" + m, "kind": "ovr", "module": "MC_Override", "cfg": "MC_Override_%s.cfg" % m, "workers": 3})
    for m in (["direct"] if tier == "quick" else ["direct", "nomi"]):
        plan.append({"name": "ovrmut-" + m, "kind": "mut", "module": "MC_Override", "cfg": "Mut_Override_%s.cfg" % m, "workers": 2})
    return plan


def main(argv: list[str]) -> int:
    tier, seed, replay = parse_args(argv)
    v = Verdict(PID, tier, seed)
    rnd = random.Random(seed)
    root = scratch("c01-")
    fixture = os.path.join(REPO, "test-data", "unit", "fixtures", "isinstance.pyi")
    shutil.copy(fixture, os.path.join(root, "builtins.pyi"))
    ctx = mp.get_context("fork")

    if replay:
        with open(replay) as f:
            rp = json.load(f)["replay"]
        _init_worker(root)
        res = check_chunk((-1, [rp["rec"]], False))
        print(render_module([rp["rec"]]).text)
        for bd in res["bad"]:
            print("REPRODUCED: %s: %s (arg %s, conds %s)" % (bd["kind"], bd["what"], bd["arg"], bd["conds"]))
        return 1 if res["bad"] else 0

    sany(os.path.join(SPEC, "MC_FlowTyping.tla"))
    sany(os.path.join(SPEC, "MC_SeqMatch.tla"))
    sany(os.path.join(SPEC, "MC_Override.tla"))

    # ---- 1. TLC: exhaustive slices (invariants + emission), simulation (emission), specification mutants
    from concurrent.futures import ThreadPoolExecutor
    plan = tlc_plan(tier, seed)

    def run_one(job: dict[str, Any]) -> Any:
        r = tlc(job.get("module", "MC_FlowTyping"), job["cfg"], workers=job["workers"], timeout=1500 if tier == "thorough" else 400,
                simulate=job.get("simulate"), seed=job.get("seed"), depth=150 if job["kind"] == "sim" else None,
                coverage=job["kind"] == "mc", heap="3g" if job["kind"] == "mut" else "6g")
        return r

    t0 = time.time()
    with ThreadPoolExecutor(4) as ex:
        results = list(ex.map(run_one, plan))
    t_tlc = time.time() - t0
    states = transitions = 0
    cov: dict[str, Any] = {}
    progs: list[tuple[str, dict[str, Any]]] = []
    spec_violated: list[str] = []
    mut: dict[str, Any] = {}
    model_finding: dict[str, Any] = {}
    seq_finding: dict[str, Any] = {}
    seq_recs: dict[str, dict[str, Any]] = {}
    ovr_recs: dict[str, dict[str, Any]] = {}
    fired: set[str] = set()
    all_actions: set[str] = set()
    for job, r in zip(plan, results):
        if r.error:
            raise MachineryError("TLC %s: %s" % (job["cfg"], r.error))
        if job["kind"] == "mut":
            mut[job["name"]] = r.violated
            if r.violated not in ("MemberOK", "RevealOK", "ReachOK", "NoWrong", "ReachSound", "CaptureSound", "Sound"):
                raise MachineryError("specification mutant %s not rejected: %s" % (job["name"], r.violated))
            continue
        if job["kind"] == "finding":
            # the slice that contains finding C01/1, checked with the join rule of the pinned tree: TLC is expected to
            # produce the counterexample; whether the tree under test still has the defect is decided by the replay
            model_finding = {"cfg": job["cfg"], "violated": r.violated, "states": r.distinct}
            states += r.distinct
            transitions += r.generated
            continue
        if job["kind"] == "seqfinding":
            seq_finding = {"cfg": job["cfg"], "violated": r.violated, "states": r.distinct}
            states += r.distinct
            transitions += r.generated
            continue
        if job["kind"] in ("seq", "ovr"):
            if r.violated:
                raise MachineryError("%s: specification invariant %s violated" % (job["cfg"], r.violated))
            states += r.distinct
            transitions += r.generated
            arrs = r.json_lines("SEQ" if job["kind"] == "seq" else "OVR")
            if len(arrs) < 50:
                raise MachineryError("%s emitted only %d programs" % (job["cfg"], len(arrs)))
            cov[job["name"]] = {"states": r.distinct, "transitions": r.generated, "programs": len(arrs),
                                "wall_s": round(r.wall, 1), "exhaustive": True}
            if job["kind"] == "seq":
                for a in arrs:
                    rec2 = c01_seq.decode(a)
                    seq_recs.setdefault(c01_seq.key_of(rec2), rec2)
            else:
                for a in arrs:
                    rec2 = c01_ovr.decode(a)
                    ovr_recs.setdefault(c01_ovr.key_of(rec2), rec2)
            continue
        if job["kind"] == "fixcheck":
            if r.violated:
                raise MachineryError("%s: the repaired join rule violates %s" % (job["cfg"], r.violated))
            states += r.distinct
            transitions += r.generated
            cov[job["name"]] = {"states": r.distinct, "transitions": r.generated, "holds": True}
            continue
        recs = programs_of(r)
        if job["kind"] == "mc":
            states += r.distinct
            transitions += r.generated
            cov[job["name"]] = dict(coverage_summary(r), states=r.distinct, transitions=r.generated,
                                    programs=len(recs), wall_s=round(r.wall, 1), exhaustive=r.violated is None)
            all_actions |= set(r.coverage)
            fired |= {a for a, (d, t) in r.coverage.items() if t > 0}
        elif job["kind"] == "gen":
            if r.violated:
                raise MachineryError("%s: %s" % (job["cfg"], r.violated))
            states += r.distinct
            transitions += r.generated
            cov[job["name"]] = {"states": r.distinct, "transitions": r.generated, "programs": len(recs),
                                "wall_s": round(r.wall, 1), "exhaustive": True}
        else:
            cov[job["name"]] = {"simulated_programs": len(recs), "wall_s": round(r.wall, 1), "seed": job["seed"]}
        if r.violated:
            spec_violated.append("%s:%s" % (job["name"], r.violated))
            v.notes.append("TLC: invariant %s violated in %s (the replay below decides whether real mypy is unsound)"
                           % (r.violated, job["cfg"]))
        if len(recs) < (50 if job["kind"] == "mc" else 20) and not r.violated:
            raise MachineryError("%s emitted only %d programs" % (job["cfg"], len(recs)))
        progs += [(job["name"], rec) for rec in recs]
    never = sorted(all_actions - fired)
    if never:
        raise MachineryError("actions never fired in any exhaustive slice: %s" % never)
    # de-duplicate across slices
    uniq: dict[str, tuple[str, dict[str, Any]]] = {}
    for name, rec in progs:
        uniq.setdefault(json.dumps([rec["h"], rec["p"]], sort_keys=True), (name, rec))
    keys = sorted(uniq)
    rnd.shuffle(keys)   # balance chunks; every program is replayed whatever the order
    recs_all = [uniq[k][1] for k in keys]
    print("TLC: %d states, %d programs emitted (%d distinct), %.0fs" % (states, len(progs), len(recs_all), t_tlc), flush=True)

    # ---- 2. replay into real mypy + CPython
    recs_plain = [rec for rec in recs_all if not mentions_E(rec)]
    recs_E = [rec for rec in recs_all if mentions_E(rec)]
    recs_E2 = [dict(rec, variant=1) for rec in recs_E]     # same programs, E inherits __len__ from a non-final base
    groups = [recs_plain[c:c + CHUNK] for c in range(0, len(recs_plain), CHUNK)]
    groups += [recs_E[c:c + CHUNK] for c in range(0, len(recs_E), CHUNK)]
    groups += [recs_E2[c:c + CHUNK] for c in range(0, len(recs_E2), CHUNK)]
    jobs = [(i, g, True) for i, g in enumerate(groups)]
    t0 = time.time()
    with ctx.Pool(NPROC, initializer=_init_worker, initargs=(root,)) as pool:
        cli_async = pool.apply_async(cli_crosscheck, (recs_plain[:CHUNK], root))
        cli2_async = pool.apply_async(cli_crosscheck, (recs_E2[:CHUNK], root, "cli2"))
        out = pool.map(check_chunk, jobs, chunksize=1)
        # ---- 3. perturbations of accepted programs
        accepted_recs = [rec for res in out for rec, a in zip(jobs[res["cid"]][1], res["acc_flags"])
                         if a and not mentions_E(rec)]
        accepted_recs.sort(key=source_key)
        rnd.shuffle(accepted_recs)
        base = accepted_recs[: (80 if tier == "quick" else 800)]
        pert: dict[str, dict[str, Any]] = {}
        for rec in base:
            for c in perturbations(rec):
                pert.setdefault(json.dumps([c["h"], c["p"]], sort_keys=True), c)
        pkeys = [k for k in sorted(pert) if k not in uniq]
        precs = [pert[k] for k in pkeys]
        pjobs = [(10 ** 6 + i, precs[c:c + CHUNK], False) for i, c in enumerate(range(0, len(precs), CHUNK))]
        pout = pool.map(check_chunk, pjobs, chunksize=1)
        cli = cli_async.get()
        cli2 = cli2_async.get()
        cli = {"functions": cli["functions"] + cli2["functions"], "probes_compared": cli["probes_compared"] + cli2["probes_compared"],
               "differences": cli["differences"] + cli2["differences"], "n_diff": cli["n_diff"] + cli2["n_diff"]}
    # ---- 3b. fragment 2 (sequence patterns) and fragment 3 (overrides): real mypy with the real typeshed + CPython
    seq_all = [seq_recs[k] for k in sorted(seq_recs)]
    seq_norm = [x for x in seq_all if not x["crash"]]
    seq_crash = [x for x in seq_all if x["crash"]][: (40 if tier == "quick" else 150)]
    ovr_all = [ovr_recs[k] for k in sorted(ovr_recs)]
    rnd.shuffle(seq_norm)
    rnd.shuffle(ovr_all)
    sjobs = [(i, seq_norm[c:c + 300], root) for i, c in enumerate(range(0, len(seq_norm), 300))]
    cjobs = [(i, x, root) for i, x in enumerate(seq_crash)]
    ojobs = [(i, ovr_all[c:c + 120], root) for i, c in enumerate(range(0, len(ovr_all), 120))]
    with ctx.Pool(NPROC) as pool:
        sout = pool.map(c01_seq.check_chunk, sjobs, chunksize=1)
        cout = pool.map(c01_seq.check_crash, cjobs, chunksize=2)
        oout = pool.map(c01_ovr.check_chunk, ojobs, chunksize=1)
    t_replay = time.time() - t0

    # ---- 4. verdicts
    tot = {"executions": 0, "probe_hits": 0, "runtime_failures": 0, "rejected_failing": 0}
    n_acc = n_probe = 0
    drift: list[dict[str, Any]] = []
    bad: list[dict[str, Any]] = []
    sample = None
    for res in out:
        for k in tot:
            tot[k] += res["stats"][k]
        n_acc += res["accepted"]
        n_probe += res["n_probe"]
        drift += res["drift"]
        bad += res["bad"]
        sample = sample or res["sample"]
    ptot = {"executions": 0, "probe_hits": 0, "runtime_failures": 0, "rejected_failing": 0}
    p_acc = 0
    for res in pout:
        for k in ptot:
            ptot[k] += res["stats"][k]
        p_acc += res["accepted"]
        bad += [dict(bd, perturbation=True) for bd in res["bad"]]
    bad.sort(key=lambda bd: (len(bd["rec"]["p"]), bd["prog"]))
    _init_worker(root)
    seen_min: set[str] = set()
    for bd in bad[:40]:
        again = check_chunk((-1, [bd["rec"]], False))        # reproduce alone, in a fresh module
        if not again["bad"]:
            raise MachineryError("violation not reproduced in isolation: " + bd["prog"])
        mrec = minimise(bd["rec"], again["bad"][0]["kind"])   # 1-minimal failing program = the key
        a = check_chunk((-1, [mrec], False))["bad"][0]
        prog = source_key(mrec)
        key = "unsound:%s:%s" % (a["kind"], prog)
        if key in seen_min:
            continue
        seen_min.add(key)
        v.violation(key, {"rec": mrec, "arg": a["arg"], "conds": a["conds"], "kind": a["kind"], "found_as": bd["prog"],
                          "python": render_module([mrec]).text.split("\n")},
                    "mypy accepts `%s` but under CPython (x=%s, cond()=%s): %s" % (prog, a["arg"], a["conds"], a["what"]))
    seq_drift = [d for res in sout for d in res["drift"]]
    seq_bad = sorted((b for res in sout for b in res["bad"]), key=lambda b: (len(b["prog"]), b["prog"]))
    crash_unconfirmed = [c["prog"] for c in cout if not c["crashed"]]
    ovr_drift = [d for res in oout for d in res["drift"]]
    ovr_bad = sorted((b for res in oout for b in res["bad"]), key=lambda b: (len(b["prog"]), b["prog"]))
    for bd in seq_bad[:400]:
        again = c01_seq.recheck(bd["rec"], root)
        if not again:
            raise MachineryError("sequence-pattern violation not reproduced in isolation: " + bd["prog"])
        v.violation("unsound-seq:%s:%s" % (again[0]["kind"], bd["prog"]),
                    {"fragment": "seqmatch", "rec": bd["rec"], "value": again[0]["value"], "spec_status": bd["status"],
                     "python": c01_seq.render([dict(bd["rec"])])[0].split("\n")},
                    "mypy accepts `%s` but under CPython (t=%s): %s" % (bd["prog"], again[0]["value"], again[0]["what"]))
    for bd in ovr_bad[:100]:
        full = next(x for x in ovr_all if c01_ovr.key_of(x) == bd["prog"])
        again = c01_ovr.check_chunk((-1, [full], root))["bad"]
        if not again:
            raise MachineryError("override violation not reproduced in isolation: " + bd["prog"])
        v.violation("unsound-ovr:%s:%s" % (again[0]["kind"], bd["prog"]),
                    {"fragment": "override", "rec": bd["rec"], "python": c01_ovr.render([full])[0].split("\n")},
                    "mypy accepts the classes of `%s` but under CPython: %s" % (bd["prog"], again[0]["what"]))
    for d in (seq_drift + ovr_drift)[:10]:
        print("MODEL-DRIFT: %s -- %s" % (d["prog"], d["why"]), flush=True)
    for d in drift[:10]:
        print("MODEL-DRIFT: %s -- %s (%s)" % (d["prog"], d["why"],
              "mypy rejects the program" if not d["accepted_by_mypy"] else
              "VIOLATES the property under CPython, reported above" if d["violates_property"] else
              "mypy accepts it; CPython against mypy's own types incl. %d deeper executions: no violation" % d.get("deeper_executions", 0)),
              flush=True)
    # machinery complaints (binding broken / vacuous); a violation found above takes precedence
    complaints: list[str] = []
    if model_finding and not model_finding.get("violated"):
        complaints.append("%s: TLC no longer produces the counterexample of finding C01/1" % model_finding["cfg"])
    if spec_violated and not bad:
        complaints.append("the specification violates %s but real mypy + CPython show no unsoundness: model drift" % spec_violated)
    if not recs_all or n_probe == 0 or tot["executions"] == 0 or tot["probe_hits"] == 0 or n_acc == 0:
        complaints.append("replay did not run (programs %d, probes %d, executions %d)" % (len(recs_all), n_probe, tot["executions"]))
    if not any(not g["seen"] for rec in recs_all for g in rec["g"]):
        complaints.append("no emitted program has an unreachable point")
    if ptot["rejected_failing"] == 0:
        complaints.append("no perturbation was both failing at run time and rejected by mypy")
    if cli["n_diff"]:
        complaints.append("fixtures and real typeshed disagree: %r" % cli["differences"])
    if len(drift) > max(3, len(recs_all) // 100):
        complaints.append("model drift on %d of %d programs: the specification no longer describes mypy (first: %s -- %s)"
                          % (len(drift), len(recs_all), drift[0]["prog"], drift[0]["why"]))
    if not sout or not oout or sum(r["executions"] for r in sout) == 0 or sum(r["executions"] for r in oout) == 0:
        complaints.append("the sequence-pattern / override replay did not run")
    if len(seq_drift) > max(3, len(seq_norm) // 100):
        complaints.append("sequence patterns: model drift on %d of %d programs (first: %s -- %s)"
                          % (len(seq_drift), len(seq_norm), seq_drift[0]["prog"], seq_drift[0]["why"]))
    if len(ovr_drift) > max(3, len(ovr_all) // 100):
        complaints.append("overrides: model drift on %d of %d hierarchies (first: %s -- %s)"
                          % (len(ovr_drift), len(ovr_all), ovr_drift[0]["prog"], ovr_drift[0]["why"]))
    if len(crash_unconfirmed) > max(2, len(cout) // 10):
        complaints.append("predicted mypy crashes not observed: %s" % crash_unconfirmed[:3])
    if seq_finding and not seq_finding.get("violated"):
        complaints.append("%s: TLC no longer produces the counterexample of finding C01/2" % seq_finding["cfg"])
    if complaints and not v.violations:
        raise MachineryError("; ".join(complaints))
    v.notes += complaints

    # ---- try fragment (TryFlow.tla): programs x raise schedules, CPython outcome = specified outcome, mypy's verdict
    from harness.drivers.c01_try import run_try_family
    tryfam = run_try_family(v, tier, seed)
    states += tryfam["states"]; transitions += tryfam["transitions"]

    coverage = {
        "states": states, "transitions": transitions,
        "tryflow": tryfam,
        "traces_validated_against_impl": (len(recs_all) - len({d["prog"].replace(VARIANT_NOTE, "") for d in drift})
                                          + len(seq_norm) - len(seq_drift) + len(ovr_all) - len(ovr_drift)),
        "programs_replayed": len(recs_all),
        "modules_checked_by_mypy": len(jobs),
        "E_programs_replayed_in_both_class_variants": len(recs_E),
        "programs_accepted_by_mypy": n_acc,
        "probe_points_compared_with_gamma": n_probe,
        "model_drift": {"programs": len(drift), "samples": drift[:5]},
        "cpython": tot,
        "perturbations": {"base_programs": len(base), "perturbed_programs": len(precs), "accepted_by_mypy": p_acc,
                          "failing_at_runtime": ptot["runtime_failures"], "failing_and_rejected": ptot["rejected_failing"],
                          "executions": ptot["executions"]},
        "seqmatch": {"programs_replayed": len(seq_norm), "accepted_by_mypy": sum(r["accepted"] for r in sout),
                     "rejected_by_mypy_unmodelled": sum(r["rejected"] for r in sout),
                     "case_verdicts_compared": sum(r["probes"] for r in sout),
                     "cpython_executions": sum(r["executions"] for r in sout),
                     "model_drift": {"programs": len(seq_drift), "samples": seq_drift[:5]},
                     "violating_programs": len(seq_bad),
                     "predicted_crashes_replayed": len(cout), "crashes_confirmed": len(cout) - len(crash_unconfirmed),
                     "model_level_finding": seq_finding,
                     "sample": next((r["sample"] for r in sout if r["sample"]), None)},
        "override": {"hierarchies_replayed": len(ovr_all), "instance_classes_accepted": sum(r["instances_accepted"] for r in oout),
                     "cpython_executions": sum(r["executions"] for r in oout),
                     "model_drift": {"hierarchies": len(ovr_drift), "samples": ovr_drift[:5]},
                     "violating_hierarchies": len(ovr_bad),
                     "sample": next((r["sample"] for r in oout if r["sample"]), None)},
        "evaluations": tot["executions"] + ptot["executions"] + sum(r["executions"] for r in sout) + sum(r["executions"] for r in oout),
        "distinct_nontrivial": n_acc + p_acc,
        "rule": "every program TLC emits (all programs of each exhaustive slice up to its statement bound + simulated larger "
                "programs, seeded) is replayed: real mypy on the module, Gamma compared at every probe, then CPython on every "
                "argument class x every vector of %d opaque conditions; evaluations = CPython executions; non-trivial = distinct "
                "programs real mypy accepts (only those can violate the property), perturbations included" % COND_BITS,
        "samples": [sample],
        "tlc": cov,
        "spec_mutants_rejected": mut,
        "model_level_finding": model_finding,
        "cli_real_typeshed_crosscheck": cli,
        "wall_tlc_s": round(t_tlc, 1), "wall_replay_s": round(t_replay, 1),
        "exhaustive": False,
        "exhaustive_note": "each MC slice is complete for its bounds (see notes/C01.md); the simulated programs and the "
                           "perturbation bases are seeded samples",
    }
    return v.finish("model_checking", coverage, [
        "fragment: classes A, B(A), C(A), E(A) (final leaves; E falsy), D; None; unions; isinstance / is None / truthiness "
        "narrowing; assignment; if/else; while; break/continue/return; call; method call -- nothing else of the typed language",
        "try fragment (TryFlow.tla): one Optional[int] local, assignments, a call that may raise ValueError, `x + 1`, try / except "
        "ValueError|KeyError nested to depth 2; mypy --strict through the command line with the real typeshed",
        "A-fixtures: in-process builds use test-data/unit/fixtures/isinstance.pyi as builtins; one module per run is "
        "cross-checked through the real command line with the real typeshed",
        "executions: every argument class of the declared parameter type, opaque conditions enumerated to depth %d "
        "(later calls return False), %d probe hits of fuel" % (COND_BITS, FUEL),
    ])


if __name__ == "__main__":
    try:
        sys.exit(main(sys.argv[1:]))
    except MachineryError as e:
        print("MACHINERY FAILURE:", e, file=sys.stderr)
        sys.exit(2)
    except Exception:  # an unexpected failure of the machinery is never a verdict about mypy
        import traceback
        traceback.print_exc()
        print("MACHINERY FAILURE: unexpected failure of the machinery", file=sys.stderr)
        sys.exit(2)
