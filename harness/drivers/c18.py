"""C18 -- files and module names map to each other consistently.

Specification: spec/ModuleMap.tla (transcription of find_sources.crawl_up / find_sources_in_dir,
modulefinder.compute_search_paths / _find_module / find_modules_recursive and of load_graph's
seeding).  TLC enumerates every directory tree over a 12-path universe (four universes) x
options x working directory x mypy_path x target directory, checks the invariants on the model
and prints one observation per world.  Every world is materialised in a scratch directory and
replayed into the real create_source_list, compute_search_paths, FindModuleCache.find_module and
find_modules_recursive:

* binding: the real results must equal the model's (listings with order, search results for every
  name an import could mention under every order of the base directories, the -p listing);
* property: the statements of ModuleMap.tla (RoundTripFind, FindInvertsCrawl, OrderIndependence,
  DirVersusFiles, DirVersusPackage) are evaluated on the REAL results, independently of the model;
* a sample of worlds is confirmed through real builds (main.process_options + build.build with
  programs whose files import each other) and through the real command line:
  `mypy DIR` vs `mypy FILES...` (two orders) vs `mypy -p PKG`.
"""
from __future__ import annotations

import itertools
import json
import multiprocessing
import os
import random
import shutil
import subprocess
import sys
import time
from concurrent.futures import ProcessPoolExecutor, ThreadPoolExecutor, as_completed
from typing import Any

from harness.common import (MachineryError, PY, REPO, SPEC, Verdict, coverage_summary, parse_args,
                            repo_env, sany, scratch, tlc)

PID = "C18"
NWORK = min(16, os.cpu_count() or 4)

# =========================================================================== real side (workers)
_G: dict[str, Any] = {}


def _init_worker(root: str, known: list[str] | None = None) -> None:
    import mypy.build
    from mypy.modulefinder import load_stdlib_py_versions

    d = os.path.join(root, "p%d" % os.getpid())
    os.makedirs(d, exist_ok=True)
    _G["root"] = d
    _G["w"] = os.path.join(d, "w")
    _G["data_dir"] = mypy.build.default_data_dir()
    _G["stdlib"] = load_stdlib_py_versions(None)
    _G["tree"] = None
    _G["known"] = set(known or [])
    _G["unknown_minimised"] = 0
    ini = os.path.join(d, "empty.ini")
    with open(ini, "w") as f:
        f.write("[mypy]\n")
    _G["ini"] = ini


def _abs(rel: str) -> str:
    return os.path.join(_G["w"], rel) if rel else _G["w"]


def _rel(path: str) -> str:
    r = os.path.relpath(path, _G["w"])
    return "" if r == "." else r


def materialise(files: list[str], contents: dict[str, str] | None = None) -> None:
    key = (tuple(sorted(files)), None if contents is None else tuple(sorted(contents.items())))
    if _G["tree"] == key:
        return
    w = _G["w"]
    shutil.rmtree(w, ignore_errors=True)
    os.makedirs(os.path.join(w, "r"))
    for f in files:
        p = os.path.join(w, f)
        os.makedirs(os.path.dirname(p), exist_ok=True)
        with open(p, "w") as fh:
            fh.write("" if contents is None else contents.get(f, ""))
    _G["tree"] = key


def mkopts(cfg: dict[str, Any]) -> Any:
    from mypy.options import Options

    o = Options()
    o.namespace_packages = cfg["ns"]
    o.explicit_package_bases = cfg["epb"]
    o.mypy_path = [_abs(m) for m in cfg["mp"]]
    o.python_executable = None
    o.incremental = False
    return o


def listing(paths: list[str], opts: Any, cwd: str) -> tuple[list[tuple[str, str, str]], Any]:
    """Real create_source_list on command-line paths given relative to cwd."""
    from mypy.find_sources import create_source_list
    from mypy.fscache import FileSystemCache

    fsc = FileSystemCache()
    srcs = create_source_list([os.path.relpath(p, cwd) for p in paths], opts, fsc)
    return [(s.module, _rel(os.path.abspath(s.path)), _rel(s.base_dir)) for s in srcs], fsc


def finder_for(S: list[tuple[str, str, str]], opts: Any, fsc: Any) -> Any:
    """FindModuleCache on the search paths the real compute_search_paths derives from S.  Within one
    world (the tree does not change) one instance is re-pointed at the new search paths, the way
    FindModuleCache._can_find_module_in_parent_dir does, so that typeshed is listed once."""
    from mypy.modulefinder import BuildSource, FindModuleCache, compute_search_paths

    bs = [BuildSource(_abs(p), m, None, _abs(b)) for m, p, b in S]
    sp = compute_search_paths(bs, opts, _G["data_dir"])
    fmc = _G.get("fmc")
    if fmc is None or _G.get("fmc_tree") is not _G["tree"] or fmc.options is not opts:
        fmc = FindModuleCache(sp, fsc, opts, stdlib_py_versions=_G["stdlib"])
        _G["fmc"], _G["fmc_tree"] = fmc, _G["tree"]
    else:
        fmc.search_paths = sp
        fmc.results.clear()
        fmc.ns_ancestors.clear()
    return fmc


def pkg_finder(opts: Any) -> Any:
    """The finder main.process_options builds for -p / -m targets."""
    from mypy.fscache import FileSystemCache
    from mypy.modulefinder import FindModuleCache, SearchPaths, mypy_path

    sp = SearchPaths((os.getcwd(),), tuple(mypy_path() + opts.mypy_path), (), ())
    return FindModuleCache(sp, FileSystemCache(), opts, stdlib_py_versions=_G["stdlib"])


def fstr(res: Any) -> str:
    if not isinstance(res, str):
        return "-"
    if os.path.isdir(res):
        return _rel(res) + "/"
    return _rel(res)


def stub_sibling(p: str) -> str | None:
    return p + "i" if p.endswith(".py") else None


def distinct_bases(S: list[tuple[str, str, str]]) -> list[str]:
    out: list[str] = []
    for _, _, b in S:
        if b not in out:
            out.append(b)
    return out


def seeded(S: list[tuple[str, str]] | list[tuple[str, str, str]], fm: dict[str, str]) -> dict[str, str]:
    seeds = {x[0]: x[1] for x in S}
    return {x: (seeds[x] if x in seeds else ("<dir>" if r.endswith("/") else r)) for x, r in fm.items()}


def perms(n: int) -> list[tuple[int, ...]]:
    """ModuleMap.tla's Perms: every order of up to 4 base directories, 2n rotations beyond."""
    if n <= 4:
        return list(itertools.permutations(range(1, n + 1)))
    out = [tuple(((i + k - 1) % n) + 1 for i in range(1, n + 1)) for k in range(n)]
    out += [tuple(n - ((i + k - 1) % n) for i in range(1, n + 1)) for k in range(n)]
    return sorted(set(out))


def shadow_witness(files: list[str]) -> bool:
    """A module file beside a directory of the same name that holds files but no __init__."""
    fs = set(files)
    for f in files:
        d, name = os.path.split(f)
        stem = name.rsplit(".", 1)[0]
        if stem == "__init__":
            continue
        sub = os.path.join(d, stem) + "/"
        if any(g.startswith(sub) for g in files):
            if sub + "__init__.py" not in fs and sub + "__init__.pyi" not in fs:
                return True
    return False


def no_nested_base(cfg: dict[str, Any]) -> bool:
    if not cfg["epb"]:
        return True
    t = cfg["tgt"]
    return not any(b != t and (b + "/").startswith(t + "/") for b in list(cfg["mp"]) + [cfg["cwd"]])


def observe_real(files: list[str], cfg: dict[str, Any], probes: list[str] | None = None,
                 a_order: list[str] | None = None) -> dict[str, Any]:
    """Everything ModuleMap.tla's Observe computes, from the real code."""
    from mypy.find_sources import SourceFinder
    from mypy.fscache import FileSystemCache

    materialise(files)
    cwd = _abs(cfg["cwd"])
    os.chdir(cwd)
    opts = mkopts(cfg)
    T = cfg["tgt"]
    out: dict[str, Any] = {}
    D, fscD = listing([_abs(T)], opts, cwd)
    below = [f for f in (a_order or sorted(files)) if f.startswith(T + "/")]
    A, fscA = listing([_abs(f) for f in below], opts, cwd)
    out["D"], out["A"] = D, A
    dD = len({m for m, _, _ in D}) == len(D)
    dA = len({m for m, _, _ in A}) == len(A)
    out["dupD"], out["dupA"] = not dD, not dA
    bases = distinct_bases(D)
    out["bases"] = bases
    Dset = {(m, p) for m, p, _ in D}
    Aset = {(m, p) for m, p, _ in A}
    nonest = no_nested_base(cfg)
    whole = T == "r"
    flags: list[tuple[str, Any]] = []
    # ---- names an import could mention (the model's probe set is recomputed here independently)
    rootset = set(cfg["mp"]) | {cfg["cwd"]} | set(bases) | set(distinct_bases(A))
    myprobes: set[str] = set()
    for R in rootset:
        pre = R + "/" if R else ""
        for f in files:
            if f.startswith(pre):
                parts = f[len(pre):].split("/")
                stem = parts[-1].rsplit(".", 1)[0]
                parts = parts[:-1] + ([] if stem == "__init__" else [stem])
                for k in range(1, len(parts) + 1):
                    myprobes.add(".".join(parts[:k]))
    out["probes"] = sorted(myprobes)
    names = sorted(myprobes) if probes is None else probes
    # ---- the files of the directory listing, individually, in every order of their base dirs
    finds: dict[tuple[int, ...], dict[str, str]] = {}
    res_nat: dict[str, str] | None = None
    for pi in perms(len(bases)):
        order = [p for k in pi for _, p, b in D if b == bases[k - 1]]
        Fl, fsc = listing([_abs(p) for p in order], opts, cwd)
        if {(m, p) for m, p, _ in Fl} != Dset:
            flags.append(("b1", {"order": order, "files_listing": Fl, "dir_listing": D}))
        fmc = finder_for(Fl, opts, fsc)
        fm = {x: fstr(fmc.find_module(x)) for x in names}
        for m, _, _ in D:
            if m not in fm and m != "__main__":
                fm[m] = fstr(fmc.find_module(m))
        finds[pi] = fm
        if dD:
            res = seeded(D, fm)
            if res_nat is None:
                res_nat = res
            elif res != res_nat:
                diff = {x: [res_nat.get(x), res.get(x)] for x in res if res.get(x) != res_nat.get(x)}
                flags.append(("b1", {"order": order, "resolution_differs": diff}))
            if nonest and whole:
                for m, p, _ in D:
                    if m != "__main__" and fm[m] not in (p, stub_sibling(p)):
                        flags.append(("rtf", {"order": order, "module": m, "named": p, "found": fm[m]}))
    out["finds"] = finds
    # ---- every file named individually
    if dA and nonest:
        if Aset != Dset:
            flags.append(("b2", {"only_files": sorted(Aset - Dset), "only_dir": sorted(Dset - Aset)}))
        if whole:
            basesA = distinct_bases(A)
            for pi in perms(len(basesA)):
                order = [(m, p, b) for k in pi for m, p, b in A if b == basesA[k - 1]]
                fmc = finder_for(order, opts, fscA)
                for m, p, _ in A:
                    if m != "__main__":
                        got = fstr(fmc.find_module(m))
                        if got != p:
                            flags.append(("fic", {"order": [p for _, p, _ in order], "module": m, "named": p, "found": got}))
    # ---- -p
    sf = SourceFinder(FileSystemCache(), opts)
    pkg, base = sf.crawl_up_dir(_abs(T))
    pf = pkg_finder(opts)
    findsP = {x: fstr(pf.find_module(x)) for x in names}
    out["findsP"] = findsP
    roots = [_rel(os.path.abspath(x)) for x in pf.search_paths.mypy_path + pf.search_paths.python_path]
    cmp_ = False
    if dD and pkg and _rel(base) in roots and nonest:
        top = pf.find_module(pkg, fast_path=True)
        cmp_ = top in (_abs(T), os.path.join(_abs(T), "__init__.py"), os.path.join(_abs(T), "__init__.pyi"))
    out["cmp"], out["pkg"] = cmp_, (pkg if cmp_ or pkg else "")
    P: list[tuple[str, str]] = []
    full = False
    if cmp_:
        P = sorted({(s.module, fstr(s.path)) for s in pf.find_modules_recursive(pkg)})
        Pf = {(m, p) for m, p in P if not p.endswith("/")}
        Dp = {(m, p) for m, p in Dset if m == pkg or m.startswith(pkg + ".")}
        full = Dp == Dset
        if Pf != Dp:
            flags.append(("b3", {"pkg": pkg, "only_p": sorted(Pf - Dp), "only_dir": sorted(Dp - Pf)}))
        elif full and res_nat is not None:
            resP = seeded(sorted(Pf), findsP)
            cmpn = {x: res_nat[x] for x in resP if x in res_nat}
            if {x: resP[x] for x in cmpn} != cmpn:
                diff = {x: [cmpn[x], resP[x]] for x in cmpn if cmpn[x] != resP[x]}
                flags.append(("b3", {"pkg": pkg, "resolution_differs": diff}))
    out["P"], out["full"] = P, full
    out["nonest"] = nonest
    out["shadow"] = shadow_witness(files)
    out["flags"] = flags
    return out


def compare_world(x: dict[str, Any]) -> dict[str, Any]:
    """Replay one TLC-emitted world: binding (model vs real) and property (on real results)."""
    cfg = {k: x[k] for k in ("ns", "epb", "cwd", "mp", "tgt")}
    files = sorted(x["tree"])
    a_order = [p for _, p, _ in x["A"]]
    probes = sorted(k for k, _ in x["findsP"])
    try:
        real = observe_real(files, cfg, probes, a_order)
    except Exception as e:   # the real code raised on a tree the specification gives a meaning to
        import traceback
        return {"cfg": cfg, "files": files, "drift": ["real code raised %s: %s" % (type(e).__name__, traceback.format_exc()[-700:])],
                "flags": [], "shadow": x["shadow"], "dupD": x["dupD"], "cmp": x["cmp"], "full": x["full"], "nb": len(x["bases"]),
                "nontrivial": False}
    drift: list[str] = []

    def cmp(name: str, model: Any, got: Any) -> None:
        if model != got:
            drift.append("%s: model %s real %s" % (name, json.dumps(model)[:400], json.dumps(got)[:400]))

    cmp("D", [list(t) for t in x["D"]], [list(t) for t in real["D"]])
    cmp("A", [list(t) for t in x["A"]], [list(t) for t in real["A"]])
    cmp("dupD", x["dupD"], real["dupD"])
    cmp("dupA", x["dupA"], real["dupA"])
    cmp("bases", x["bases"], real["bases"])
    cmp("probes", probes, real["probes"])
    for ent in x["finds"]:
        pi = tuple(ent["pi"])
        mm = {k: v for k, v in ent["m"]}
        rm = real["finds"].get(pi)
        if rm is None:
            drift.append("finds: no real order %r" % (pi,))
        else:
            rm = {k: rm[k] for k in mm}
            cmp("find%r" % (pi,), mm, rm)
    if len(x["finds"]) != len(real["finds"]):
        drift.append("finds: %d model orders, %d real" % (len(x["finds"]), len(real["finds"])))
    cmp("findsP", {k: v for k, v in x["findsP"]}, real["findsP"])
    cmp("cmp", x["cmp"], real["cmp"])
    if x["cmp"] and real["cmp"]:
        cmp("pkg", x["pkg"], real["pkg"])
        cmp("P", sorted([list(t) for t in x["P"]]), sorted([list(t) for t in real["P"]]))
        cmp("full", x["full"], real["full"])
    cmp("nonest", x["nonest"], real["nonest"])
    cmp("shadow", x["shadow"], real["shadow"])
    kinds = {k for k, _ in real["flags"]}
    for k in ("rtf", "fic", "b1", "b2", "b3"):
        if x["v"][k] != (k not in kinds):
            drift.append("verdict %s: model %s real %s" % (k, x["v"][k], k not in kinds))
    return {"cfg": cfg, "files": files, "drift": drift, "flags": real["flags"], "shadow": real["shadow"],
            "dupD": real["dupD"], "cmp": real["cmp"], "full": real["full"], "nb": len(real["bases"]),
            "nontrivial": bool(len(real["bases"]) > 1 or real["cmp"] or real["dupD"] or len(x["finds"]) > 1
                               or any(p.endswith(".pyi") for p in files))}


# --------------------------------------------------------------------------- minimisation / keys
BASE_CFG = {"ns": False, "epb": False, "cwd": "r", "mp": [], "tgt": "r"}


def has_flag(files: list[str], cfg: dict[str, Any], kind: str, culprit: str | None) -> bool:
    if cfg["epb"] and not cfg["ns"]:
        return False
    if not any(f.startswith(cfg["tgt"] + "/") for f in files):
        return False
    if cfg["cwd"] not in ("", "r") and not any(f.startswith(cfg["cwd"] + "/") for f in files):
        return False
    try:
        real = observe_real(files, cfg)
    except Exception:
        return False
    for k, d in real["flags"]:
        if k != kind:
            continue
        if culprit is None or culprit in json.dumps(d):
            return True
    return False


def culprits_of(kind: str, d: dict[str, Any]) -> list[str]:
    if kind in ("b2", "b3"):
        return sorted({p for key in ("only_files", "only_dir", "only_p") for _, p in d.get(key, [])}
                      | {v for pair in d.get("resolution_differs", {}).values() for v in pair
                         if v and v not in ("-", "<dir>")})
    if kind in ("rtf", "fic"):
        return [d["named"]]
    return sorted({v for pair in d.get("resolution_differs", {}).values() for v in pair if v and v not in ("-", "<dir>")})


def canonical(files: list[str], culprit: str | None) -> tuple[list[str], str | None]:
    """Rename directory names / stems by order of first appearance (culprit first).  Files inside the
    directory that has the culprit's own name are rendered as `<dir>/*` (what they are called does
    not matter for a module file shadowed by that directory)."""
    shadow_dir = None
    if culprit:
        stem = culprit.rsplit(".", 1)[0]
        if any(f.startswith(stem + "/") for f in files):
            shadow_dir = stem + "/"
    order = ([culprit] if culprit else []) + sorted(f for f in files if f != culprit)
    ren: dict[str, str] = {"r": "r", "__init__": "__init__"}
    letters = iter("abcdefghij")

    def rn(path: str) -> str:
        if shadow_dir and path.startswith(shadow_dir):
            init = path[len(shadow_dir):] in ("__init__.py", "__init__.pyi")
            return rn(shadow_dir[:-1] + ".py")[:-3] + ("/__init__" if init else "/*")
        parts = path.split("/")
        stem, ext = parts[-1].rsplit(".", 1)
        outp = []
        for c in parts[:-1] + [stem]:
            if c not in ren:
                ren[c] = next(letters)
            outp.append(ren[c])
        return "/".join(outp) + "." + ext

    mapped = {f: rn(f) for f in order}
    return sorted({mapped[f] for f in files}), (mapped[culprit] if culprit else None)


_MEMO: dict[Any, bool] = {}


def has_flag_m(files: list[str], cfg: dict[str, Any], kind: str, culprit: str | None) -> bool:
    k = (tuple(files), json.dumps(cfg, sort_keys=True), kind, culprit)
    if k not in _MEMO:
        if len(_MEMO) > 200000:
            _MEMO.clear()
        _MEMO[k] = has_flag(files, cfg, kind, culprit)
    return _MEMO[k]


_MINI: dict[Any, tuple[str, dict[str, Any]]] = {}


def minimise(files: list[str], cfg: dict[str, Any], kind: str, culprit: str | None) -> tuple[str, dict[str, Any]]:
    mk = (tuple(files), json.dumps(cfg, sort_keys=True), kind, culprit)
    if mk in _MINI:
        return _MINI[mk]
    files = list(files)
    cfg = dict(cfg)

    def shrink_cfg() -> None:
        nonlocal cfg
        for k in ("epb", "ns", "mp", "cwd", "tgt"):
            if cfg[k] != BASE_CFG[k]:
                trial_cfg = dict(cfg, **{k: BASE_CFG[k]})
                if has_flag_m(files, trial_cfg, kind, culprit):
                    cfg = trial_cfg

    shrink_cfg()
    changed = True
    while changed:
        changed = False
        for f in sorted(files, reverse=True):
            if f == culprit:
                continue
            trial = [g for g in files if g != f]
            if trial and has_flag_m(trial, cfg, kind, culprit):
                files = trial
                changed = True
    shrink_cfg()
    cf, cc = canonical(files, culprit)
    delta = ",".join("%s=%s" % (k, json.dumps(cfg[k])) for k in ("ns", "epb", "cwd", "mp", "tgt") if cfg[k] != BASE_CFG[k])
    key = "%s|%s|culprit=%s|%s" % (kind, " ".join(cf), cc, delta or "default")
    _MINI[mk] = (key, {"files": files, "cfg": cfg, "kind": kind, "culprit": culprit})
    return _MINI[mk]


def replay_chunk(worlds: list[dict[str, Any]]) -> dict[str, Any]:
    res: dict[str, Any] = {"n": 0, "drift": [], "viol": {}, "exempt": {}, "stats": {}, "sample": None, "errors": []}
    st = res["stats"]
    for x in worlds:
        try:
            r = compare_world(x)
        except Exception as e:  # machinery problem, reported by the parent
            import traceback
            res["errors"].append("%s on %s: %s" % (type(e).__name__, json.dumps({k: x[k] for k in ("tree", "ns", "epb", "cwd", "mp", "tgt")}), traceback.format_exc()[-1500:]))
            continue
        res["n"] += 1
        for k in ("shadow", "dupD", "cmp", "full", "nontrivial"):
            st[k] = st.get(k, 0) + (1 if r[k] else 0)
        st["orders"] = st.get("orders", 0) + len(x["finds"])
        st["finds"] = st.get("finds", 0) + sum(len(e["m"]) for e in x["finds"]) + len(x["findsP"])
        if r["drift"] and len(res["drift"]) < 20:
            res["drift"].append({"world": {k: x[k] for k in ("tree", "ns", "epb", "cwd", "mp", "tgt")}, "drift": r["drift"][:6], "emitted": x})
        st["drift"] = st.get("drift", 0) + (1 if r["drift"] else 0)
        seen_here: set[tuple[str, str | None]] = set()
        for kind, d in r["flags"]:
            # b2 is the reproducible face of the shadowed-module defect and is judged everywhere;
            # the other statements are judged outside that layout (ModuleMap.tla: ...ModuloShadow)
            if kind != "b2" and r["shadow"]:
                res["exempt"][kind] = res["exempt"].get(kind, 0) + 1
                continue
            for c in culprits_of(kind, d) or [None]:
                if (kind, c) in seen_here:
                    continue
                seen_here.add((kind, c))
                if _G["unknown_minimised"] >= 12:
                    # many new violations already (a broken tree): stop spending time on minimisation
                    key, rep = "%s|not minimised" % kind, {"files": r["files"], "cfg": r["cfg"], "kind": kind, "culprit": c}
                else:
                    key, rep = minimise(r["files"], r["cfg"], kind, c)
                    if key not in _G["known"] and key not in res["viol"]:
                        _G["unknown_minimised"] += 1
                ent = res["viol"].setdefault(key, {"n": 0, "replay": rep, "first": {"files": r["files"], "cfg": r["cfg"], "detail": d}})
                ent["n"] += 1
        if res["sample"] is None and r["nb"] > 1 and r["cmp"]:
            res["sample"] = {k: x[k] for k in ("tree", "ns", "epb", "cwd", "mp", "tgt", "D", "P", "pkg")}
    return res


# =========================================================================== end-to-end confirmation
def program_for(files: list[str], D: list[tuple[str, str, str]], with_imports: bool = True) -> dict[str, str]:
    """Contents: every file defines a class named after its own path.  Every named .py file imports
    named modules (as many as possible without creating an import cycle -- the order in which mypy
    processes a cycle legitimately depends on the order of the sources) and reveals which file it
    got, and contains one error of its own."""
    def cls(p: str) -> str:
        return "C_" + p.replace("/", "_").replace(".", "_")
    mods = sorted(((m, p) for m, p, _ in D if m != "__main__"), key=lambda t: t[1])
    modfile = {m: p for m, p in mods}
    deps: dict[str, set[str]] = {p: set() for _, p in mods}

    def ancestors(m: str) -> list[str]:
        parts = m.split(".")
        return [modfile[".".join(parts[:k])] for k in range(1, len(parts)) if ".".join(parts[:k]) in modfile]

    for m, p in mods:
        deps[p].update(a for a in ancestors(m) if a != p)

    def reaches(a: str, b: str) -> bool:
        seen, todo = set(), [a]
        while todo:
            x = todo.pop()
            if x == b:
                return True
            if x not in seen:
                seen.add(x)
                todo += deps.get(x, ())
        return False

    imports: dict[str, list[str]] = {p: [] for _, p in mods}
    for i, (m, p) in enumerate(mods):
        if not p.endswith(".py"):
            continue
        for m2, p2 in (mods[:i] if with_imports else []):
            targets = {p2} | set(ancestors(m2))
            if p in targets or any(reaches(t, p) for t in targets):
                continue
            deps[p] |= targets
            imports[p].append(m2)
    cont: dict[str, str] = {}
    for f in files:
        c = cls(f)
        if f.endswith(".pyi"):
            body = "class %s: ...\nTAG: %s\n" % (c, c)
        else:
            body = "class %s: pass\nTAG = %s()\n" % (c, c)
        if f in imports and f.endswith(".py"):
            for m2 in imports[f]:
                body += "import %s\nreveal_type(%s.TAG)\n" % (m2, m2)
            body += "TAG.nope\n"
        elif f in imports:
            body += "BAD: %s = 0\n" % c
        cont[f] = body
    return cont


def norm_lines(lines: list[str], cwd: str) -> list[str]:
    out = []
    for ln in lines:
        head, sep, rest = ln.partition(":")
        if sep and (head.endswith(".py") or head.endswith(".pyi")):
            ln = _rel(os.path.normpath(os.path.join(cwd, head))) + ":" + rest
        if "Duplicate module named" in ln:
            return ["<duplicate module error>"]
        if ln.startswith("Found ") or ln.startswith("Success") or "See https://" in ln or "Common resolutions" in ln \
                or ln.strip().startswith(("a) ", "b) ", "c) ")) or not ln.strip():
            continue
        out.append(ln)
    return sorted(set(out))


def build_inprocess(args: list[str], cfg: dict[str, Any]) -> tuple[list[str], dict[str, str] | None]:
    """main.process_options + build.build, as `mypy <args>` would do; returns messages and graph paths."""
    import io

    from mypy import build
    from mypy.errors import CompileError
    from mypy.fscache import FileSystemCache
    from mypy.main import process_options

    cwd = os.getcwd()
    flags = ["--config-file", _G["ini"], "--no-site-packages", "--no-incremental", "--no-error-summary",
             "--namespace-packages" if cfg["ns"] else "--no-namespace-packages"]
    if cfg["epb"]:
        flags.append("--explicit-package-bases")
    fsc = FileSystemCache()
    try:
        targets, options = process_options(flags + args, stdout=io.StringIO(), stderr=io.StringIO(), fscache=fsc)
    except SystemExit as e:
        return ["<process_options exit %s>" % e.code], None
    options.mypy_path = [_abs(m) for m in cfg["mp"]]
    options.use_builtins_fixtures = True   # A-fixtures: lib-stub builtins (18 ms builds); the CLI sample uses typeshed
    try:
        res = build.build(targets, options, fscache=fsc)
    except CompileError as e:
        return norm_lines(e.messages, cwd), None
    graph = {m: _rel(os.path.abspath(st.path)) for m, st in res.graph.items() if st.path and st.abspath.startswith(_G["w"])}
    return norm_lines(res.errors, cwd), graph


def e2e_inprocess(job: dict[str, Any]) -> dict[str, Any]:
    """DIR vs FILES (two orders) vs -p through main.process_options + build.build."""
    cfg, files = job["cfg"], sorted(job["files"])
    materialise(files)
    cwd = _abs(cfg["cwd"])
    os.chdir(cwd)
    real = observe_real(files, cfg)
    D = real["D"]
    cont = program_for(files, D)
    materialise(files, cont)
    os.chdir(cwd)
    T = cfg["tgt"]
    out: dict[str, Any] = {"cfg": cfg, "files": files, "problems": [], "dup": real["dupD"], "cmp": real["cmp"] and real["full"]}
    if cfg["mp"]:
        os.environ["MYPYPATH"] = os.pathsep.join(_abs(m) for m in cfg["mp"])
    else:
        os.environ.pop("MYPYPATH", None)
    try:
        cfg_nomp = dict(cfg, mp=[])   # mypy_path comes from the environment variable here
        dir_msgs, dir_graph = build_inprocess([os.path.relpath(_abs(T), cwd)], cfg_nomp)
        out["dir"] = dir_msgs
        if real["dupD"]:
            if dir_msgs != ["<duplicate module error>"]:
                out["problems"].append(("dup", "two named files share a module but the build did not stop with the duplicate-module error: %r" % dir_msgs))
            return out
        if dir_graph is None:
            out["problems"].append(("build", "directory build failed: %r" % dir_msgs))
            return out
        for m, p, _ in D:
            if dir_graph.get(m) != p:
                out["problems"].append(("rt", "module %s of named file %s is bound to %s in the build" % (m, p, dir_graph.get(m))))
        named = [p for _, p, _ in D]
        for label, order in (("files", named), ("files-reversed", list(reversed(named)))):
            msgs, graph = build_inprocess([os.path.relpath(_abs(p), cwd) for p in order], cfg_nomp)
            out[label] = msgs
            if msgs != dir_msgs:
                out["problems"].append(("b1", "%s: diagnostics differ from the directory run: %r vs %r" % (label, msgs, dir_msgs)))
        if real["cmp"] and real["full"] and not real["shadow"]:
            msgs, graph = build_inprocess(["-p", real["pkg"]], cfg_nomp)
            out["pkg"] = msgs
            if msgs != dir_msgs:
                out["problems"].append(("b3", "-p %s: diagnostics differ from the directory run: %r vs %r" % (real["pkg"], msgs, dir_msgs)))
        out["reveals"] = sum(1 for ln in dir_msgs if "Revealed type" in ln)
    finally:
        os.environ.pop("MYPYPATH", None)
    return out


def e2e_cli(job: dict[str, Any]) -> dict[str, Any]:
    """The same through the real command line (subprocess, real typeshed)."""
    cfg, files = job["cfg"], sorted(job["files"])
    materialise(files)
    cwd = _abs(cfg["cwd"])
    os.chdir(cwd)
    real = observe_real(files, cfg)
    D = real["D"]
    # (for a known finding every file gets its own diagnostic, so that a file that is not checked shows)
    # and no file imports another, so that a file is checked only if the listing names it)
    if job.get("expect_differs"):
        materialise(files, program_for(files, real["A"], with_imports=False))
    else:
        materialise(files, program_for(files, D))
    os.chdir(cwd)
    T = cfg["tgt"]
    base = [PY, "-m", "mypy", "--config-file", _G["ini"], "--no-site-packages", "--no-incremental",
            "--namespace-packages" if cfg["ns"] else "--no-namespace-packages"]
    if cfg["epb"]:
        base.append("--explicit-package-bases")
    extra = {"MYPYPATH": os.pathsep.join(_abs(m) for m in cfg["mp"])} if cfg["mp"] else None

    def run(args: list[str]) -> tuple[int, list[str]]:
        p = subprocess.run(base + args, cwd=cwd, env=repo_env(extra), capture_output=True, text=True, timeout=300)
        return p.returncode, norm_lines((p.stdout + p.stderr).splitlines(), cwd)

    out: dict[str, Any] = {"cfg": cfg, "files": files, "problems": [], "runs": 0, "expect_differs": job.get("expect_differs", False)}
    rc, dir_msgs = run([os.path.relpath(_abs(T), cwd)])
    out["runs"] += 1
    out["dir"] = dir_msgs
    if job.get("expect_differs"):
        below = [f for f in files if f.startswith(T + "/")]
        rc2, msgs = run([os.path.relpath(_abs(p), cwd) for p in below])
        out["runs"] += 1
        out["files_all"] = msgs
        out["differs"] = msgs != dir_msgs
        return out
    if real["dupD"]:
        if dir_msgs != ["<duplicate module error>"] or rc == 0:
            out["problems"].append(("dup", "no duplicate-module error: %r" % dir_msgs))
        return out
    named = [p for _, p, _ in D]
    for label, order in (("files", named), ("files-reversed", list(reversed(named)))):
        rc2, msgs = run([os.path.relpath(_abs(p), cwd) for p in order])
        out["runs"] += 1
        if msgs != dir_msgs or rc2 != rc:
            out["problems"].append(("b1", "%s: output differs from `mypy DIR`: %r vs %r" % (label, msgs, dir_msgs)))
    if real["cmp"] and real["full"] and not real["shadow"]:
        rc2, msgs = run(["-p", real["pkg"]])
        out["runs"] += 1
        out["pkg"] = real["pkg"]
        if msgs != dir_msgs or rc2 != rc:
            out["problems"].append(("b3", "-p %s: output differs from `mypy DIR`: %r vs %r" % (real["pkg"], msgs, dir_msgs)))
    return out


def run_jobs(fn_name: str, jobs: list[dict[str, Any]]) -> list[dict[str, Any]]:
    fn = globals()[fn_name]
    out = []
    for j in jobs:
        try:
            out.append(fn(j))
        except subprocess.TimeoutExpired:
            raise
        except Exception as e:
            import traceback
            out.append({"cfg": j["cfg"], "files": sorted(j["files"]), "runs": 0, "dup": False,
                        "problems": [("crash", "%s: %s" % (type(e).__name__, traceback.format_exc()[-800:]))]})
    return out


# =========================================================================== main
QUICK_GEN = ["Gen_ModuleMap_%s4.cfg" % u for u in "ABCD"]
THOROUGH_GEN = ["Gen_ModuleMap_%s_%s.cfg" % (u, s) for u in "ABCD" for s in ("off", "on", "epb")]


def main(argv: list[str]) -> int:
    tier, seed, replay = parse_args(argv)
    v = Verdict(PID, tier, seed)
    rnd = random.Random(seed)
    # tens of thousands of small trees are created and removed: use tmpfs when it is there
    if not os.environ.get("VERIF_SCRATCH") and os.path.isdir("/dev/shm") and os.access("/dev/shm", os.W_OK):
        os.environ["VERIF_SCRATCH"] = "/dev/shm"
    root = scratch("c18-")
    sany(os.path.join(SPEC, "MC_ModuleMap.tla"))

    if replay:
        return replay_one(v, root, replay)

    gens = QUICK_GEN if tier == "quick" else THOROUGH_GEN
    per = max(2, NWORK // 5)
    cov: dict[str, Any] = {}
    states = transitions = 0
    n_in = 400 if tier == "quick" else 4000
    n_cli = 13 if tier == "quick" else 160

    # ---- 1. TLC: exhaustive check of the invariants + emission of every world (one run does both);
    #         the coverage run, the specification-level mutant and the candidate-repair run alongside.
    # ---- 2. every emitted world is replayed into the real code as soon as its TLC run has finished
    def run_tlc(job: tuple[str, bool]) -> Any:
        cfg, with_cov = job
        return cfg, tlc("MC_ModuleMap", cfg, workers=per, coverage=with_cov, timeout=3600 if tier == "quick" else 6 * 3600, heap="6g")

    side = [("MC_ModuleMap_A2.cfg", True), ("Mut_ModuleMap_AsIs_NoExemption.cfg", False), ("Rep_ModuleMap_InitOnly.cfg", False)]
    agg: dict[str, Any] = {"n": 0, "drift": [], "viol": {}, "exempt": {}, "stats": {}, "errors": []}
    samples: list[Any] = []
    n_worlds = 0
    model_violation = False
    cands: list[str] = []     # candidate worlds for the end-to-end step
    t_all = time.time()
    ctx = multiprocessing.get_context("forkserver")
    with ProcessPoolExecutor(NWORK, mp_context=ctx, initializer=_init_worker, initargs=(root, sorted(v.known))) as pool:
        pending: list[Any] = []

        def absorb(res: dict[str, Any]) -> None:
            agg["n"] += res["n"]
            agg["drift"] += res["drift"]
            agg["errors"] += res["errors"]
            for k, n in res["exempt"].items():
                agg["exempt"][k] = agg["exempt"].get(k, 0) + n
            for k, n in res["stats"].items():
                agg["stats"][k] = agg["stats"].get(k, 0) + n
            for key, ent2 in res["viol"].items():
                a = agg["viol"].setdefault(key, ent2)
                if a is not ent2:
                    a["n"] += ent2["n"]
            if res["sample"] is not None and len(samples) < 3:
                samples.append(res["sample"])

        def submit(chunk: list[dict[str, Any]]) -> None:
            # bounded number of outstanding chunks (the worlds of a thorough run do not fit in memory twice)
            while len(pending) >= 6 * NWORK:
                absorb(pending.pop(0).result())
            pending.append(pool.submit(replay_chunk, chunk))

        with ThreadPoolExecutor(7 if tier == "quick" else 5) as ex:
            futs = [ex.submit(run_tlc, j) for j in [(g, False) for g in gens] + side]
            for fut in as_completed(futs):
                cfg, r = fut.result()
                if r.error:
                    raise MachineryError("TLC %s: %s\n%s" % (cfg, r.error, r.out[-1500:]))
                if cfg.startswith("Mut_"):
                    if r.violated != "DirVersusFiles":
                        raise MachineryError("specification of the pinned rule not rejected by DirVersusFiles: %s" % r.violated)
                    cov["spec_mutants_rejected"] = {"pinned find_sources_in_dir rule without the shadow exemption": r.violated}
                    continue
                if r.violated:
                    v.violation("model:%s:%s" % (cfg, r.violated), {"cfg": cfg, "trace": r.trace_text[-6000:]},
                                "specification invariant %s violated in %s" % (r.violated, cfg))
                    model_violation = True
                    continue
                states += r.distinct
                transitions += r.generated
                ent: dict[str, Any] = {"states": r.distinct, "transitions": r.generated, "wall_s": round(r.wall, 1)}
                if cfg.startswith("MC_"):
                    ent.update(coverage_summary(r))
                    if r.never_fired():
                        raise MachineryError("actions never fired in %s: %s" % (cfg, r.never_fired()))
                if cfg.startswith("Gen_"):
                    ws = r.json_lines("WORLD")
                    r.out = ""
                    r.printed = []
                    ent["worlds_emitted"] = len(ws)
                    if not ws:
                        raise MachineryError("no worlds emitted by " + cfg)
                    n_worlds += len(ws)
                    # worlds of the same tree stay together (the tree is materialised once); the seed permutes the trees
                    by_tree: dict[str, list[dict[str, Any]]] = {}
                    for x in ws:
                        by_tree.setdefault(" ".join(sorted(x["tree"])), []).append(x)
                        if not x["shadow"] and x["nonest"] and ((x["cmp"] and x["full"] and len(x["D"]) >= 2) or x["dupD"] or len(x["bases"]) >= 2):
                            kind = "d" if x["dupD"] else ("p" if x["cmp"] and x["full"] else "b")
                            cands.append(kind + json.dumps({"cfg": {k: x[k] for k in ("ns", "epb", "cwd", "mp", "tgt")},
                                                            "files": sorted(x["tree"])}, sort_keys=True))
                    del ws
                    tree_keys = sorted(by_tree)
                    random.Random("%d:%s" % (seed, cfg)).shuffle(tree_keys)
                    cur: list[dict[str, Any]] = []
                    for tk in tree_keys:
                        cur += by_tree[tk]
                        if len(cur) >= 150:
                            submit(cur)
                            cur = []
                    if cur:
                        submit(cur)
                    del by_tree
                cov[cfg] = ent
        t_tlc = time.time() - t_all
        if n_worlds < 1000 and not model_violation:
            raise MachineryError("too few worlds emitted: %d" % n_worlds)
        while pending:
            absorb(pending.pop(0).result())
        t_rep = time.time() - t_all - t_tlc
        if agg["errors"]:
            raise MachineryError("replay raised: " + agg["errors"][0])
        if agg["n"] != n_worlds:
            raise MachineryError("replay incomplete: %d of %d worlds" % (agg["n"], n_worlds))

        # binding failures: the real code departs from the transcribed rule
        agg["drift"].sort(key=lambda d: (len(d["world"]["tree"]), json.dumps(d["world"], sort_keys=True)))
        for dft in agg["drift"][:10]:
            wkey = json.dumps(dft["world"], sort_keys=True)
            v.violation("conformance:" + wkey, dft, "real code departs from ModuleMap.tla: " + "; ".join(dft["drift"])[:800])
        # property failures on the real results
        for key, ent2 in sorted(agg["viol"].items()):
            v.violation(key, ent2, "%s fails on real results (%d worlds); minimal input %s under %s; first seen: %s"
                        % (key.split("|")[0], ent2["n"], ent2["replay"]["files"], ent2["replay"]["cfg"], json.dumps(ent2["first"])[:600]))

        # ---- 3. end-to-end confirmation on samples (in-process builds, then the real command line)
        cands.sort()
        rnd.shuffle(cands)
        strata: dict[str, list[str]] = {"d": [], "p": [], "b": []}
        for c in cands:
            strata[c[0]].append(c[1:])
        take = {"d": n_in // 5, "p": n_in // 2, "b": n_in - n_in // 5 - n_in // 2}
        jobs = [json.loads(c) for k in ("p", "b", "d") for c in strata[k][:take[k]]]
        rnd.shuffle(jobs)
        t_e2e = time.time()
        e2e: list[dict[str, Any]] = []
        for outl in pool.map(run_jobs, ["e2e_inprocess"] * NWORK, [jobs[i::NWORK] for i in range(NWORK)]):
            e2e += outl
        # known findings are confirmed through the command line as well: DIR and FILES must differ
        known_jobs = [dict(ent2["replay"], expect_differs=True) for key, ent2 in sorted(agg["viol"].items()) if key in v.known]
        cli_jobs = jobs[:n_cli] + known_jobs
        cli: list[dict[str, Any]] = []
        for outl in pool.map(run_jobs, ["e2e_cli"] * NWORK, [cli_jobs[i::NWORK] for i in range(NWORK)]):
            cli += outl
        t_e2e = time.time() - t_e2e

    if len(e2e) != len(jobs) or len(cli) != len(cli_jobs):
        raise MachineryError("end-to-end step incomplete")
    if not any(o.get("reveals") for o in e2e) and not v.violations:
        raise MachineryError("end-to-end programs produced no reveal_type output: vacuous")
    for o in e2e + cli:
        for kind, what in o["problems"]:
            key = "e2e:%s|%s|%s" % (kind, " ".join(o["files"]), json.dumps(o["cfg"], sort_keys=True))
            v.violation(key, {"kind": "e2e", "files": o["files"], "cfg": o["cfg"]}, what[:900])
    unconfirmed = [o for o in cli if o.get("expect_differs") and not o.get("differs")]
    for o in unconfirmed:
        v.notes.append("known finding not observable through the command line: %s %s" % (o["files"], o["cfg"]))

    st = agg["stats"]
    coverage = {
        "states": states, "transitions": transitions,
        "traces_validated_against_impl": agg["n"],
        "evaluations": agg["n"] + len(e2e) + len(cli),
        "distinct_nontrivial": st.get("nontrivial", 0),
        "rule": "every world TLC generates for the tier's configurations (all trees of <= %d files over four 12-path "
                "universes x 3 option settings x 3 working directories x 2 mypy_path settings x 2 target directories) is "
                "materialised and replayed (file orders: every order of up to 4 base directories, 2n rotations beyond); non-trivial = more than one base directory, or a stub file, or a duplicate "
                "module, or a comparable -p package" % (4 if tier == "quick" else 8),
        "exhaustive": True,
        "worlds_replayed": agg["n"],
        "search_orders_replayed": st.get("orders", 0),
        "find_module_results_compared": st.get("finds", 0),
        "worlds_with_model_drift": st.get("drift", 0),
        "worlds_with_duplicate_modules": st.get("dupD", 0),
        "worlds_with_comparable_package": st.get("cmp", 0),
        "worlds_with_shadowed_module_layout": st.get("shadow", 0),
        "statements_not_judged_in_shadowed_layout": agg["exempt"],
        "property_failures_on_real_results": {k: e["n"] for k, e in sorted(agg["viol"].items())},
        "e2e_candidate_worlds": len(cands),
        "e2e_inprocess_builds_compared": len(e2e),
        "e2e_inprocess_with_duplicate_error": sum(1 for o in e2e if o["dup"]),
        "e2e_inprocess_with_package_run": sum(1 for o in e2e if "pkg" in o),
        "e2e_cli_worlds": len(cli), "e2e_cli_runs": sum(o["runs"] for o in cli),
        "known_findings_confirmed_by_cli": sum(1 for o in cli if o.get("expect_differs") and o.get("differs")),
        "samples": samples[:2] + [{"e2e_cli": {k: o.get(k) for k in ("files", "cfg", "dir", "pkg")}} for o in cli[:1]],
        "tlc": cov,
        "timing_s": {"tlc": round(t_tlc, 1), "replay": round(t_rep, 1), "e2e": round(t_e2e, 1)},
    }
    return v.finish("model_checking", coverage, [
        "names are valid identifiers; no -stubs directories, py.typed / site-packages, --package-root, --exclude; case-sensitive file system",
        "A-no-nested-bases: with --explicit-package-bases no base (cwd, mypy_path) lies strictly inside the checked directory "
        "(find_modules_recursive documents that it does not handle nested roots)",
        "round trip at the find_module level is stated for a directory checked as a whole; files outside the checked "
        "directory may legitimately shadow it on the search path (named sources win in load_graph)",
        "-p is compared on the modules inside the package the crawler assigns to the directory, searched from cwd / mypy_path",
        "in the shadowed-module layout only DirVersusFiles is judged (the other statements fail there for the same reason)",
        "which directory stands for a namespace package is not part of the compared resolution",
    ])


def replay_one(v: Verdict, root: str, path: str) -> int:
    with open(path) as f:
        data = json.load(f)
    rep = data["replay"].get("replay", data["replay"])
    _init_worker(root)
    if rep.get("kind") == "e2e":
        o = e2e_cli({"cfg": rep["cfg"], "files": rep["files"]})
        print(json.dumps(o, indent=1))
        for kind, what in o["problems"]:
            v.violation(data["key"], rep, what)
    elif "emitted" in rep:
        r = compare_world(rep["emitted"])
        print(json.dumps({"world": rep["world"], "drift": r["drift"]}, indent=1))
        if r["drift"]:
            v.violation(data["key"], rep, "reproduced: " + "; ".join(r["drift"])[:800])
    elif "files" in rep:
        real = observe_real(sorted(rep["files"]), rep["cfg"])
        print(json.dumps({"files": rep["files"], "cfg": rep["cfg"], "D": real["D"], "A": real["A"], "P": real["P"],
                          "flags": real["flags"]}, indent=1))
        if any(k == rep.get("kind") for k, _ in real["flags"]):
            v.violation(data["key"], rep, "reproduced: %s" % real["flags"])
    else:
        print(json.dumps(rep, indent=1)[:3000])
    os.chdir(root)
    return 1 if v.violations or v.known_hit else 0


if __name__ == "__main__":
    try:
        sys.exit(main(sys.argv[1:]))
    except MachineryError as e:
        print("MACHINERY FAILURE:", e, file=sys.stderr)
        sys.exit(2)
    except Exception:  # an unexpected failure of the machinery is never a verdict about mypy
        import traceback
        traceback.print_exc()
        print("MACHINERY FAILURE: unexpected failure of the machinery", file=sys.stderr)
        sys.exit(2)
