"""C10 — results are deterministic and independent of irrelevant context.

Specification: spec/Context.tla defines the context space (hash seed x order of the file arguments x
sequences of unrelated builds run earlier in the same interpreter) and the non-interference statement;
TLC enumerates and emits every configuration.  Each is executed on the real code (in-process builds
in an interpreter started with that PYTHONHASHSEED; prior builds and the measured build share one
interpreter) and compared with the baseline configuration of the same world: diagnostics byte for
byte (as a set across file orders, as the property says), cache records byte for byte (same order).
"""
from __future__ import annotations

import json
import os

os.environ["VERIF_NO_ROUNDTRIP"] = "1"  # the record round-trip binding (world._hook_roundtrip) belongs to C02
import random
import subprocess
import sys
from concurrent.futures import ThreadPoolExecutor
from typing import Any

from harness.common import MachineryError, PY, SPEC, VERIF, Verdict, coverage_summary, parse_args, repo_env, sany, scratch, tlc

PID = "C10"


def main(argv: list[str]) -> int:
    tier, seed, replay = parse_args(argv)
    v = Verdict(PID, tier, seed)
    rnd = random.Random(seed)
    sany(os.path.join(SPEC, "MC_Context.tla"))
    r = tlc("MC_Context", "MC_Context.cfg", workers=1)
    if not r.ok:
        raise MachineryError("TLC Context: %s %s" % (r.violated, r.error))
    cfgs = r.json_lines("CFG")
    if len(cfgs) < 1000:
        raise MachineryError("too few configurations emitted")
    ident = [1, 2, 3]
    # the typeshed world is slow: all seeds without prior builds, and a few prior builds for two seeds; never other file orders
    slow = {"lists"}
    def slow_ok(c: Any) -> bool:
        if c["world"] not in slow:
            return True
        if c["order"] != ident:
            return False
        if not c["prior"]:
            return True
        return c["seed"] in (0, 7) and len(c["prior"]) == 1 and (c["prior"][0]["world"], c["prior"][0]["opts"]) in (("chain", "same"), ("errors", "py310"), ("rich", "win311loose"))
    cfgs = [c for c in cfgs if slow_ok(c)]
    if tier == "quick":
        core = [c for c in cfgs if (c["order"] == ident and not c["prior"])                        # all seeds
                or (c["seed"] in (0, 42) and not c["prior"])                                       # all orders
                or (c["seed"] in (0, 7) and c["order"] == ident and len(c["prior"]) == 1)]         # every single prior build
        keys = {json.dumps(c, sort_keys=True) for c in core}
        rest = [c for c in cfgs if c["order"] == ident and len(c["prior"]) == 2 and json.dumps(c, sort_keys=True) not in keys]
        rest2 = [c for c in cfgs if c["order"] != ident and c["prior"]]
        rnd.shuffle(rest); rnd.shuffle(rest2)
        chosen = core + rest[:160] + rest2[:40]
    else:
        # every configuration with the identity order or without prior builds; a seeded sample of the rest
        core = [c for c in cfgs if c["order"] == ident or not c["prior"]]
        rest = [c for c in cfgs if not (c["order"] == ident or not c["prior"])]
        rnd.shuffle(rest)
        chosen = core + rest[:3000]
    for i, c in enumerate(chosen):
        c["fmt"] = "ff" if c["seed"] % 2 == 0 or tier == "quick" and False else ("json" if c["seed"] % 2 else "ff")
    by_seed: dict[int, list[Any]] = {}
    for c in chosen:
        by_seed.setdefault(c["seed"], []).append(c)
    d = scratch("c10-")
    jobs = []
    for s, lst in by_seed.items():
        # split big seeds in two to use the cores
        k = 2 if len(lst) > 40 else 1
        for j in range(k):
            part = lst[j::k]
            inp, outp = os.path.join(d, "in-%d-%d.json" % (s, j)), os.path.join(d, "out-%d-%d.json" % (s, j))
            json.dump(part, open(inp, "w"))
            jobs.append((s, inp, outp))

    def run(job: Any) -> Any:
        s, inp, outp = job
        env = repo_env({"PYTHONHASHSEED": str(s), "PYTHONPATH": VERIF + os.pathsep + os.environ.get("VERIF_REPO", "/repo"), "VERIF_SCRATCH": d})
        p = subprocess.run([PY, "-m", "harness.c10_runner", inp, outp], env=env, cwd=VERIF, capture_output=True, text=True, timeout=3000)
        if p.returncode != 0 or not os.path.exists(outp):
            raise MachineryError("runner failed: " + p.stderr[-1500:])
        return json.load(open(outp))

    results: list[Any] = []
    with ThreadPoolExecutor(16) as ex:
        for part in ex.map(run, jobs):
            results += part
    # ---- compare with the baseline of the same world (seed 0, identity order, no prior builds)
    base: dict[tuple[str, str], Any] = {}
    for x in results:
        c = x["cfg"]
        if c["seed"] == 0 and c["order"] == ident and not c["prior"]:
            base[(c["world"] + "/" + c.get("mopts", "default"), c["fmt"])] = x["res"]
    base_any = {w: res for (w, f), res in base.items()}
    n_cmp = 0
    nontrivial = 0
    for x in results:
        c, res = x["cfg"], x["res"]
        wkey = c["world"] + "/" + c.get("mopts", "default")
        key_cfg = {"world": wkey, "order": c["order"], "prior": c["prior"], "seed": c["seed"]}
        if "crash" in res:
            v.violation("crash:" + json.dumps(key_cfg, sort_keys=True), x, "internal error: " + res["crash"][-500:])
            continue
        b = base.get((wkey, c["fmt"])) or base_any[wkey]
        n_cmp += 1
        if res["messages"]:
            nontrivial += 1
        what = None
        if c["order"] == ident:
            if res["messages"] != b["messages"] or res["status"] != b["status"]:
                what = "diagnostics differ from the baseline context: %r vs %r" % (res["messages"][:4], b["messages"][:4])
            elif (wkey, c["fmt"]) in base and res["cache"] != b["cache"]:
                diff = sorted(k for k in set(res["records"]) | set(b["records"]) if res["records"].get(k) != b["records"].get(k))
                what = "cache records differ from the baseline context: " + ", ".join(diff[:8])
        else:
            if sorted(res["messages"]) != sorted(b["messages"]) or res["status"] != b["status"]:
                what = "set of diagnostics depends on the order of the file arguments: %r vs %r" % (sorted(res["messages"])[:4], sorted(b["messages"])[:4])
        if what is None and (sorted(res["warm_messages"]) != sorted(res["messages"]) or res["warm_status"] != res["status"]):
            what = "warm run in the same interpreter prints differently: %r vs %r" % (res["warm_messages"][:4], res["messages"][:4])
        if what is None and c["order"] == ident and res["warm_messages"] != b["warm_messages"]:
            what = "warm run (all modules fresh, diagnostics replayed) prints in a different order than in the baseline context: %r vs %r" % (
                res["warm_messages"][:6], b["warm_messages"][:6])
        if what:
            dim = "seed" if c["seed"] != 0 and c["order"] == ident and not c["prior"] else ("order" if c["order"] != ident else "prior")
            key = "nondet:%s:%s:%s" % (dim, c["world"] if wkey.endswith("/default") else wkey, json.dumps(c["order"] if dim == "order" else (c["prior"] if dim == "prior" else c["seed"])))
            if dim == "order":
                # which diagnostics differ (positions stripped) is part of the key: a listed finding never hides another difference
                import hashlib, re as _re
                diff = sorted({_re.sub(r"^[^:]+:\d+: ", "", m) for m in set(res["messages"]) ^ set(b["messages"])})
                key += ":" + hashlib.sha256(json.dumps(diff).encode()).hexdigest()[:8]
            v.violation(key, x, what)
    # ---- the repository's check cases under different hash seeds: messages (text AND order) of the cold and of the warm build
    from harness import corpus as C
    from harness.common import REPO
    ccases = []
    for fn in C.reload_files():
        for c in C.parse_cases(os.path.join(REPO, "test-data", "unit", fn)):
            c["file"] = fn
            ccases.append(c)
    ccases = ccases[:: (10 if tier == "quick" else 2)]
    for i, c in enumerate(ccases):
        c["idx"] = i
    cseeds = [0, 7] if tier == "quick" else [0, 7, 12345]
    chunks = [ccases[i::16] for i in range(16)]
    cjobs = []
    for sd in cseeds:
        for j, ch in enumerate(chunks):
            inp, outp = os.path.join(d, "cin-%d-%d.json" % (sd, j)), os.path.join(d, "cout-%d-%d.json" % (sd, j))
            json.dump(ch, open(inp, "w"))
            cjobs.append((sd, inp, outp))

    def crun(job: Any) -> Any:
        sd, inp, outp = job
        env = repo_env({"PYTHONHASHSEED": str(sd), "PYTHONPATH": VERIF + os.pathsep + os.environ.get("VERIF_REPO", "/repo"), "VERIF_SCRATCH": d})
        p = subprocess.run([PY, "-m", "harness.c10_runner", "--corpus", inp, outp], env=env, cwd=VERIF, capture_output=True, text=True, timeout=3000)
        if p.returncode != 0 or not os.path.exists(outp):
            raise MachineryError("corpus runner failed: " + p.stderr[-1500:])
        return sd, json.load(open(outp))

    by_case: dict[tuple[str, str], dict[int, Any]] = {}
    for sd0 in cseeds:          # one seed after the other: the scratch paths are shared between seeds
        with ThreadPoolExecutor(16) as ex:
            for sd, part in ex.map(crun, [j for j in cjobs if j[0] == sd0]):
                for cr in part:
                    if not cr.get("skipped"):
                        by_case.setdefault((cr["file"], cr["name"]), {})[sd] = cr
    n_corpus = 0
    for (fn, name), per in sorted(by_case.items()):
        if 0 not in per:
            continue
        for sd, cr in per.items():
            if sd == 0:
                continue
            n_corpus += 1
            if cr.get("records") != per[0].get("records"):
                a, b = cr.get("records") or {}, per[0].get("records") or {}
                diff = sorted(k for k in set(a) | set(b) if a.get(k) != b.get(k))
                v.violation("nondet:corpus-records:%s::%s" % (fn, name), {"file": fn, "case": name, "seeds": [0, sd], "records": diff[:20]},
                            "%s %s: cache records written under PYTHONHASHSEED=%d differ from those written under 0: %s" % (fn, name, sd, ", ".join(diff[:6])))
                continue
            for phase in ("cold", "warm"):
                if cr[phase][:2] != per[0][phase][:2]:
                    v.violation("nondet:corpus:%s::%s:%s" % (fn, name, phase), {"file": fn, "case": name, "seeds": [0, sd], "phase": phase, "a": per[0][phase], "b": cr[phase]},
                                "%s %s: the %s build prints differently under PYTHONHASHSEED=%d than under 0: %r vs %r" % (
                                    fn, name, phase, sd, cr[phase][1][:4], per[0][phase][1][:4]))
                    break
    if n_cmp == 0 or n_corpus == 0:
        raise MachineryError("conformance step did not run")
    coverage = {
        "evaluations": len(results) + n_corpus, "distinct_nontrivial": nontrivial, "corpus_cases_compared_across_hash_seeds": n_corpus,
        "states": r.distinct, "transitions": r.generated, "configurations_emitted_by_tlc": len(cfgs),
        "rule": "configurations = hash seed (8) x permutation of the 3 file arguments (6) x sequence of <=2 unrelated prior builds (world x options: same / "
                "python 3.10 / win32 + 3.11 + loose) in the same interpreter (241) x world (5, incl. an import cycle with diagnostics in every module and misspelt "
                "stdlib imports), emitted by TLC from Context.tla; quick: all seeds, all orders for 2 seeds, every single prior build for 2 seeds + a seeded sample "
                "of two-build sequences; thorough: every configuration with the identity order or without prior builds + 3000 sampled; each executed for real "
                "(cold build + warm build in the same interpreter) and compared with the baseline context; non-trivial = configuration whose build prints diagnostics",
        "samples": [{"cfg": results[0]["cfg"], "messages": results[0]["res"].get("messages", [])[:5], "cache_digest": results[0]["res"].get("cache")}],
        "tlc": coverage_summary(r), "exhaustive": tier == "thorough",
    }
    return v.finish("exploration", coverage, [
        "in-process builds with test fixtures under a logical clock (cache records carry logical mtimes, so they are compared byte for byte)",
        "cache records are compared only between configurations with the same order of file arguments (the property claims order-independence for the set of diagnostics only)",
    ])


if __name__ == "__main__":
    try:
        sys.exit(main(sys.argv[1:]))
    except MachineryError as e:
        print("MACHINERY FAILURE:", e, file=sys.stderr)
        sys.exit(2)
    except Exception:  # an unexpected failure of the machinery is never a verdict about mypy
        import traceback
        traceback.print_exc()
        print("MACHINERY FAILURE: unexpected failure of the machinery", file=sys.stderr)
        sys.exit(2)
