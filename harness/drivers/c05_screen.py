"""Compile screening for C05 (run as a child with PYTHONPATH = the tree under test).

C05's premise is "programs that mypy accepts and mypyc compiles".  This script decides, for every
generated unit (a top-level function, or a group of classes + functions), whether the working
tree's mypyc front end + middle end + C generator accept it: the modules are type-checked ONCE
with the real mypyc configuration (real typeshed), then the pipeline
(emitmodule.compile_modules_to_ir + compile_ir_to_c, the two halves of compile_modules_to_c) is run
on the module trees restricted to a set of units (plus the definitions no unit owns):
  mode "group": all units together; units named by reported errors / by the line of an internal
                error are rejected and the rest retried; an unattributable failure is bisected;
  mode "each":  one run per unit (for sets in which most units are rejected).
Output (stdout, last line): SCREEN <json {module: {unit: ["ok"] | ["error", [msgs]] | ["crash", text]}}>.
The real build of the accepted units afterwards goes through mypyc.build.mypycify itself.

usage: c05_screen.py <dir> <units.json> <modules screened unit by unit, comma separated>
       units.json = {module: {top-level name: unit id}}
"""
from __future__ import annotations

import contextlib
import io
import json
import os
import re
import sys
import traceback
from typing import Any


def main() -> None:
    d, units_path = sys.argv[1], sys.argv[2]
    each_mods = set(sys.argv[3].split(",")) if len(sys.argv) > 3 else set()
    with open(units_path) as f:
        units: dict[str, dict[str, str]] = json.load(f)
    os.chdir(d)
    from mypy.errors import CompileError
    from mypy.fscache import FileSystemCache
    from mypy.nodes import ClassDef, Decorator, FuncDef, OverloadedFuncDef
    from mypyc.build import construct_groups, get_mypy_config
    from mypyc.codegen import emitmodule
    from mypyc.errors import Errors
    from mypyc.options import CompilerOptions

    names = sorted(n[:-3] for n in os.listdir(d) if n.endswith(".py") and n != "setup.py")
    copts = CompilerOptions(target_dir=os.path.join(d, "cgen"))
    fscache = FileSystemCache()
    mypyc_sources, all_sources, options = get_mypy_config([n + ".py" for n in names], None, copts, fscache)
    groups = construct_groups(mypyc_sources, False, True, None)
    try:
        result = emitmodule.parse_and_typecheck(all_sources, options, copts, groups, fscache)
    except CompileError as e:
        print("SCREEN " + json.dumps({"__fatal__": e.messages[:50]}))
        return
    if result.errors:
        print("SCREEN " + json.dumps({"__type_errors__": result.errors[:200]}))
        return

    def name_of(dnode: object) -> str | None:
        if isinstance(dnode, (FuncDef, ClassDef, OverloadedFuncDef)):
            return dnode.name
        if isinstance(dnode, Decorator):
            return dnode.func.name
        return None

    all_defs = {m: list(result.files[m].defs) for m in units}
    unit_of: dict[str, dict[int, str]] = {m: {} for m in units}      # id(def node) -> unit
    spans: dict[str, list[tuple[int, int, str]]] = {m: [] for m in units}
    for m, umap in units.items():
        for x in all_defs[m]:
            n = name_of(x)
            if n in umap:
                unit_of[m][id(x)] = umap[n]
                lo = x.line
                if isinstance(x, Decorator):
                    lo = min([x.line] + [dd.line for dd in x.decorators])
                    hi = x.func.end_line or x.line
                else:
                    hi = getattr(x, "end_line", None) or x.line
                spans[m].append((lo, hi, umap[n]))

    def unit_at(m: str, line: int) -> str | None:
        for lo, hi, u in spans.get(m, []):
            if lo <= line <= hi:
                return u
        return None

    def attempt(active: set[tuple[str, str]]) -> tuple[Any, ...]:
        for m in units:
            result.files[m].defs = [x for x in all_defs[m]
                                    if id(x) not in unit_of[m] or (m, unit_of[m][id(x)]) in active]
        errors = Errors(options)
        buf = io.StringIO()
        try:
            with contextlib.redirect_stdout(buf):
                mapper = emitmodule.Mapper({s.module: lib for g, lib in groups for s in g})
                result.manager.errors.set_file("<mypyc>", module=None, scope=None, options=result.manager.options)
                modules = emitmodule.compile_modules_to_ir(result, mapper, copts, errors)
                if errors.num_errors == 0:
                    emitmodule.compile_ir_to_c(groups, modules, result, mapper, copts)
            if errors.num_errors:
                found = []
                for msg in errors.new_messages():
                    mm = re.match(r"^(\w+)\.py:(\d+): error: (.*)$", msg)
                    if mm:
                        found.append((mm.group(1), int(mm.group(2)), mm.group(3)))
                return ("errors", found)
            return ("ok",)
        except SystemExit:
            lines = [l for l in buf.getvalue().splitlines() if l.strip()]
            txt = next((l for l in reversed(lines) if "note: this is an internal" not in l), "?")
            txt = re.sub(r"( object)? at 0x[0-9a-f]+", "", txt)
            mm = re.match(r"^(\w+)\.py:(\d+): (.*)$", txt)
            if mm:
                return ("crash", mm.group(1), int(mm.group(2)), mm.group(3))
            return ("crash", None, None, txt)
        except Exception as e:  # noqa: BLE001 - code generation failures are plain exceptions
            rawtb = sys.exc_info()[2]
            tb = traceback.extract_tb(rawtb)
            where = "%s:%s" % (os.path.basename(tb[-1].filename), tb[-1].name) if tb else "?"
            msg = re.sub(r"( object)? at 0x[0-9a-f]+", "", "%s: %s" % (type(e).__name__, e))
            # the function being emitted is a local `fn` (FuncIR) of some frame of the traceback
            fmod, fline = None, None
            while rawtb is not None:
                fn = rawtb.tb_frame.f_locals.get("fn")
                decl = getattr(fn, "decl", None)
                if decl is not None and isinstance(getattr(fn, "line", None), int) and fn.line > 0:
                    fmod, fline = getattr(decl, "module_name", None), fn.line
                rawtb = rawtb.tb_next
            return ("crash", fmod, fline, "%s in %s" % (msg, where))
        finally:
            for m in units:
                result.files[m].defs = all_defs[m]

    out: dict[str, dict[str, list[object]]] = {m: {} for m in units}
    every = sorted({(m, u) for m, umap in units.items() for u in umap.values()})

    import time
    stats = {"attempts": 0, "time": 0.0}

    def solve(cands: list[tuple[str, str]]) -> None:
        while cands:
            t0 = time.time()
            r = attempt(set(cands))
            stats["attempts"] += 1
            stats["time"] += time.time() - t0
            if os.environ.get("C05_SCREEN_DEBUG"):
                sys.stderr.write("attempt %d units -> %r  %.1fs\n" % (len(cands), r[:1] + r[1:][:3] if r[0] != "errors" else ("errors", len(r[1])), time.time() - t0))
            if r[0] == "ok":
                for m, u in cands:
                    out[m][u] = ["ok"]
                return
            bad: dict[tuple[str, str], list[Any]] = {}
            if r[0] == "errors":
                for m, line, msg in r[1]:
                    u = unit_at(m, line)
                    if u is not None and (m, u) in set(cands):
                        bad.setdefault((m, u), ["error", []])[1].append(msg)
            elif r[1] is not None:
                u = unit_at(r[1], r[2])
                if u is not None and (r[1], u) in set(cands):
                    bad[(r[1], u)] = ["crash", r[3]]
            if bad:
                for (m, u), verdict in bad.items():
                    out[m][u] = verdict
                cands = [c for c in cands if c not in bad]
                continue
            if len(cands) == 1:
                m, u = cands[0]
                out[m][u] = ["crash", r[3]] if r[0] == "crash" else ["error", [x[2] for x in r[1]]]
                return
            h = len(cands) // 2
            solve(cands[:h])
            solve(cands[h:])
            return

    for c in every:
        if c[0] in each_mods:
            solve([c])
    rest = [c for c in every if c[0] not in each_mods]
    # a pass costs time proportional to the number of active units and every rejected unit
    # costs one more pass: work through the units in chunks
    chunk = int(os.environ.get("C05_SCREEN_CHUNK", "250"))
    for i in range(0, len(rest), chunk):
        solve(rest[i:i + chunk])
    out["__stats__"] = stats  # type: ignore[assignment]
    print("SCREEN " + json.dumps(out))


if __name__ == "__main__":
    main()
