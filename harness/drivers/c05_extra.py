"""C05, mechanisms (4) and (5): rendering of the cases TLC emits from spec/Slots.tla (special-method
slot contracts) and spec/IterMut.tla (iteration over containers the loop body mutates) as typed
Python that mypyc compiles, the calls made into it, and the outcome the specification predicts in the
runner's vocabulary.  Used by harness/drivers/c05.py (same oracle / binding as the other mechanisms).
"""
from __future__ import annotations

from typing import Any

# helpers the interpreted runner needs (statements cannot be written as an expression)
PRELUDE = '''\
def set0(o):
    o[0] = 7
    return o.log


def del0(o):
    del o[0]
    return o.log


def iadd(a, b):
    a += b
    return a


def im_call(f, c):
    seen = []
    try:
        r = str(f(c, seen))
    except RuntimeError as e:
        r = "RuntimeError:" + str(e)
    return r + " " + str(seen) + " " + str(sorted(c) if isinstance(c, set) else c)
'''

# =========================================================================== Slots
SL_VALUE = {"m1": "-1", "m2": "-2", "0": "0", "1": "1", "2": "2", "hbig": "4", "hnbig": "-5",
            "True": "True", "False": "False", "s0=7": "'s0=7'", "d0": "'d0'"}
SL_LITERAL = {"m1": "-1", "m2": "-2", "0": "0", "1": "1", "big": "2 ** 63", "nbig": "-(2 ** 63) - 1"}
CMP_RET = {"T": "True", "F": "False", "NI": "NotImplemented"}


def sl_want(e: dict[str, str]) -> list[str]:
    if e["k"] == "exc":
        return ["exc", e["v"]]
    v = e["v"]
    if v in SL_VALUE:
        return ["ret", SL_VALUE[v]]
    return ["ret", repr(v)]          # 'A.add' etc.


def sl_shapes(rows: list[dict[str, Any]]) -> list[dict[str, Any]]:
    """Group the emitted cases by class shape."""
    by: dict[str, dict[str, Any]] = {}
    for r in rows:
        key = r["fam"] + ":" + ",".join(r["v"])
        s = by.setdefault(key, dict(fam=r["fam"], f=r["f"], v=r["v"], key=key, cases=[]))
        s["cases"].append((r["op"], r["e"]))
    for s in by.values():
        s["cases"].sort()
    return [by[k] for k in sorted(by)]


def sl_show(shape: dict[str, Any]) -> str:
    return "%s{%s}" % (shape["fam"], ", ".join("%s=%s" % (a, b) for a, b in zip(shape["f"], shape["v"]) if b != "none"))


def _ret_or_raise(v: str, lit: dict[str, str]) -> str:
    return 'raise KeyError("boom")' if v == "raise" else "return " + lit[v]


def sl_unit(u: int, shape: dict[str, Any]) -> tuple[list[str], dict[str, str], list[tuple[str, str, list[str], str, str]]]:
    """Source lines, top-level names -> unit, calls [(id, expression, want, op, caller)].
    caller: i = the operation is performed by interpreted code, t = by compiled code whose operands
    have their class types, a = by compiled code whose operands are typed Any."""
    fam = shape["fam"]
    val = dict(zip(shape["f"], shape["v"]))
    L: list[str] = []
    names: dict[str, str] = {}
    uid = "%s%d" % (fam.lower(), u)
    calls: list[tuple[str, str, list[str], str, str]] = []

    def fn(name: str, sig: str, body: list[str]) -> None:
        L.extend(["def %s%s:" % (name, sig)] + ["    " + b for b in body] + ["", ""])
        names[name] = uid

    def cls(name: str, base: str, body: list[str]) -> None:
        L.extend(["class %s%s:" % (name, "(%s)" % base if base else "")] + ["    " + b for b in (body or ["pass"])] + ["", ""])
        names[name] = uid

    def add(op: str, caller: str, expr: str, e: dict[str, str]) -> None:
        calls.append(("%s:%s/%s" % (uid, op, caller), expr, sl_want(e), op, caller))

    ops = dict(shape["cases"])
    if fam in ("H", "L", "C"):
        K = "%s%d" % (fam, u)
        new = "m.%s()" % K
        body: list[str] = []
        if fam == "H":
            if val["hash"] != "none":
                body += ["def __hash__(self) -> int:", "    " + _ret_or_raise(val["hash"], SL_LITERAL)]
            if val["eq"] != "none":
                body += ["def __eq__(self, other: object) -> bool:", "    return " + CMP_RET[val["eq"]]]
            cls(K, "", body)
            # (op, typed signature, body, interpreted expression, number of operands)
            table = [("hash", "(o: %s) -> int", ["return hash(o)"], "hash(%s)", 1),
                     ("dictget", "(o: %s) -> int", ["d = {o: 1}", "return d[o]"], "(lambda o: {o: 1}[o])(%s)", 1),
                     ("inset", "(o: %s) -> bool", ["s = {o}", "return o in s"], "(lambda o: o in {o})(%s)", 1),
                     ("setlen", "(o: %s, p: %s) -> int", ["s = {o, p}", "return len(s)"], "len({%s, %s})", 2)]
            typed_ok = lambda op: True  # noqa: E731
        elif fam == "L":
            if val["len"] != "none":
                body += ["def __len__(self) -> int:", "    " + _ret_or_raise(val["len"], SL_LITERAL)]
            if val["bool"] != "none":
                body += ["def __bool__(self) -> bool:", "    " + _ret_or_raise(val["bool"], {"T": "True", "F": "False"})]
            cls(K, "", body)
            table = [("len", "(o: %s) -> int", ["return len(o)"], "len(%s)", 1),
                     ("bool", "(o: %s) -> bool", ["return bool(o)"], "bool(%s)", 1),
                     ("not", "(o: %s) -> bool", ["return not o"], "(not %s)", 1),
                     ("cond", "(o: %s) -> int", ["return 1 if o else 2"], "(1 if %s else 2)", 1)]
            typed_ok = lambda op: op != "len" or val["len"] != "none"  # noqa: E731
        else:
            body = ["def __init__(self) -> None:", "    self.log = ''"]
            if val["contains"] != "none":
                body += ["def __contains__(self, x: object) -> bool:",
                         "    " + _ret_or_raise(val["contains"], {"T": "True", "F": "False"})]
            if val["getitem"] == "seq":
                body += ["def __getitem__(self, i: int) -> int:", "    if i < 0 or i > 1:", "        raise IndexError('oob')",
                         "    return 10 * i"]
            elif val["getitem"] == "keyerr":
                body += ["def __getitem__(self, i: int) -> int:", "    raise KeyError(i)"]
            if val["setitem"] == "def":
                body += ["def __setitem__(self, i: int, v: int) -> None:", "    self.log += 's%d=%d' % (i, v)"]
            if val["delitem"] == "def":
                body += ["def __delitem__(self, i: int) -> None:", "    self.log += 'd%d' % i"]
            cls(K, "", body)
            table = [("in10", "(o: %s) -> bool", ["return 10 in o"], "(10 in %s)", 1),
                     ("in5", "(o: %s) -> bool", ["return 5 in o"], "(5 in %s)", 1),
                     ("get0", "(o: %s) -> int", ["return o[0]"], "%s[0]", 1),
                     ("get5", "(o: %s) -> int", ["return o[5]"], "%s[5]", 1),
                     ("set0", "(o: %s) -> str", ["o[0] = 7", "return str(o.log)"], "set0(%s)", 1),
                     ("del0", "(o: %s) -> str", ["del o[0]", "return str(o.log)"], "del0(%s)", 1)]
            need = {"in10": "contains", "in5": "contains", "get0": "getitem", "get5": "getitem", "set0": "setitem",
                    "del0": "delitem"}
            typed_ok = lambda op: val[need[op]] != "none"  # noqa: E731
        for op, sig, fbody, iexpr, nargs in table:
            if op not in ops:
                continue
            args = ", ".join([new] * nargs)
            add(op, "i", iexpr % ((new,) * nargs), ops[op])
            if typed_ok(op):
                fn("%s_t_%s" % (uid, op), sig % ((K,) * nargs), fbody)
                add(op, "t", "m.%s_t_%s(%s)" % (uid, op, args), ops[op])
            asig = sig.replace("%s", "Any")
            asig = asig[:asig.index("->")] + "-> object"
            fn("%s_a_%s" % (uid, op), asig, fbody)
            add(op, "a", "m.%s_a_%s(%s)" % (uid, op, args), ops[op])
        return L, names, calls

    A, B = "%sA%d" % (fam, u), "%sB%d" % (fam, u)
    base = A if val["rel"] == "sub" else ""
    if fam == "R":
        meth = ("__eq__", "__ne__") if val["grp"] == "eq" else ("__lt__", "__gt__")
        sym = ("==", "!=") if val["grp"] == "eq" else ("<", ">")
        for K, pre, b in ((A, "a", ""), (B, "b", base)):
            body = []
            for i in (0, 1):
                v = val[pre + str(i + 1)]
                if v != "none":
                    body += ["def %s(self, other: object) -> bool:" % meth[i], "    return " + CMP_RET[v]]
            cls(K, b, body)
        own = lambda pre, i: val[pre + str(i)] != "none"  # noqa: E731
        for op, (lc, rc, i) in {"ab1": ("a", "b", 1), "ab2": ("a", "b", 2), "ba1": ("b", "a", 1), "ba2": ("b", "a", 2)}.items():
            if op not in ops:
                continue
            lk, rk = (A, B) if lc == "a" else (B, A)
            add(op, "i", "(m.%s() %s m.%s())" % (lk, sym[i - 1], rk), ops[op])
            # mypy accepts == / != always; an ordering needs the method on the left operand's class
            inherited = lc == "b" and val["rel"] == "sub" and own("a", i)
            if val["grp"] == "eq" or own(lc, i) or inherited:
                fn("%s_t_%s" % (uid, op), "(x: %s, y: %s) -> bool" % (lk, rk), ["return x %s y" % sym[i - 1]])
                add(op, "t", "m.%s_t_%s(m.%s(), m.%s())" % (uid, op, lk, rk), ops[op])
            fn("%s_a_%s" % (uid, op), "(x: Any, y: Any) -> object", ["return x %s y" % sym[i - 1]])
            add(op, "a", "m.%s_a_%s(m.%s(), m.%s())" % (uid, op, lk, rk), ops[op])
        return L, names, calls

    # family N
    for K, pre, b in ((A, "a", ""), (B, "b", base)):
        body = []
        for mname in ("add", "radd", "iadd"):
            v = val.get(pre + mname, "none")
            if v != "none":
                ret = "'%s.%s'" % (pre.upper(), mname) if v == "v" else "NotImplemented"
                body += ["def __%s__(self, other: object) -> object:" % mname, "    return " + ret]
        cls(K, b, body)
    has_add = {"a": val["aadd"] != "none", "b": val["badd"] != "none" or (val["rel"] == "sub" and val["aadd"] != "none")}
    for op, (lc, rc) in {"a+b": ("a", "b"), "b+a": ("b", "a")}.items():
        if op not in ops:
            continue
        lk, rk = (A, B) if lc == "a" else (B, A)
        tag = lc + rc
        add(op, "i", "(m.%s() + m.%s())" % (lk, rk), ops[op])
        if has_add[lc]:
            fn("%s_t_%s" % (uid, tag), "(x: %s, y: %s) -> object" % (lk, rk), ["return x + y"])
            add(op, "t", "m.%s_t_%s(m.%s(), m.%s())" % (uid, tag, lk, rk), ops[op])
        fn("%s_a_%s" % (uid, tag), "(x: Any, y: Any) -> object", ["return x + y"])
        add(op, "a", "m.%s_a_%s(m.%s(), m.%s())" % (uid, tag, lk, rk), ops[op])
    if "a+=b" in ops:
        add("a+=b", "i", "iadd(m.%s(), m.%s())" % (A, B), ops["a+=b"])
        fn("%s_a_iadd" % uid, "(x: Any, y: Any) -> object", ["x += y", "return x"])
        add("a+=b", "a", "m.%s_a_iadd(m.%s(), m.%s())" % (uid, A, B), ops["a+=b"])
    return L, names, calls


def sl_module(shapes: list[dict[str, Any]], first: int = 0) -> tuple[str, dict[str, str], list[tuple[str, str, list[str], str, str, int]]]:
    lines = ["from typing import Any", "", ""]
    names: dict[str, str] = {}
    calls: list[tuple[str, str, list[str], str, str, int]] = []
    for i, s in enumerate(shapes):
        l, nm, cs = sl_unit(first + i, s)
        lines += l
        names.update(nm)
        calls += [c + (i,) for c in cs]
    return "\n".join(lines), names, calls


# =========================================================================== IterMut
IM_MSG = {"size": "dictionary changed size during iteration", "keys": "dictionary keys changed during iteration",
          "setsize": "Set changed size during iteration"}
IM_CLASS = {"dkeys": "dict", "dvalues": "dict", "ditems": "dict", "set": "set", "list": "list", "rev": "list",
            "enum": "list", "zip": "list", "tuple": "imm", "str": "imm", "range": "imm"}


def im_show(r: dict[str, Any]) -> str:
    return "%s n=%d when=%d %s%s" % (r["kind"], r["n"], r["when"], r["mut"], " break" if r["brk"] else "")


def im_literal(kind: str, n: int) -> tuple[str, str]:
    """(type annotation, literal) of the container the caller builds."""
    c = IM_CLASS[kind]
    if c == "dict":
        return "dict[int, int]", "{%s}" % ", ".join("%d: %d" % (i, 10 * i) for i in range(n))
    if c == "set":
        return "set[int]", "{%s}" % ", ".join(str(i) for i in range(n)) if n else "set()"
    if c == "list":
        return "list[int]", "[%s]" % ", ".join(str(10 * i) for i in range(n))
    if kind == "tuple":
        return "tuple[int, ...]", "(%s)" % "".join("%d, " % (10 * i) for i in range(n))
    if kind == "str":
        return "str", repr("abc"[:n])
    return "int", str(n)


def im_final(r: dict[str, Any]) -> str:
    """str() of the container after the call, as the specification predicts it."""
    c = IM_CLASS[r["kind"]]
    fin = r["final"]
    if c == "dict":
        return str({k: v for k, v in fin})
    if c == "set":
        return str(sorted(k for k, _ in fin))
    if c == "list":
        return str([v for _, v in fin])
    if r["kind"] == "tuple":
        return str(tuple(10 * i for i in range(r["n"])))
    if r["kind"] == "str":
        return "abc"[:r["n"]]
    return str(r["n"])


def im_expected(r: dict[str, Any]) -> str:
    head = str(r["ret"]) if r["res"] == "ok" else "RuntimeError:" + IM_MSG[r["res"]]
    return head + " " + str(list(r["seen"])) + " " + im_final(r)


def im_unit(u: int, r: dict[str, Any]) -> tuple[list[str], dict[str, str], list[tuple[str, str, list[str], str, str]]]:
    kind, n, when, mut = r["kind"], r["n"], r["when"], r["mut"]
    c = IM_CLASS[kind]
    typ, lit = im_literal(kind, n)
    head, app = {
        "dkeys": ("for k in c:", ["k"]), "dvalues": ("for v in c.values():", ["v"]),
        "ditems": ("for k, v in c.items():", ["k", "v"]), "set": ("for k in c:", ["k"]),
        "list": ("for v in c:", ["v"]), "rev": ("for v in reversed(c):", ["v"]),
        "enum": ("for i, v in enumerate(c):", ["i", "v"]), "zip": ("for v, w in zip(c, o):", ["v", "w"]),
        "tuple": ("for v in c:", ["v"]), "str": ("for ch in c:", ["ord(ch)"]), "range": ("for v in range(c):", ["v"]),
    }[kind]
    idx = n - 1 - when if kind == "rev" else when
    stmts = {
        ("dict", "ins"): ["c[7] = 70"], ("dict", "delcur"): ["del c[%d]" % when], ("dict", "delnext"): ["del c[%d]" % (when + 1)],
        ("dict", "delprev"): ["del c[%d]" % (when - 1)], ("dict", "repl"): ["c[%d] = 99" % when], ("dict", "clear"): ["c.clear()"],
        ("dict", "delins"): ["del c[%d]" % when, "c[7] = 70"],
        ("set", "ins"): ["c.add(7)"], ("set", "delcur"): ["c.remove(%d)" % when], ("set", "delnext"): ["c.remove(%d)" % (when + 1)],
        ("set", "delprev"): ["c.discard(%d)" % (when - 1)], ("set", "clear"): ["c.clear()"],
        ("set", "delins"): ["c.remove(%d)" % when, "c.add(7)"],
        ("list", "append"): ["c.append(70)"], ("list", "delcur"): ["del c[%d]" % idx], ("list", "pop"): ["c.pop()"],
        ("list", "ins0"): ["c.insert(0, 70)"], ("list", "repl"): ["c[%d] = 99" % idx], ("list", "clear"): ["c.clear()"],
        ("imm", "rebind"): {"tuple": ["c = c + (70,)"], "str": ["c = c + 'z'"], "range": ["c = c + 5"]}.get(kind, []),
    }
    body = ["j = 0"]
    if kind == "zip":
        body.append("o = [100, 101, 102, 103]")
    body.append(head)
    body += ["    seen.append(%s)" % a for a in app]
    body.append("    j += 1")
    inner = list(stmts.get((c, mut), [])) + (["break"] if r["brk"] else [])
    if inner:
        body.append("    if j == %d:" % (when + 1))
        body += ["        " + s for s in inner]
    body += ["else:", "    seen.append(1000)", "return j"]
    uid = "i%d" % u
    L = ["def im%d(c: %s, seen: list[int]) -> int:" % (u, typ)] + ["    " + b for b in body] + ["", ""]
    shown = "str(sorted(c))" if c == "set" else "str(c)"
    L += ["def own%d() -> str:" % u, "    c: %s = %s" % (typ, lit), "    seen: list[int] = []", "    try:",
          "        r = str(im%d(c, seen))" % u, "    except RuntimeError as e:", "        r = 'RuntimeError:' + str(e)",
          "    return r + ' ' + str(seen) + ' ' + %s" % shown, "", ""]
    names = {"im%d" % u: uid, "own%d" % u: uid}
    want = ["ret", repr(im_expected(r))]
    calls = [("%s:passed" % uid, "im_call(m.im%d, %s)" % (u, lit), want, "passed", "i"),
             ("%s:own" % uid, "m.own%d()" % u, want, "own", "t")]
    return L, names, calls


def im_module(rows: list[dict[str, Any]], first: int = 0) -> tuple[str, dict[str, str], list[tuple[str, str, list[str], str, str, int]]]:
    lines: list[str] = []
    names: dict[str, str] = {}
    calls: list[tuple[str, str, list[str], str, str, int]] = []
    for i, r in enumerate(rows):
        l, nm, cs = im_unit(first + i, r)
        lines += l
        names.update(nm)
        calls += [c + (i,) for c in cs]
    return "\n".join(lines), names, calls


# =========================================================================== recognising known findings
# The two functions below describe what mypyc-compiled code is KNOWN to do differently from CPython
# (findings.d/C05.json).  They are never used to decide anything: a disagreement whose compiled
# outcome equals the description gets the finding's key, any other disagreement is a violation.
def mypyc_binop_outcome(val: dict[str, str], op: str) -> list[str]:
    """Outcome of a + b / b + a / a += b with mypyc's generated nb_add wrappers
    (codegen/emitwrapper.py generate_bin_op_forward_only_wrapper / _reverse_only_ / _both_wrappers,
    lib-rt CPy_CallReverseOpMethod) under CPython's binary_op1: a class gets a wrapper only for the
    methods it defines itself; a forward method answering NotImplemented makes the wrapper call
    getattr(right, '__radd__') -- which is the SLOT wrapper of the right operand's type, i.e. its
    nb_add again (unbounded recursion when that one bounces back) -- instead of returning
    NotImplemented; a subclass wrapper is asked first without the 'overrides __radd__' test."""
    sub = val["rel"] == "sub"

    class Rec(Exception):
        pass

    class TErr(Exception):
        pass

    NI = ["NI"]

    def own(K: str, m: str) -> str:
        return val.get(("a" if K == "A" else "b") + m, "none")

    def mro(K: str) -> list[str]:
        return ["B", "A"] if (K == "B" and sub) else [K]

    def lookup(K: str, m: str) -> tuple[str | None, str]:
        for c in mro(K):
            if own(c, m) != "none":
                return c, own(c, m)
        return None, "none"

    def slot_owner(K: str) -> str | None:
        for c in mro(K):
            if own(c, "add") != "none" or own(c, "radd") != "none":
                return c
        return None

    def callreverse(left: str, right: str, depth: int) -> list[str]:
        for c in mro(right):
            if own(c, "radd") != "none" or own(c, "add") != "none":
                return call_slot(c, left, right, depth + 1)
        raise TErr()

    def call_slot(owner: str, left: str, right: str, depth: int) -> list[str]:
        if depth > 50:
            raise Rec()
        rev_home, rev = lookup(owner, "radd")
        if own(owner, "add") == "none":                      # reverse-only wrapper
            if owner in mro(right):
                return ["ret", owner + ".radd"] if own(owner, "radd") == "v" else NI
            return NI
        if owner in mro(left) and own(owner, "add") == "v":
            return ["ret", owner + ".add"]
        if rev != "none" and owner in mro(right):            # both: the class's reverse method
            return ["ret", "%s.radd" % rev_home] if rev == "v" else NI
        return callreverse(left, right, depth)

    def binop(v: str, w: str) -> list[str]:
        sv, sw = slot_owner(v), slot_owner(w)
        if sw == sv:
            sw = None
        if sv:
            if sw and w == "B" and v == "A" and sub:
                x = call_slot(sw, v, w, 0)
                if x != NI:
                    return x
                sw = None
            x = call_slot(sv, v, w, 0)
            if x != NI:
                return x
        if sw:
            x = call_slot(sw, v, w, 0)
            if x != NI:
                return x
        raise TErr()

    try:
        if op == "a+b":
            return binop("A", "B")
        if op == "b+a":
            return binop("B", "A")
        if own("A", "iadd") == "v":
            return ["ret", "A.iadd"]
        return binop("A", "B")
    except TErr:
        return ["exc", "TypeError"]
    except Rec:
        return ["exc", "RecursionError"]


def im_known(r: dict[str, Any]) -> dict[str, str]:
    """finding key -> the string compiled code is known to produce for this program."""
    res: dict[str, str] = {}
    if r["res"] == "keys":
        extra = {"dkeys": [7], "dvalues": [70], "ditems": [7, 70]}[r["kind"]]
        res["im:dict-delete-plus-insert-not-noticed"] = "%d %s %s" % (r["ret"] + 1, list(r["seen"]) + extra + [1000], im_final(r))
    if r["kind"] == "range" and r["mut"] == "rebind" and not r["brk"]:
        m = r["n"] + 5
        res["im:range-bound-read-again-each-iteration"] = "%d %s %s" % (m, list(range(m)) + [1000], im_final(r))
    return res
