"""Generated program families for C06's dynamic binding (imported by harness/drivers/c06.py).

* primitive-contract family (module c06prim): one tiny function per registered primitive of
  mypyc/primitives/registry.py that can be reached from a typed source expression (method_call_ops,
  function_ops, binary_ops, unary_ops over dict / list / str / bytes / tuple / int / float / object),
  plus hand-written templates for the primitives only reachable through syntax (displays, slicing,
  iteration, `in`, `del`, set operations, f-strings ...).  Each function is called on a small alphabet
  of inputs per parameter type so that every observable path is taken (hit / miss / default given /
  out of range / negative index / empty container / unhashable key -> exception ...), with TRACKED
  (non-immortal) receivers, arguments and results.  The contracts the IR declares for the primitive
  (new reference / borrowed, steals, error kind) are thereby bound to the C code path by path:
  sys.getrefcount deltas must be 0 after the results are dropped, result / exception must equal CPython's.

* wrapper family (module c06wrap): functions and methods over parameter kinds (positional, default,
  *args, keyword-only, **kwargs) x parameter types, called from INTERPRETED code with good arguments, with
  the k-th argument wrong-typed, and with missing / extra / duplicate / unknown arguments: the generated
  Python-level wrappers (emitwrapper.py: argument parsing, unboxing per type, the `fail:` path) must not
  leak or crash on any of them and must raise TypeError where CPython's binding does.

Each family is (source text, cases); a case is {"name", "fn", "kinds", "call", "typed"} where `call` is
an expression over m (the module), a, b (the tracked objects, see c06_runner.KINDS) evaluated by the
runner for every iteration (so containers are fresh every time).
"""
from __future__ import annotations

import itertools
import re
from typing import Any

# ------------------------------------------------------------------------------------ primitives
SRC_TYPE = {
    "dict": "dict[Any, Any]", "list": "list[Any]", "str": "str", "bytes": "bytes", "int": "int",
    "object": "Any", "tuple": "tuple[Any, ...]", "bool": "bool", "float": "float", "set": "set[Any]",
}
VOID_METHODS = {"append", "clear", "extend", "insert", "remove", "reverse", "sort", "update", "add", "discard"}
SKIP_FUNCTIONS = {"builtins.isinstance", "builtints.isinstance", "builtins.id"}


def alphabet(t: str, kind: str, recv: bool) -> list[str]:
    """Runner expressions of static type t, given that the tracked a, b are of `kind`."""
    hashable = kind in ("inst", "str", "int", "tuple", "smallint", "bytes", "float")
    if t == "dict":
        return (["{a: b}", "{}", "{b: a, a: b}"] if hashable else ["{1: a}", "{}", "{2: b, 1: a}"])
    if t == "list":
        return ["[a, b]", "[]", "[b, a, a]"]
    if t == "set":
        return ["{a}", "set()", "{a, b}"] if hashable else ["set()"]
    if t == "tuple":
        return ["(a, b)", "()", "(b,)"]
    if t == "object":
        return ["a", "b", "None", "[a]"]
    if t == "int":
        return (["a", "b"] if kind in ("int", "smallint") else []) + ["0", "-1", "5", "-9"]
    if t == "str":
        return (["a", "b"] if kind == "str" else ["'c06-x'"]) + ["''", "'c06'", "'-'"]
    if t == "bytes":
        return (["a", "b"] if kind == "bytes" else ["b'c06AA'"]) + ["b''", "b'c06'"]
    if t == "bool":
        return ["True", "False"]
    if t == "float":
        return (["a", "b"] if kind == "float" else []) + ["1.5", "-2.0", "0.0"]
    raise KeyError(t)


def kinds_for(types: list[str]) -> list[str]:
    """Which kinds of tracked objects make sense for a function with these parameter types."""
    if "str" in types:
        return ["str"]
    if "bytes" in types:
        return ["bytes"]
    if "float" in types and "object" not in types and "list" not in types:
        return ["float"]
    if "int" in types and not any(t in types for t in ("object", "list", "dict", "tuple", "set")):
        return ["int", "smallint"]
    # containers / objects: non-immortal values of several types, and an immortal control
    return ["inst", "str", "int", "tuple", "smallint"]


def pick(product: list[tuple[str, ...]], cap: int) -> list[tuple[str, ...]]:
    if len(product) <= cap:
        return product
    step = len(product) / float(cap)
    return [product[int(i * step)] for i in range(cap)]


class Fam:
    def __init__(self, prefix: str) -> None:
        self.prefix = prefix
        self.funcs: list[dict[str, Any]] = []     # {"name", "desc", "lines"}
        self.cases: list[dict[str, Any]] = []
        self.header: list[str] = []

    def add(self, desc: str, params: list[tuple[str, str]], body: list[str], cap: int = 10,
            kinds: list[str] | None = None, inputs: list[tuple[str, ...]] | None = None) -> None:
        """params: [(name, registry type)]; body: lines; inputs: explicit argument tuples (else the
        product of the alphabets of the parameter types)."""
        name = "%s%d" % (self.prefix, len(self.funcs))
        sig = ", ".join("%s: %s" % (n, SRC_TYPE[t]) for n, t in params)
        lines = ["def %s(%s) -> Any:" % (name, sig), "    # " + desc] + ["    " + b for b in body]
        self.funcs.append(dict(name=name, desc=desc, lines=lines))
        types = [t for _, t in params]
        explosive = any(x in desc for x in ("**", "pow(", "<<"))   # a big right operand would not terminate
        for kind in (kinds or kinds_for(types)):
            fixed = inputs
            if explosive and kind == "int":
                if "object" in types:
                    continue
                fixed = [("a", "3"), ("a", "0"), ("b", "-1"), ("5", "70"), ("0", "5")]
            if fixed is not None:
                combos = fixed
            else:
                combos = pick(list(itertools.product(*[alphabet(t, kind, i == 0) for i, t in enumerate(types)])), cap)
            for args in combos:
                self.cases.append(dict(name="%s|%s" % (name, ",".join(args)), fn=name, kinds=[kind],
                                       call="m.%s(%s)" % (name, ", ".join(args)), typed=False, desc=desc))

    def source(self, drop: set[str] = frozenset()) -> str:  # type: ignore[assignment]
        out = list(self.header)
        for f in self.funcs:
            if f["name"] not in drop:
                out += f["lines"] + ["", ""]
        return "\n".join(out) + "\n"

    def live_cases(self, drop: set[str]) -> list[dict[str, Any]]:
        return [c for c in self.cases if c["fn"] not in drop]

    def func_at_line(self, drop: set[str], line: int) -> str | None:
        n = len(self.header)
        for f in self.funcs:
            if f["name"] in drop:
                continue
            if n < line <= n + len(f["lines"]) + 2:
                return f["name"]
            n += len(f["lines"]) + 2
        return None


def primitive_family() -> tuple[Fam, dict[str, Any]]:
    """Enumerate the registry of the tree under test and generate the family."""
    import mypyc.primitives.registry as R

    fam = Fam("p")
    fam.header = ["import math", "from typing import Any", "", ""]
    reg_c: set[str] = set()
    skipped: list[str] = []

    def usable(desc: Any) -> bool:
        return all(str(t) in SRC_TYPE for t in desc.arg_types) and desc.var_arg_type is None

    for mname, descs in sorted(R.method_call_ops.items()):
        for d in descs:
            types = [str(t) for t in d.arg_types]
            tag = "%s.%s(%s)" % (types[0] if types else "?", mname, ",".join(types[1:]))
            if not usable(d) or not types:
                skipped.append(tag)
                continue
            if d.c_function_name:
                reg_c.add(d.c_function_name)
            ps = [("r", types[0])] + [("x%d" % i, t) for i, t in enumerate(types[1:], 1)]
            args = ", ".join(n for n, _ in ps[1:])
            if mname == "__getitem__":
                body = ["return r[%s]" % args]
            elif mname == "__setitem__":
                body = ["r[x1] = x2", "return r"]
            elif mname in VOID_METHODS:
                body = ["r.%s(%s)" % (mname, args), "return r"]
            else:
                body = ["v = r.%s(%s)" % (mname, args), "return [v, r]"]
            fam.add(tag, ps, body)
    for fname, descs in sorted(R.function_ops.items()):
        if fname in SKIP_FUNCTIONS or not fname.startswith(("builtins.", "math.")):
            skipped.append(fname)
            continue
        for d in descs:
            types = [str(t) for t in d.arg_types]
            tag = "%s(%s)" % (fname, ",".join(types))
            if not usable(d):
                skipped.append(tag)
                continue
            if d.c_function_name:
                reg_c.add(d.c_function_name)
            ps = [("x%d" % i, t) for i, t in enumerate(types, 1)]
            callee = fname.split(".", 1)[1] if fname.startswith("builtins.") else fname
            fam.add(tag, ps, ["return %s(%s)" % (callee, ", ".join(n for n, _ in ps))])
    for op, descs in sorted(R.binary_ops.items()):
        for d in descs:
            types = [str(t) for t in d.arg_types]
            tag = "%s %s %s" % (types[0], op, types[1])
            if not usable(d):
                skipped.append(tag)
                continue
            if d.c_function_name:
                reg_c.add(d.c_function_name)
            ps = [("x", types[0]), ("y", types[1])]
            if op.endswith("=") and op not in ("==", "!=", "<=", ">="):
                body = ["x %s y" % op, "return x"]
            else:
                body = ["return x %s y" % op]
            fam.add(tag, ps, body)
    for op, descs in sorted(R.unary_ops.items()):
        for d in descs:
            types = [str(t) for t in d.arg_types]
            if usable(d):
                if d.c_function_name:
                    reg_c.add(d.c_function_name)
                fam.add("%s%s" % (op, types[0]), [("x", types[0])], ["return %sx" % op])

    # primitives only reachable through syntax / not in the four registries (custom ops)
    extra: list[tuple[str, list[tuple[str, str]], list[str]]] = [
        ("dict display", [("x", "object"), ("y", "object")], ["return {x: y, 'k': x}"]),
        ("dict del", [("r", "dict"), ("x", "object")], ["del r[x]", "return r"]),
        ("dict in", [("r", "dict"), ("x", "object")], ["return [x in r, x not in r]"]),
        ("dict iteration", [("r", "dict")], ["out = []", "for k in r:", "    out.append(k)", "return out"]),
        ("dict items iteration", [("r", "dict")], ["out = []", "for k, v in r.items():", "    out.append((k, v))", "return out"]),
        ("dict values iteration", [("r", "dict")], ["return [v for v in r.values()]"]),
        ("dict comprehension", [("r", "list")], ["return {v: [v] for v in r}"]),
        ("dict len / bool", [("r", "dict")], ["return [len(r), bool(r), not r]"]),
        ("dict ** merge", [("r", "dict"), ("x", "dict")], ["return {**r, **x}"]),
        ("dict pop", [("r", "dict"), ("x", "object"), ("y", "object")], ["v = r.pop(x, y)", "return [v, r]"]),
        ("dict pop nodefault", [("r", "dict"), ("x", "object")], ["v = r.pop(x)", "return [v, r]"]),
        ("dict popitem", [("r", "dict")], ["v = r.popitem()", "return [v, r]"]),
        ("dict fromkeys-like", [("r", "list"), ("x", "object")], ["return dict.fromkeys(r, x)"]),
        ("list display", [("x", "object"), ("y", "object")], ["return [x, y, x]"]),
        ("list in", [("r", "list"), ("x", "object")], ["return [x in r, x not in r]"]),
        ("list slice", [("r", "list"), ("x", "int"), ("y", "int")], ["return r[x:y]"]),
        ("list slice set", [("r", "list"), ("x", "int"), ("y", "list")], ["r[x:] = y", "return r"]),
        ("list del", [("r", "list"), ("x", "int")], ["del r[x]", "return r"]),
        ("list iteration", [("r", "list")], ["out = []", "for v in r:", "    out.append(v)", "return out"]),
        ("list reversed / enumerate", [("r", "list")], ["return [list(reversed(r)), [(i, v) for i, v in enumerate(r)]]"]),
        ("list comprehension cond", [("r", "list"), ("x", "object")], ["return [v for v in r if v is not x]"]),
        ("list unpack star", [("r", "list"), ("x", "object")], ["return [x, *r, x]"]),
        ("list len / bool", [("r", "list")], ["return [len(r), bool(r)]"]),
        ("list min/max key", [("r", "list")], ["return sorted(r, key=id) == sorted(r, key=id)"]),
        ("list zip", [("r", "list"), ("x", "list")], ["return [(p, q) for p, q in zip(r, x)]"]),
        ("tuple display boxed", [("x", "object"), ("y", "object")], ["t: Any = (x, y, x)", "return t"]),
        ("tuple index", [("r", "tuple"), ("x", "int")], ["return r[x]"]),
        ("tuple slice", [("r", "tuple"), ("x", "int"), ("y", "int")], ["return r[x:y]"]),
        ("tuple in", [("r", "tuple"), ("x", "object")], ["return x in r"]),
        ("tuple iteration", [("r", "tuple")], ["return [v for v in r]"]),
        ("tuple from list / len", [("r", "list")], ["t = tuple(r)", "return [t, len(t)]"]),
        ("tuple unpack fixed", [("r", "tuple")], ["p, q = r", "return [q, p]"]),
        # d.setdefault(k, <empty display>) is a primitive of its own (specialize.translate_dict_setdefault): the fresh
        # container is made visible to the reference-count oracle by storing a tracked object in it
        ("dict setdefault fresh list", [("r", "dict"), ("x", "object"), ("y", "object")], ["v = r.setdefault(x, [])", "v.append(y)", "return r"]),
        ("dict setdefault fresh dict", [("r", "dict"), ("x", "object"), ("y", "object")], ["v = r.setdefault(x, {})", "v[1] = y", "return r"]),
        ("dict setdefault fresh set", [("r", "dict"), ("x", "object"), ("y", "object")], ["v = r.setdefault(x, set())", "v.add(y)", "return r"]),
        ("set display", [("x", "object"), ("y", "object")], ["return {x, y}"]),
        ("set add", [("r", "set"), ("x", "object")], ["r.add(x)", "return r"]),
        ("set discard", [("r", "set"), ("x", "object")], ["r.discard(x)", "return r"]),
        ("set remove", [("r", "set"), ("x", "object")], ["r.remove(x)", "return r"]),
        ("set pop", [("r", "set")], ["v = r.pop()", "return [v, len(r)]"]),
        ("set in", [("r", "set"), ("x", "object")], ["return [x in r, x not in r]"]),
        ("set update / clear", [("r", "set"), ("x", "list")], ["r.update(x)", "n = len(r)", "r.clear()", "return n"]),
        ("set from list / frozenset", [("r", "list")], ["return [set(r), frozenset(r)]"]),
        ("set comprehension / iteration", [("r", "set")], ["return {(v, 1) for v in r}"]),
        ("set union", [("r", "set"), ("x", "set")], ["return [r | x, r & x, r - x]"]),
        ("str index", [("r", "str"), ("x", "int")], ["return r[x]"]),
        ("str slice", [("r", "str"), ("x", "int"), ("y", "int")], ["return r[x:y]"]),
        ("str format / f-string", [("r", "str"), ("x", "object")], ["return [f'{r}<{x}>', '%s|%s' % (r, x), '{}:{}'.format(r, x)]"]),
        ("str join list", [("r", "str"), ("x", "str")], ["return r.join([x, r, x])"]),
        ("str compare", [("r", "str"), ("x", "str")], ["return [r == x, r != x, r < x]"]),
        ("str iteration / len", [("r", "str")], ["return [len(r), [ch for ch in r][:3]]"]),
        ("str in", [("r", "str"), ("x", "str")], ["return [x in r, x not in r]"]),
        ("str int conversion", [("r", "str")], ["return int(r)"]),
        ("bytes index / slice", [("r", "bytes"), ("x", "int")], ["return [r[x], r[x:], r[:x]]"]),
        ("bytes compare / len", [("r", "bytes"), ("x", "bytes")], ["return [r == x, len(r), r + x]"]),
        ("bytes join", [("r", "bytes"), ("x", "bytes")], ["return r.join([x, x])"]),
        ("int to str / hash / bool", [("x", "int")], ["return [str(x), hash(x), bool(x), float(x)]"]),
        ("int compare", [("x", "int"), ("y", "int")], ["return [x == y, x < y, x >= y, x != y]"]),
        ("int divmod / pow", [("x", "int"), ("y", "int")], ["return [divmod(x, y), x ** 2]"]),
        ("int as index", [("r", "list"), ("x", "int")], ["return r[x]"]),
        ("float arithmetic", [("x", "float"), ("y", "float")], ["return [x + y, x - y, x * y, x / y, -x, x == y, x < y]"]),
        ("float conversions", [("x", "float")], ["return [int(x), str(x), abs(x), bool(x)]"]),
        ("object getattr / setattr", [("x", "object"), ("y", "object")], ["setattr(x, 'n', y)", "return getattr(x, 'n', y)"]),
        ("object getattr default", [("x", "object"), ("y", "object")], ["return getattr(x, 'c06missing', y)"]),
        ("object hasattr / attribute", [("x", "object")], ["return [hasattr(x, 'n'), x.n]"]),
        ("object generic ops", [("x", "object"), ("y", "object")], ["return [x == y, x is y, x != y, hash(x) == hash(x), str(x) == str(x)]"]),
        ("object generic getitem", [("x", "object"), ("y", "object")], ["return x[y]"]),
        ("object generic setitem", [("x", "object"), ("y", "object")], ["x[y] = y", "return x"]),
        ("object generic binary", [("x", "object"), ("y", "object")], ["return [x + y, x * 2]"]),
        ("object generic compare", [("x", "object"), ("y", "object")], ["return [x < y, x >= y]"]),
        ("object generic call", [("x", "object"), ("y", "object")], ["return x(y)"]),
        ("object generic method call", [("x", "object"), ("y", "object")], ["return x.count(y)"]),
        ("object generic iteration", [("x", "object")], ["return [v for v in x]"]),
        ("object generic len / iter / next", [("x", "object")], ["it = iter(x)", "return [len(x), next(it, None)]"]),
        ("object generic in", [("x", "object"), ("y", "object")], ["return y in x"]),
        ("object truth / not", [("x", "object")], ["return [not x, bool(x), x if x else None]"]),
        ("isinstance chain", [("x", "object")], ["return [isinstance(x, str), isinstance(x, int), isinstance(x, (list, tuple)), isinstance(x, dict)]"]),
        ("raise with value", [("x", "object")], ["raise ValueError(x)"]),
        ("assert with message", [("x", "object"), ("y", "object")], ["assert x is y, y", "return x"]),
        ("exception as value", [("x", "object")], ["try:", "    raise KeyError(x)", "except KeyError as e:", "    return [e.args[0], str(type(e).__name__)]"]),
        ("vectorcall kwargs", [("x", "object"), ("y", "object")], ["return dict(p=x, q=y)"]),
        ("call with star args", [("x", "list"), ("y", "dict")], ["return dict(*x[:0], **{str(k): v for k, v in y.items()})"]),
        ("min / max / sum", [("x", "int"), ("y", "int")], ["return [min(x, y), max(x, y), sum([x, y])]"]),
        ("any / all", [("r", "list")], ["return [any(v is None for v in r), all(r)]"]),
        ("print-free repr", [("x", "object")], ["return [repr(x) == repr(x), ascii(x) == ascii(x)]"]),
    ]
    for desc, ps, body in extra:
        fam.add("syntax: " + desc, ps, body)
    info = dict(registry_c_functions=sorted(reg_c), skipped=sorted(set(skipped)))
    return fam, info


# ------------------------------------------------------------------------------------ wrappers
# parameter type -> (annotation, tracked kind of the slot, good value per slot (a|b), wrong values)
WTYPES: dict[str, dict[str, Any]] = {
    "object": dict(ann="object", kind="inst", good="{s}", wrong=[]),
    "int": dict(ann="int", kind="int", good="{s}", wrong=["'x'", "None", "1.5"]),
    "i64": dict(ann="i64", kind="smallint", good="{s}", wrong=["'x'", "None", "1 << 70"]),
    "float": dict(ann="float", kind="float", good="{s}", wrong=["'x'", "None"]),
    "bool": dict(ann="bool", kind="smallint", good="True", wrong=["'x'", "None", "1"]),
    "str": dict(ann="str", kind="str", good="{s}", wrong=["5", "None", "b'x'"]),
    "native": dict(ann="W", kind="inst", good="m.W({s})", wrong=["5", "None", "T(9)"]),
    "optional": dict(ann="Optional[W]", kind="inst", good="m.W({s})", wrong=["5", "'x'"]),
    "tuple": dict(ann="tuple[int, str]", kind="int", good="({s}, 'c06' + str(len('ab')))", wrong=["(1, 2)", "(1,)", "5", "('x', 'y')", "None"]),
    "list": dict(ann="list[int]", kind="int", good="[{s}]", wrong=["5", "None", "({s},)"]),
}
EARLY = ["object", "str", "tuple"]     # type of the argument converted BEFORE the one that fails


def wrapper_family() -> Fam:
    fam = Fam("w")
    fam.header = ["from typing import Any, Optional", "from mypy_extensions import i64", "", "",
                  "class W:", "    def __init__(self, v: object) -> None:", "        self.v = v", "",
                  "    def c06_fields(self) -> object:", "        return [self.v]", "", ""]
    methods: list[str] = []

    def kinds_of(t1: str, t2: str) -> str:
        return WTYPES[t1]["kind"] + "+" + WTYPES[t2]["kind"]

    def val(t: str, slot: str) -> str:
        return WTYPES[t]["good"].format(s=slot)

    def add_cases(name: str, desc: str, recv: str, t1: str, t2: str, shape: str) -> None:
        kind = kinds_of(t1, t2)
        g1, g2 = val(t1, "a"), val(t2, "b")
        calls: list[tuple[str, str, bool]] = []     # (label, argument text, typed)
        if shape == "pos":
            calls += [("good", "%s, %s" % (g1, g2), False), ("good-kw", "%s, y=%s" % (g1, g2), False),
                      ("missing", "%s" % g1, False), ("extra", "%s, %s, a" % (g1, g2), False),
                      ("dup", "%s, %s, x=b" % (g1, g2), False), ("unknown-kw", "%s, %s, zz=a" % (g1, g2), False)]
            calls += [("wrong2:" + w, "%s, %s" % (g1, w.format(s="b")), True) for w in WTYPES[t2]["wrong"]]
            calls += [("wrong1:" + w, "%s, %s" % (w.format(s="a"), g2), True) for w in WTYPES[t1]["wrong"][:1]]
        elif shape == "default":
            calls += [("good", "%s, %s" % (g1, g2), False), ("good-default", g1, False), ("good-kw", "y=%s, x=%s" % (g2, g1), False),
                      ("missing", "", False), ("extra", "%s, %s, a" % (g1, g2), False), ("dup", "%s, x=a" % g1, False)]
            calls += [("wrong2:" + w, "%s, %s" % (g1, w.format(s="b")), True) for w in WTYPES[t2]["wrong"]]
            calls += [("wrong2kw:" + w, "%s, y=%s" % (g1, w.format(s="b")), True) for w in WTYPES[t2]["wrong"][:1]]
        elif shape == "star":     # (x: T2, *args: T1): the wrong x is detected after *args was collected
            calls += [("good", "%s, %s, %s" % (g2, g1, g1), False), ("good-empty", g2, False),
                      ("missing", "", False), ("unknown-kw", "%s, %s, zz=a" % (g2, g1), False), ("dup", "%s, %s, x=b" % (g2, g1), False)]
            calls += [("wrong1:" + w, "%s, %s, %s, a, [a, b]" % (w.format(s="b"), g1, g1), True) for w in WTYPES[t2]["wrong"]]
        elif shape == "kwonly":   # (x: T1, *, k: T2)
            calls += [("good", "%s, k=%s" % (g1, g2), False), ("missing-kw", g1, False), ("positional-kw", "%s, %s" % (g1, g2), False),
                      ("unknown-kw", "%s, k=%s, zz=a" % (g1, g2), False)]
            calls += [("wrongk:" + w, "%s, k=%s" % (g1, w.format(s="b")), True) for w in WTYPES[t2]["wrong"]]
        elif shape == "starstar":  # (x: T2, **kw: T1)
            calls += [("good", "%s, p=%s, q=%s" % (g2, g1, g1), False), ("good-empty", g2, False), ("missing", "p=%s" % g1, False),
                      ("dup", "%s, x=b" % g2, False), ("extra", "%s, %s" % (g2, g1), False)]
            calls += [("wrong1:" + w, "%s, p=%s, q=[a, b]" % (w.format(s="b"), g1), True) for w in WTYPES[t2]["wrong"]]
        elif shape == "all":      # (x: T2, *args: object, k: T2 = ..., **kw: object)
            calls += [("good", "%s, a, b, k=%s, p=a, q=[b]" % (g2, g2), False), ("good-min", g2, False), ("missing", "k=%s" % g2, False),
                      ("dup", "%s, a, x=b" % g2, False)]
            calls += [("wrong1:" + w, "%s, a, [a, b], p=b, q=(a, b)" % w.format(s="b"), True) for w in WTYPES[t2]["wrong"]]
            calls += [("wrongk:" + w, "%s, a, [a, b], k=%s, p=b" % (g2, w.format(s="b")), True) for w in WTYPES[t2]["wrong"]]
        for label, args, typed in calls:
            fam.cases.append(dict(name="%s|%s" % (name, label), fn=name, kinds=[kind], typed=typed, desc=desc + " / " + label,
                                  call="%s(%s)" % (recv.format(name=name), args)))

    def default_of(t: str) -> str:
        return {"object": "None", "int": "3", "i64": "3", "float": "1.5", "bool": "False", "str": "'d'",
                "native": "None", "optional": "None", "tuple": "(1, 'd')", "list": "None"}[t]

    n = 0
    for t2 in WTYPES:
        a2 = WTYPES[t2]["ann"]
        for t1 in EARLY:
            a1 = WTYPES[t1]["ann"]
            shapes = [
                ("pos", "(x: %s, y: %s)" % (a1, a2), "[x, y]"),
                ("star", "(x: %s, *args: %s)" % (a2, a1), "[x, args]"),
                ("starstar", "(x: %s, **kw: %s)" % (a2, a1), "[x, kw]"),
            ]
            if t1 == "object":
                d2 = default_of(t2)
                da = ("Optional[%s]" % a2) if d2 == "None" and t2 in ("native", "list") else a2
                shapes += [
                    ("default", "(x: %s, y: %s = %s)" % (a1, da, d2), "[x, y]"),
                    ("kwonly", "(x: %s, *, k: %s)" % (a1, a2), "[x, k]"),
                    ("all", "(x: %s, *args: object, k: %s = %s, **kw: object)" % (a2, da, d2), "[x, args, k, kw]"),
                ]
            for shape, sig, ret in shapes:
                if shape == "all" and t2 in ("i64", "float"):
                    # `def f(x: i64, *args: object, k: i64 = 3, **kw: object)` crashes mypyc's codegen
                    # (func_ir.get_text_signature: "non-default argument follows default argument"):
                    # a compiler crash on a valid program, outside C06's premise
                    continue
                name = "w%d" % n
                n += 1
                desc = "def f%s" % sig
                fam.funcs.append(dict(name=name, desc=desc, lines=["def %s%s -> object:" % (name, sig), "    # " + desc, "    return %s" % ret]))
                add_cases(name, desc, "m.{name}", t1, t2, shape)
                # (a method with a defaulted i64 / float parameter crashes mypyc's codegen: get_text_signature
                # puts the bitmap argument after the defaults -- a compiler crash, outside C06)
                if t1 == "object" and shape in ("pos", "star", "all") and not (shape == "all" and t2 in ("i64", "float")):
                    # the same signature as a method, a static method and __init__ / __call__ of a native class
                    mname = "m%d" % len(methods)
                    methods.append("    def %s(self, %s -> object:\n        return %s" % (mname, sig[1:], ret))
                    add_cases(mname, "method " + desc, "m.WM(a).{name}", t1, t2, shape)
    # dunder wrappers with a typed operand
    dunders = ["    def __getitem__(self, i: int) -> object:\n        return [self.v, i]",
               "    def __setitem__(self, i: int, x: str) -> None:\n        self.v = [i, x]",
               "    def __contains__(self, x: str) -> bool:\n        return len(x) > 0",
               "    def __call__(self, x: int, *args: object, **kw: object) -> object:\n        return [x, args, kw]",
               "    def __eq__(self, other: object) -> bool:\n        return isinstance(other, WM)",
               "    def __add__(self, other: int) -> object:\n        return [self.v, other]",
               "    def __len__(self) -> int:\n        return 3",
               "    @property\n    def prop(self) -> object:\n        return self.v",
               "    @prop.setter\n    def prop(self, x: str) -> None:\n        self.v = x",
               "    @staticmethod\n    def smeth(x: int, *args: object) -> object:\n        return [x, args]",
               "    @classmethod\n    def cmeth(cls, x: str, **kw: object) -> object:\n        return [x, kw]"]
    wm = ["class WM:", "    def __init__(self, v: object, *args: object, n: int = 0, **kw: object) -> None:",
          "        self.v = v", "", "    def c06_fields(self) -> object:", "        return [self.v]", ""]
    for mm in methods + dunders:
        wm += mm.split("\n") + [""]
    fam.funcs.append(dict(name="WM", desc="class", lines=wm))
    dcalls = [
        ("WM.__init__|good", "m.WM(a, b, [a], n=2, p=b)", False), ("WM.__init__|wrong-n", "m.WM(a, b, [a], n='x', p=b)", True),
        ("WM.__init__|missing", "m.WM(n=1, p=a)", False), ("WM.__init__|dup", "m.WM(a, b, v=b)", False),
        ("WM.__getitem__|good", "m.WM(a)[2]", False), ("WM.__getitem__|wrong", "m.WM(a)[b]", True),
        ("WM.__setitem__|good", "m.WM(a).__setitem__(1, 's')", False), ("WM.__setitem__|wrong-i", "m.WM(a).__setitem__(b, 's')", True),
        ("WM.__setitem__|wrong-x", "m.WM(a).__setitem__(1, b)", True), ("WM.__setitem__|syntax-wrong", "exec('w[1] = v', {'w': m.WM(a), 'v': b})", True),
        ("WM.__contains__|good", "'s' in m.WM(a)", False), ("WM.__contains__|wrong", "b in m.WM(a)", True),
        ("WM.__call__|good", "m.WM(a)(3, a, b, p=[a])", False), ("WM.__call__|wrong", "m.WM(a)('x', a, b, [a, b], p=[a], q=b)", True),
        ("WM.__call__|missing", "m.WM(a)(p=a, q=b)", False),
        ("WM.__eq__|good", "[m.WM(a) == m.WM(b), m.WM(a) == b, m.WM(a) != b]", False),
        ("WM.__add__|good", "m.WM(a) + 3", False), ("WM.__add__|wrong", "m.WM(a) + b", True),
        ("WM.__len__|good", "len(m.WM(a))", False),
        ("WM.prop|get", "m.WM(a).prop", False), ("WM.prop|set-good", "setattr(m.WM(a), 'prop', 's')", False),
        ("WM.prop|set-wrong", "setattr(m.WM(a), 'prop', b)", True), ("WM.prop|delete", "delattr(m.WM(a), 'prop')", True),
        ("WM.v|set-get", "[setattr(m.WM(a), 'v', b), m.WM(a).v]", False), ("WM.v|missing-attr", "m.WM(a).nope", False),
        ("WM.smeth|good", "m.WM.smeth(3, a, b)", False), ("WM.smeth|wrong", "m.WM.smeth('x', a, b, [a, b])", True),
        ("WM.cmeth|good", "m.WM.cmeth('s', p=a, q=b)", False), ("WM.cmeth|wrong", "m.WM.cmeth(5, p=a, q=[a, b])", True),
        ("WM.cmeth|extra", "m.WM.cmeth('s', a)", False),
    ]
    for nm, call, typed in dcalls:
        fam.cases.append(dict(name=nm, fn="WM", kinds=["inst"], typed=typed, desc=nm, call=call))
    return fam


def error_lines(output: str, filename: str) -> list[int]:
    return sorted({int(m.group(1)) for m in re.finditer(re.escape(filename) + r":(\d+):(?:\d+:)? error", output)})
