"""C02 — incremental (warm-cache) runs report exactly what a cold run reports.

Specification: spec/Incremental.tla (no faults). TLC checks OutEqualsCold / FreshIsRight over all
edit/touch/run histories of the bound, and emits every history; each is replayed into real mypy
(in-process build.build in a fresh forked process per run, logical clock) in the four store x format
configurations: after EVERY run the warm result is compared with a cold run on the same files
(the property), and the modules re-analysed / reported are compared with the model's run (binding;
a difference there with warm = cold is model drift, reported in the evidence, never a violation).
The store traces of the replays are validated against Trace_Incremental.tla.  On top: exhaustive
two-step and seeded multi-step histories over the broader catalogue R (+ stub / deletion variants),
real-vs-real only.
"""
from __future__ import annotations

import itertools
import json
import os
import random
import shutil
import sys
from concurrent.futures import ProcessPoolExecutor
from typing import Any

from harness.common import MachineryError, SPEC, Verdict, coverage_summary, parse_args, sany, scratch, tlc
from harness import world as W
from harness.tracecheck import validate_store_traces

PID = "C02"


def decode_variant(mod: str, v: str) -> str:
    x = json.loads(v)
    if mod == "c":
        return "c-" if x["iface"] == 9 else "c[%d,%d]" % (x["iface"], x["err"])
    return x


_COLD: dict[str, Any] = {}


def cold_memo(src: str, world: dict[str, str], **kw: Any) -> dict[str, Any]:
    """Cold run of the default source list for a world of catalogue M / R (memoised per worker process: the result of a
    from-scratch build depends on the file contents only -- C10 checks exactly that)."""
    key = json.dumps([world, kw], sort_keys=True, default=str)
    if key not in _COLD:
        _COLD[key] = W.run_build(src, cache_dir=None, record=False, **kw)
    return _COLD[key]


def replay_model_history(args: tuple[list[dict[str, Any]], tuple[str, str]]) -> dict[str, Any]:
    hist, (store, fmt) = args
    W.preload()
    root = scratch("c02-")
    src, cache = os.path.join(root, "src"), os.path.join(root, "cache")
    t = W.Tree(src)
    t.apply({"a": "use", "b": "reexport", "c": "c[0,0]"})
    out: dict[str, Any] = {"runs": 0, "violation": None, "drift": [], "trace": [], "nontrivial": False, "obs": []}
    partial = False
    served = False
    i = 0
    while i < len(hist):
        ev = hist[i]
        if ev["ev"] == "edit":
            t.set(ev["mod"], decode_variant(ev["mod"], ev["v"]))
        elif ev["ev"] == "touch":
            t.set(ev["mod"], t.world[ev["mod"]], touch_only=True)
        elif ev["ev"] == "run":
            exp = json.loads(hist[i + 1]["v"]) if i + 1 < len(hist) and hist[i + 1]["ev"] == "result" else None
            r = W.run_build(src, cache_dir=cache, store=store, fmt=fmt, tick=t.tick); t.tick = r["tick"]
            c = cold_memo(src, t.world)
            out["runs"] += 1
            out["trace"].append(r["trace"])
            got_rep = sorted({m.split(".py")[0] for m in r["messages"]})
            out["obs"].append({"world": dict(t.world), "rechecked": r.get("rechecked"), "reported": got_rep})
            if r.get("crash") or W.norm(r) != W.norm(c):
                out["violation"] = {"what": "warm (%s/%s): status %s %r ; cold: status %s %r %s" % (
                    store, fmt, r["status"], r["messages"], c["status"], c["messages"], (r.get("crash") or "")[-300:]), "at_run": out["runs"]}
                break
            if exp is not None:
                if sorted(exp["reported"]) != got_rep or sorted(exp["stale"]) != sorted(r.get("rechecked", [])):
                    out["drift"].append({"run": out["runs"], "model": exp, "real": {"reported": got_rep, "rechecked": r.get("rechecked")}})
            if r.get("rechecked") and len(r["rechecked"]) < 3:
                partial = True
            if got_rep:
                served = True
        i += 1
    out["nontrivial"] = partial and served
    shutil.rmtree(root, ignore_errors=True)
    return out


def replay_r_history(args: tuple[list[dict[str, str]], tuple[str, str]]) -> dict[str, Any]:
    """Catalogue R: a history is a list of worlds (with optional stub / d entries); a run after every step."""
    worlds, (store, fmt) = args
    W.preload()
    root = scratch("c02r-")
    src, cache = os.path.join(root, "src"), os.path.join(root, "cache")
    t = W.Tree(src)
    out: dict[str, Any] = {"runs": 0, "violation": None, "nontrivial": False, "trace": []}
    partial = served = False
    for w in worlds:
        t.apply(w)
        srcs = t.sources()
        r = W.run_build(src, cache_dir=cache, store=store, fmt=fmt, tick=t.tick, sources=srcs); t.tick = r["tick"]
        c = W.run_build(src, cache_dir=None, record=False, sources=srcs)
        out["runs"] += 1
        out["trace"].append(r["trace"])
        if r.get("crash") or W.norm(r) != W.norm(c):
            out["violation"] = {"what": "warm (%s/%s): status %s %r ; cold: status %s %r %s" % (
                store, fmt, r["status"], r["messages"], c["status"], c["messages"], (r.get("crash") or "")[-300:]), "at_run": out["runs"]}
            break
        if r.get("rechecked") and any(e["ev"] == "fresh" for e in r["trace"]):
            partial = True
        if r["messages"]:
            served = True
    out["nontrivial"] = partial and served
    shutil.rmtree(root, ignore_errors=True)
    return out


def corpus_worker(args: tuple[dict[str, Any], tuple[str, str], str]) -> dict[str, Any]:
    from harness import corpus as C
    case, cfg, order = args
    W.preload()
    root = scratch("c02c-")
    try:
        if order in ("reload", "reload-deep"):
            r = C.reload_case(case, root, cfg[0], cfg[1], deep=order == "reload-deep")
        else:
            r = C.run_case(case, root, cfg[0], cfg[1], order)
    except BaseException as e:  # harness problem with this case: skip it, never a verdict
        r = {"name": case["name"], "steps": 0, "violation": None, "traces": [], "skipped": "harness error %r" % (e,), "nontrivial": False}
    shutil.rmtree(root, ignore_errors=True)
    r["cfg"] = cfg
    r["order"] = order
    r["file"] = case.get("file", "")
    return r


R_DEFAULT = {"a": "a0", "b": "b0", "c": "c0", "c.pyi": "s-", "d": "d-", "p/__init__": "p-", "p/x": "x-", "e": "e-", "@bdir": ""}


def minimise_r(worlds: list[dict[str, str]], cfg: tuple[str, str]) -> list[dict[str, str]]:
    """Canonical 1-minimal failing R history: drop steps; revert single-module changes of a step; replace a module that is
    constant along the history by its default content (absent for the optional ones) -- while it still fails."""
    def fails(ws: list[dict[str, str]]) -> bool:
        return bool(ws) and replay_r_history((ws, cfg))["violation"] is not None
    cur = [dict(w) for w in worlds]
    changed = True
    while changed:
        changed = False
        for i in range(len(cur)):
            cand = cur[:i] + cur[i + 1:]
            if fails(cand):
                cur = cand; changed = True
                break
        if changed:
            continue
        for i in range(1, len(cur)):
            for m in sorted(cur[i]):
                if cur[i][m] != cur[i - 1].get(m):
                    cand = [dict(w) for w in cur]
                    cand[i][m] = cur[i - 1].get(m, cand[i][m])
                    if cand[i] != cur[i] and fails(cand):
                        cur = cand; changed = True
                        break
            if changed:
                break
        if changed:
            continue
        for m in sorted(cur[0]):
            vals = {w.get(m) for w in cur}
            dflt = R_DEFAULT.get(m)
            if len(vals) == 1 and dflt is not None and vals != {dflt}:
                cand = [dict(w, **{m: dflt}) for w in cur]
                if fails(cand):
                    cur = cand; changed = True
                    break
    return cur



# ----------------------------------------------------------------------------- catalogue T (transitive structure)
# import cycles, a submodule that is only reachable through somebody else's import two levels below, a package that
# is missing / a source package / a stub package, and the follow-imports mode.  Each dimension is a small enum; a world
# is a dict; files are derived from it.
T_DIMS: dict[str, list[str]] = {
    "cycle": ["0", "1"],        # forms imports views back (views <-> forms)
    "uses": ["0", "1"],         # views uses pkg.mod.C without importing pkg.mod itself
    "loader": ["0", "1"],       # loader (views -> helpers -> loader) does `import pkg.mod`
    "mainimp": ["0", "1"],      # main imports pkg.mod itself (keeps it in the build)
    "modv": ["0", "1"],         # pkg/mod.py content version (type of C.n)
    "spkg": ["-", "py", "pyi"], # `spkg` package: absent, sources, stubs (main does `from spkg import sub`)
}
T_DEFAULT = {"cycle": "0", "uses": "0", "loader": "0", "mainimp": "0", "modv": "0", "spkg": "-"}


def t_files(w: dict[str, str]) -> dict[str, str | None]:
    f: dict[str, str | None] = {}
    f["main.py"] = "import views\n" + ("import pkg.mod\n" if w["mainimp"] == "1" else "") + "from spkg import sub\nsub.f(int())\n"
    f["views.py"] = "import forms\nimport helpers\nimport pkg\n" + ("def v() -> int:\n    return pkg.mod.C().n\n" if w["uses"] == "1" else "def v() -> int:\n    return 1\n")
    f["forms.py"] = ("import views\n" if w["cycle"] == "1" else "") + "def g() -> int:\n    return 1\n"
    f["helpers.py"] = "import loader\n"
    f["loader.py"] = ("import pkg.mod\n" if w["loader"] == "1" else "") + "x = 1\n"
    f["pkg/__init__.py"] = ""
    f["pkg/mod.py"] = "class C:\n    n: %s\n" % ("int = 0" if w["modv"] == "0" else "str = ''")
    ext = {"py": "py", "pyi": "pyi"}.get(w["spkg"])
    for e in ("py", "pyi"):
        f["spkg/__init__." + e] = "" if e == ext else None
        f["spkg/sub." + e] = ("def f(x: str) -> None: ...\n" if e == "pyi" else "def f(x: str) -> None:\n    pass\n") if e == ext else None
    return f


def replay_t_history(args: tuple[list[dict[str, str]], tuple[str, str], str]) -> dict[str, Any]:
    worlds, (store, fmt), follow = args
    W.preload()
    root = scratch("c02t-")
    src, cache = os.path.join(root, "src"), os.path.join(root, "cache")
    os.makedirs(src)
    out: dict[str, Any] = {"runs": 0, "violation": None, "nontrivial": False, "trace": []}
    tick = 1000
    cur: dict[str, str | None] = {}
    st_tick = 0
    for w in worlds:
        for rel, txt in t_files(w).items():
            if cur.get(rel) == txt:
                continue
            p = os.path.join(src, rel)
            if txt is None:
                if os.path.exists(p):
                    os.unlink(p)
            else:
                os.makedirs(os.path.dirname(p), exist_ok=True)
                with open(p, "w") as fh:
                    fh.write(txt)
                tick += 1
                t = 1_000_000 + tick * 10
                os.utime(p, (t, t))
            cur[rel] = txt
        for d in ("spkg",):
            dp = os.path.join(src, d)
            if os.path.isdir(dp) and not os.listdir(dp):
                os.rmdir(dp)
        kw = dict(sources=[("main.py", "main")], user_mods="*", extra_opts={"follow_imports": follow})
        r = W.run_build(src, cache_dir=cache, store=store, fmt=fmt, tick=st_tick, **kw); st_tick = r["tick"]
        c = W.run_build(src, cache_dir=None, record=False, **kw)
        out["runs"] += 1
        out["trace"].append(r["trace"])
        if r.get("crash") or W.norm(r) != W.norm(c):
            out["violation"] = {"what": "warm (%s/%s, follow_imports=%s): status %s %r ; cold: status %s %r %s" % (
                store, fmt, follow, r["status"], r["messages"][:5], c["status"], c["messages"][:5], (r.get("crash") or "")[-300:]), "at_run": out["runs"]}
            break
        if any(e["ev"] == "fresh" for e in r["trace"]) and any(e["ev"] == "stale" for e in r["trace"]) and (r["messages"] or out["runs"] > 1):
            out["nontrivial"] = True
    shutil.rmtree(root, ignore_errors=True)
    return out


def minimise_t(worlds: list[dict[str, str]], cfg: tuple[str, str], follow: str) -> list[dict[str, str]]:
    def fails(ws: list[dict[str, str]]) -> bool:
        return bool(ws) and replay_t_history((ws, cfg, follow))["violation"] is not None
    cur = [dict(w) for w in worlds]
    changed = True
    while changed:
        changed = False
        for i in range(len(cur)):
            cand = cur[:i] + cur[i + 1:]
            if fails(cand):
                cur = cand; changed = True
                break
        if changed:
            continue
        for i in range(1, len(cur)):
            for m in sorted(cur[i]):
                if cur[i][m] != cur[i - 1][m]:
                    cand = [dict(w) for w in cur]
                    cand[i][m] = cur[i - 1][m]
                    if fails(cand):
                        cur = cand; changed = True
                        break
            if changed:
                break
        if changed:
            continue
        for m in sorted(cur[0]):
            if len({w[m] for w in cur}) == 1 and cur[0][m] != T_DEFAULT[m]:
                cand = [dict(w, **{m: T_DEFAULT[m]}) for w in cur]
                if fails(cand):
                    cur = cand; changed = True
                    break
    return cur


def t_histories(tier: str) -> list[tuple[list[dict[str, str]], str]]:
    """Deterministic: every 2-step history whose second world differs in ONE dimension (x both follow modes), plus a fixed
    pseudo-random set of 3-step histories."""
    keys = sorted(T_DIMS)
    worlds = [dict(zip(keys, vals)) for vals in itertools.product(*[T_DIMS[k] for k in keys])]
    res: list[tuple[list[dict[str, str]], str]] = []
    for w in worlds:
        for k in keys:
            for v2 in T_DIMS[k]:
                if v2 != w[k]:
                    w2 = dict(w); w2[k] = v2
                    for follow in ("normal", "skip"):
                        if tier == "thorough" or (w["modv"] == "0" and (k != "modv")):
                            res.append(([w, w2], follow))
    gen = random.Random(20260927)
    for _ in range(150 if tier == "quick" else 3000):
        h = [gen.choice(worlds)]
        for _ in range(2):
            nxt = dict(h[-1])
            for k in gen.sample(keys, gen.choice([1, 2])):
                nxt[k] = gen.choice(T_DIMS[k])
            h.append(nxt)
        res.append((h, gen.choice(["normal", "skip", "error"])))
    return res


# ----------------------------------------------------------------------------- catalogue G (from TransDeps.tla)
def g_module_text(i: int, direct: list[int], offers: dict[int, list[int]]) -> str:
    """Module m<i>: imports its direct dependencies, re-exports every class they offer, refers to all of them."""
    lines = ["import m%d" % j for j in direct]
    seen = {i}
    for j in direct:
        for k in offers[j]:
            if k not in seen:
                seen.add(k)
                lines.append("from m%d import K%d as K%d" % (j, k, k))
    lines.append("class K%d:\n    x: int = 0" % i)
    body = ["    m%d.K%d().x" % (j, k) for j in direct for k in offers[j]] or ["    pass"]
    lines.append("def u() -> None:\n" + "\n".join(body))
    return "\n".join(lines) + "\n"


def g_reach(g: list[list[int]], n: int) -> dict[int, list[int]]:
    d = {i: sorted({b for a, b in g if a == i}) for i in range(1, n + 1)}
    out = {}
    for i in d:
        seen: set[int] = set(); todo = list(d[i])
        while todo:
            x = todo.pop()
            if x not in seen:
                seen.add(x); todo += d[x]
        out[i] = sorted(seen)
    return out


def replay_g_case(args: tuple[dict[str, Any], tuple[str, str]]) -> dict[str, Any]:
    case, (store, fmt) = args
    W.preload()
    n = 3
    root = scratch("c02g-")
    src, cache = os.path.join(root, "src"), os.path.join(root, "cache")
    os.makedirs(src)
    out: dict[str, Any] = {"runs": 0, "violation": None, "nontrivial": False, "trace": [], "drift": None}
    g1, g2, e = case["g1"], case["g2"], case["e"]
    r1 = g_reach(g1, n)
    offers1 = {j: sorted(set(r1[j]) | {j}) for j in range(1, n + 1)}
    tick = 1000

    def put(name: str, txt: str) -> None:
        nonlocal tick
        with open(os.path.join(src, name), "w") as fh:
            fh.write(txt)
        tick += 1
        os.utime(os.path.join(src, name), (1_000_000 + tick * 10,) * 2)

    put("main.py", "".join("import m%d\n" % i for i in range(1, n + 1)))
    for i in range(1, n + 1):
        put("m%d.py" % i, g_module_text(i, sorted({b for a, b in g1 if a == i}), offers1))
    kw = dict(sources=[("main.py", "main")], user_mods="*")
    st = 0
    for step in (1, 2):
        if step == 2:
            # the edited module imports its new dependencies and re-exports what they (unchanged) offer
            put("m%d.py" % e, g_module_text(e, sorted({b for a, b in g2 if a == e}), offers1))
        r = W.run_build(src, cache_dir=cache, store=store, fmt=fmt, tick=st, **kw); st = r["tick"]
        c = W.run_build(src, cache_dir=None, record=False, **kw)
        out["runs"] += 1
        out["trace"].append(r["trace"])
        if r.get("crash") or W.norm(r) != W.norm(c):
            out["violation"] = {"what": "warm (%s/%s): status %s %r ; cold: status %s %r %s" % (
                store, fmt, r["status"], r["messages"][:5], c["status"], c["messages"][:5], (r.get("crash") or "")[-300:]), "at_run": step}
            break
        if step == 2:
            real_fresh = sorted(int(ev["mod"][1:]) for ev in r["trace"] if ev["ev"] == "fresh" and ev["mod"][:1] == "m" and ev["mod"][1:].isdigit())
            if real_fresh != sorted(case["fresh"]):
                out["drift"] = {"model_fresh": sorted(case["fresh"]), "real_fresh": real_fresh}
            out["nontrivial"] = bool(real_fresh) and len(real_fresh) < n
    shutil.rmtree(root, ignore_errors=True)
    return out


# ----------------------------------------------------------------------------- ValidateMeta.tla cases
def replay_validate_case(case: dict[str, Any]) -> dict[str, Any]:
    """Create exactly the situation of one ValidateMeta.tla case around a real cache entry of module c and
    observe the real decision (fresh / stale verdict, meta rewritten while loading)."""
    W.preload()
    root = scratch("c02v-")
    src, cache = os.path.join(root, "src"), os.path.join(root, "cache")
    t = W.Tree(src)
    t.apply({"a": "use", "b": "reexport", "c": "c[0,0]"})
    conds = set(case["conds"])
    out: dict[str, Any] = {"violation": None, "mismatch": None, "runs": 2}
    r1 = W.run_build(src, cache_dir=cache, store="fs", fmt="ff", tick=t.tick); t.tick = r1["tick"]
    cdir = os.path.join(cache, "3.12")
    cpath = os.path.join(src, "c.py")
    st = os.stat(cpath)
    if "touched" in conds:
        os.utime(cpath, (st.st_mtime + 100, st.st_mtime + 100))
    if "edited_same" in conds:
        with open(cpath, "w") as f:
            f.write(W.text_of("c", "c[0,0]").replace("return 1", "return 2"))
        os.utime(cpath, (st.st_mtime + 100, st.st_mtime + 100))
    if "edited_size" in conds:
        with open(cpath, "a") as f:
            f.write("# longer\n")
        os.utime(cpath, (st.st_mtime + 100, st.st_mtime + 100))
    sources = [("a.py", "a")]
    if "moved" in conds:
        os.makedirs(os.path.join(src, "sub"))
        os.rename(cpath, os.path.join(src, "sub", "c.py"))       # rename keeps content and mtime
        sources = [("a.py", "a"), (os.path.join("sub", "c.py"), "c")]
    if "data_swapped" in conds:
        p = os.path.join(cdir, "c.data.ff")
        s2 = os.stat(p)
        os.utime(p, (s2.st_mtime + 100, s2.st_mtime + 100))
    for cnd, rec in (("data_gone", "c.data.ff"), ("meta_gone", "c.meta.ff"), ("ex_gone", "c.meta_ex.ff")):
        if cnd in conds:
            os.unlink(os.path.join(cdir, rec))
    if "meta_garbage" in conds:
        with open(os.path.join(cdir, "c.meta.ff"), "wb") as f:
            f.write(b"\x00\x01garbage")
    extra = {"strict_optional": False} if "key_option" in conds else {}
    r2 = W.run_build(src, cache_dir=cache, store="fs", fmt="ff", tick=t.tick, sources=sources, extra_opts=extra)
    c2 = W.run_build(src, cache_dir=None, record=False, sources=sources, extra_opts=extra)
    if r2.get("crash") or W.norm(r2) != W.norm(c2):
        out["violation"] = "warm: status %s %r ; cold: status %s %r %s" % (r2["status"], r2["messages"][:4], c2["status"], c2["messages"][:4], (r2.get("crash") or "")[-300:])
    verdict = None
    rewrite = False
    for e in r2["trace"]:
        if e["ev"] in ("fresh", "stale") and e["mod"] == "c":
            verdict = e["ev"]
            break
        if e["ev"] == "store" and e["op"] == "write" and e["rec"].endswith("c.meta.ff"):
            rewrite = True
    got = {"fresh": verdict == "fresh", "rewrite": rewrite}
    want = {"fresh": case["fresh"], "rewrite": case["rewrite"]}
    if got != want:
        out["mismatch"] = {"conds": sorted(conds), "real": got, "specification": want}
    shutil.rmtree(root, ignore_errors=True)
    return out

EXT_DIMS = ["c.pyi", "d", "p/__init__", "p/x", "e", "@bdir"]


def ext_world(gen: random.Random) -> dict[str, str]:
    w = dict(gen.choice(W.all_worlds()))
    for m in EXT_DIMS:
        w[m] = gen.choice(sorted(W.EXT_VARIANTS[m]))
    return w


def ext_histories(n: int) -> list[list[dict[str, str]]]:
    """A FIXED pseudo-random set of 3-4 step histories over catalogue R + stub + package + move + extra importers
    (the space contains genuine findings, so it must not depend on VERIF_SEED)."""
    gen = random.Random(20260926)
    res = []
    for _ in range(n):
        k = gen.choice([3, 4])
        hsteps = [ext_world(gen)]
        for _ in range(k - 1):
            nxt = dict(hsteps[-1])
            for m in gen.sample(sorted(nxt), gen.choice([1, 1, 2])):
                pool = sorted(W.VARIANTS.get(m) or W.EXT_VARIANTS[m])
                nxt[m] = gen.choice([x for x in pool if x not in W.MVARIANTS.get(m, {})])
            hsteps.append(nxt)
        res.append(hsteps)
    return res


def main(argv: list[str]) -> int:
    tier, seed, replay = parse_args(argv)
    v = Verdict(PID, tier, seed)
    rnd = random.Random(seed)
    sany(os.path.join(SPEC, "MC_Incremental.tla"))
    cov: dict[str, Any] = {}
    states = transitions = 0
    # ---- 1. model checking
    for c in (["MC_Incremental_seq_q.cfg"] if tier == "quick" else ["MC_Incremental_seq.cfg"]):
        r = tlc("MC_Incremental", c, timeout=3000, heap="12g")
        if r.error:
            raise MachineryError("TLC %s: %s" % (c, r.error))
        if r.violated:
            v.violation("model:%s:%s" % (c, r.violated), {"cfg": c, "trace": r.trace_text}, "specification invariant violated")
        states += r.distinct; transitions += r.generated
        cov[c] = dict(coverage_summary(r), states=r.distinct, transitions=r.generated)
    rm = tlc("MC_Incremental", "Mut_Incremental_NoIndirect.cfg", coverage=False)
    if rm.violated not in ("FreshIsRight", "OutEqualsCold"):
        raise MachineryError("specification mutant NoIndirect not rejected: %s %s" % (rm.violated, rm.error))
    rm2 = tlc("MC_Incremental", "Mut_Incremental_NoDepList.cfg", coverage=False)
    if rm2.violated not in ("FreshIsRight", "OutEqualsCold"):
        raise MachineryError("specification mutant NoDepList not rejected: %s %s" % (rm2.violated, rm2.error))
    cov["spec_mutants_rejected"] = {"NoIndirect": rm.violated, "NoDepList": rm2.violated}
    # ---- 2. replay of every emitted history
    g = tlc("MC_Incremental", "Gen_Incremental.cfg", workers=1, coverage=False, timeout=1200)
    if not g.ok:
        raise MachineryError("Gen Incremental: %s %s" % (g.violated, g.error))
    hists = g.json_lines("HIST")
    uniq = {json.dumps(x, sort_keys=True): x for x in hists}
    hists = [uniq[k] for k in sorted(uniq)]
    if len(hists) < 1000:
        raise MachineryError("too few histories emitted: %d" % len(hists))
    n_emitted = len(hists)
    work = []
    if tier == "quick":
        # a fixed quarter of the emitted histories (every fourth one in the sorted order), rotating configurations
        hists = hists[::4]
    for i, hst in enumerate(hists):
        if tier == "quick":
            work.append((hst, W.CONFIGS[i % 4]))
        else:
            work += [(hst, cfg) for cfg in W.CONFIGS]
    results = []
    with ProcessPoolExecutor(16) as pex:
        for res in pex.map(replay_model_history, work, chunksize=8):
            results.append(res)
    n_runs = sum(r["runs"] for r in results)
    drift = [(w, d) for w, r in zip(work, results) for d in r["drift"]]
    for (hst, cfg), r in zip(work, results):
        if r["violation"]:
            key = "M:" + json.dumps({"cfg": cfg, "h": [[e["ev"], e["mod"], e["v"]] for e in hst if e["ev"] != "result"][: 3 * r["violation"]["at_run"] + 6]}, sort_keys=True)
            v.violation(key, {"kind": "model-history", "cfg": cfg, "history": hst}, r["violation"]["what"])
    # ---- 3. catalogue R: two-step histories (exhaustive in thorough), multi-step over the extended catalogue
    rw = W.all_worlds()
    # two-step histories over catalogue R (incl. the M contents): a FIXED pseudo-random subset, independent of VERIF_SEED
    # (490 worlds: the full product has 240 k pairs)
    genr = random.Random(20260928)
    pairs = []
    for _ in range(500 if tier == "quick" else 8000):
        a = genr.choice(rw)
        b = dict(a)
        for m in genr.sample(sorted(b), genr.choice([1, 1, 2, 3])):
            b[m] = genr.choice(sorted(W.VARIANTS[m]))
        if a != b:
            pairs.append((a, b))
    multi = ext_histories(250 if tier == "quick" else 3000)
    rwork = [([a, b], W.CONFIGS[i % 4]) for i, (a, b) in enumerate(pairs)] + [(hs, W.CONFIGS[i % 4]) for i, hs in enumerate(multi)]
    rresults = []
    with ProcessPoolExecutor(16) as pex:
        for res in pex.map(replay_r_history, rwork, chunksize=8):
            rresults.append(res)
    n_runs += sum(r["runs"] for r in rresults)
    seen = set()
    for (ws, cfg), r in zip(rwork, rresults):
        if r["violation"]:
            mini = minimise_r(ws[: r["violation"]["at_run"]], cfg)
            key = "R:" + json.dumps(mini, sort_keys=True)
            if key not in seen:
                seen.add(key)
                v.violation(key, {"kind": "R-history", "cfg": cfg, "history": ws, "minimal": mini}, r["violation"]["what"])
    # ---- 3a. catalogue T: cycles, transitively reachable submodules, stub packages, follow-imports modes
    twork = [(h, W.CONFIGS[i % 4], follow) for i, (h, follow) in enumerate(t_histories(tier))]
    tresults = []
    with ProcessPoolExecutor(16) as pex:
        for res in pex.map(replay_t_history, twork, chunksize=8):
            tresults.append(res)
    n_runs += sum(r["runs"] for r in tresults)
    tseen = set()
    for (ws, cfg, follow), r in zip(twork, tresults):
        if r["violation"]:
            mini = minimise_t(ws[: r["violation"]["at_run"]], cfg, follow)
            key = "T:" + json.dumps({"follow": follow, "h": mini}, sort_keys=True)
            if key not in tseen:
                tseen.add(key)
                v.violation(key, {"kind": "T-history", "cfg": cfg, "follow": follow, "history": ws, "minimal": mini}, r["violation"]["what"])
    # ---- 3a'. catalogue G: import-graph edits emitted by TLC from TransDeps.tla (re-exporting modules)
    sany(os.path.join(SPEC, "MC_TransDeps.tla"))
    for c, expect in (("MC_TransDeps.cfg", None), ("MC_TransDeps_reexp.cfg", None), ("Mut_TransDeps_FirstLevelOnly.cfg", "FreshIsSound")):
        if tier == "quick" and c == "MC_TransDeps_reexp.cfg":
            continue
        rt = tlc("MC_TransDeps", c, timeout=3000, coverage=False)
        if rt.error:
            raise MachineryError("TLC %s: %s" % (c, rt.error))
        if expect:
            if rt.violated not in ("FreshIsSound", "HashCoversReach"):
                raise MachineryError("specification mutant %s not rejected" % c)
            cov["spec_mutants_rejected"][c] = rt.violated
        else:
            if rt.violated:
                v.violation("model:%s:%s" % (c, rt.violated), {"cfg": c, "trace": rt.trace_text}, "specification invariant violated")
            states += rt.distinct; transitions += rt.generated
            cov[c] = {"states": rt.distinct, "transitions": rt.generated}
    gg = tlc("MC_TransDeps", "Gen_TransDeps_3.cfg", workers=1, coverage=False, timeout=900)
    if not gg.ok:
        raise MachineryError("Gen TransDeps: %s %s" % (gg.violated, gg.error))
    gcases = gg.json_lines("CASE")
    if len(gcases) < 300:
        raise MachineryError("too few TransDeps cases emitted")
    gwork = [(c, W.CONFIGS[i % 4]) for i, c in enumerate(gcases)]
    gresults = []
    with ProcessPoolExecutor(16) as pex:
        for res in pex.map(replay_g_case, gwork, chunksize=8):
            gresults.append(res)
    n_runs += sum(r["runs"] for r in gresults)
    for (case, cfg), r in zip(gwork, gresults):
        if r["violation"]:
            v.violation("G:" + json.dumps({"g1": case["g1"], "g2": case["g2"], "e": case["e"]}, sort_keys=True),
                        {"kind": "G-case", "case": case, "cfg": cfg}, r["violation"]["what"])
    gdrift = [dict(r["drift"], case={k: c[k] for k in ("g1", "g2", "e")}) for (c, _), r in zip(gwork, gresults) if r["drift"]]
    # ---- 3a''. the validity decision table (ValidateMeta.tla): every <=2 conditions around a real cache entry
    sany(os.path.join(SPEC, "MC_ValidateMeta.tla"))
    gv = tlc("MC_ValidateMeta", "Gen_ValidateMeta.cfg", workers=1, coverage=False)
    if not gv.ok:
        raise MachineryError("ValidateMeta: %s %s" % (gv.violated, gv.error))
    vcases = gv.json_lines("CASE")
    if len(vcases) < 40:
        raise MachineryError("too few ValidateMeta cases")
    states += gv.distinct; transitions += gv.generated
    vresults = []
    with ProcessPoolExecutor(16) as pex:
        for res in pex.map(replay_validate_case, vcases, chunksize=2):
            vresults.append(res)
    n_runs += sum(r["runs"] for r in vresults)
    for case, r in zip(vcases, vresults):
        if r["violation"]:
            v.violation("V:" + json.dumps(sorted(case["conds"])), {"kind": "validate-case", "case": case}, "conditions %s: %s" % (sorted(case["conds"]), r["violation"]))
        elif r["mismatch"] and r["mismatch"]["real"]["fresh"] and not r["mismatch"]["specification"]["fresh"]:
            # the code TRUSTS an entry the specification (transcribing the documented validity rule) says is invalid
            v.violation("V-trust:" + json.dumps(sorted(case["conds"])), {"kind": "validate-case", "case": case, "mismatch": r["mismatch"]},
                        "cache entry trusted although %s (the validity rule says stale)" % sorted(case["conds"]))
    vdrift = [r["mismatch"] for r in vresults if r["mismatch"]]
    # ---- 3b. the repository's own multi-step incremental scenarios, expected outputs ignored
    from harness import corpus as C
    from harness.common import REPO
    ccases = []
    for fn in ("check-incremental.test", "check-serialize.test"):
        ccases += C.parse_cases(os.path.join(REPO, "test-data", "unit", fn))
    if tier == "quick":
        # a FIXED sample (the corpus contains a genuine finding): every fourth case
        ccases = ccases[::4]
    # every case is run 'back' (its own steps 1..n, then every edit undone again n-1..1: histories the repository's suite
    # does not contain); thorough adds 'reverse' (n..1)
    cwork = [(c, W.CONFIGS[i % 4], "back") for i, c in enumerate(ccases)]
    if tier != "quick":
        cwork += [(c, W.CONFIGS[(i + 1) % 4], "reverse") for i, c in enumerate(ccases)]
    # corpus-wide reload: single-step cases of every check-*.test file (see corpus.reload_case); quick: a fixed 1/8
    rcases = []
    for fn in C.reload_files():
        for c in C.parse_cases(os.path.join(REPO, "test-data", "unit", fn)):
            c["file"] = fn
            rcases.append(c)
    if tier == "quick":
        rcases = rcases[::8]
    cwork += [(c, W.CONFIGS[i % 4], "reload" if tier == "quick" else "reload-deep") for i, c in enumerate(rcases)]
    # the field-rich program (every CacheMeta / CacheMetaEx field non-default somewhere), all four configurations
    for cfg in W.CONFIGS:
        fc = dict(C.FIELD_CASE, file="<field world>")
        cwork.append((fc, cfg, "reload-deep"))
        cwork.append((dict(fc, name="verifFieldWorldSilent", main=fc["main"].replace("# flags: ", "# flags: --follow-imports=silent ")), cfg, "reload-deep"))
    cresults = []
    with ProcessPoolExecutor(16) as pex:
        for res in pex.map(corpus_worker, cwork, chunksize=2):
            cresults.append(res)
    n_runs += sum(r["steps"] for r in cresults)
    for r in cresults:
        if r["violation"]:
            if r["order"].startswith("reload"):
                key = "reload:%s::%s:%s" % (r["file"], r["name"], r.get("label", ""))
                if r["file"] == "<field world>":
                    key += ":%s/%s" % tuple(r["cfg"])
            elif r["order"] == "back" and len(r.get("at", [])) <= C.steps_of(next(c for c, _, o in cwork if c["name"] == r["name"] and o == "back")):
                key = "corpus:%s" % r["name"]
            else:
                key = "corpus-%s:%s" % (r["order"], r["name"])
            v.violation(key, {"kind": "corpus", "case": r["name"], "file": r["file"], "order": r["order"], "cfg": r["cfg"]},
                        "%s [%s] (%s/%s): %s" % (r["name"], r["order"], r["cfg"][0], r["cfg"][1], r["violation"]))
    # ---- 4. trace validation
    scen = [{"sqlite": cfg[0] == "sqlite", "runs": r["trace"]} for (h_, cfg), r in zip(work, results) if r["trace"]][:500]
    scen += [{"sqlite": cfg[0] == "sqlite", "runs": r["trace"], "mods": ["a", "b", "c", "d", "e", "p", "p.x"]} for (h_, cfg), r in zip(rwork, rresults) if r["trace"]][:300]
    for r in cresults:
        if r["traces"] and not r["skipped"] and not r["violation"]:
            mods = sorted({e["mod"] for tr in r["traces"] for e in tr if e["ev"] in ("fresh", "stale")})
            scen.append({"sqlite": r["cfg"][0] == "sqlite", "runs": r["traces"], "mods": mods})
    tv = validate_store_traces(scen)
    for rej in tv["rejected"][:5]:
        v.violation("trace:" + json.dumps(rej["at"]), rej, "recorded store trace is not a behaviour of Trace_Incremental.tla: " + rej["why"])
    if (tv["validated"] == 0 and not tv["rejected"]) or n_runs == 0:
        raise MachineryError("conformance step did not run")
    nontrivial = sum(1 for r in results + rresults + cresults + tresults + gresults if r["nontrivial"])
    coverage = {
        "states": states, "transitions": transitions,
        "traces_validated_against_impl": tv["validated"],
        "evaluations": len(work) + len(rwork) + len(twork) + len(cwork) + len(gwork), "distinct_nontrivial": nontrivial, "runs_compared_with_cold": n_runs,
        "corpus_cases_run": sum(1 for r in cresults if not r["skipped"] and not r["order"].startswith("reload")), "corpus_cases_skipped": sum(1 for r in cresults if r["skipped"]),
        "corpus_reload_cases_run": sum(1 for r in cresults if not r["skipped"] and r["order"].startswith("reload")),
        "model_histories": n_emitted, "model_history_replays": len(work), "r_two_step": len(pairs), "r_multi_step": len(multi), "t_histories": len(twork), "g_cases": len(gwork), "validate_cases": len(vcases), "validate_model_drift": vdrift[:6], "validate_model_drift_count": len(vdrift), "g_model_drift_count": len(gdrift), "g_model_drift": gdrift[:5],
        "model_drift": [{"cfg": w[1], "drift": d} for w, d in drift[:10]], "model_drift_count": len(drift),
        "rule": "every history TLC emits for Gen_Incremental.cfg (<=3 runs, <=2 edits, <=1 touch over catalogue M) replayed in the store x format "
                "configurations (quick: rotating, thorough: all four); catalogue R two-step histories (a fixed set of 500 / 8,000) and a fixed set of 3-4 step "
                "histories over R + stub + package/submodule + file move + extra importers; non-trivial = history with a run in which some but not all modules were re-analysed "
                "and a run with diagnostics",
        "samples": [{"history": [[e["ev"], e["mod"], e["v"]] for e in work[0][0]], "cfg": work[0][1], "observed": results[0]["obs"]},
                    {"r_history": rwork[-1][0], "cfg": rwork[-1][1]}],
        "tlc": cov, "trace_validation": {k: tv[k] for k in ("validated", "states", "events")},
        "exhaustive": tier == "thorough",
    }
    return v.finish("model_checking", coverage, [
        "A-clock (logical integer mtimes); A-single-writer; A-fixtures (in-process build.build with lib-stub fixtures, fresh forked process per run)",
        "oracle: cold run of the same mypy on the same files; the model's prediction is a second opinion (drift is reported, never a violation)",
    ])


if __name__ == "__main__":
    try:
        sys.exit(main(sys.argv[1:]))
    except MachineryError as e:
        print("MACHINERY FAILURE:", e, file=sys.stderr)
        sys.exit(2)
    except Exception:  # an unexpected failure of the machinery is never a verdict about mypy
        import traceback
        traceback.print_exc()
        print("MACHINERY FAILURE: unexpected failure of the machinery", file=sys.stderr)
        sys.exit(2)
