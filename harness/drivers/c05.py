"""C05 (partial) — mypyc-compiled code behaves like the interpreted source, for five mechanisms.

(1) spec/CtrlFlow.tla: TLC generates structured-control-flow programs (try / except / else / finally x
    return / break / continue / raise / bare raise x loops x nested functions) together with the
    trace the semantics predicts;
(2) spec/ArgBind.tla (C12's, reused read-only): every signature x call shape with the binding outcome;
(3) spec/Dispatch.tla (EXTENDS C12's C3.tla): class hierarchies (one native base + traits) with a
    method / property defined on arbitrary subsets, `super()` chains, and the method the MRO selects.

(4) spec/Slots.tla: class shapes (which special methods are defined and what they return, boundary
    values, NotImplemented, exceptions) x operations that go through the type's slots, performed by
    interpreted and by compiled callers, with the outcome CPython's data model prescribes;
(5) spec/IterMut.tla: for loops over dict / dict views / set / list / reversed / enumerate / zip /
    tuple / str / range whose body mutates the container at a chosen iteration, CPython's iterators
    as state machines: the elements seen, the RuntimeError, the final container.

Binding: everything TLC emits is rendered as Python modules and run under CPython (a disagreement
between a specification and CPython is model drift -> exit 2); a selection is compiled with the
working tree's mypyc (mypyc.build.mypycify; C compiler) and called from an interpreted child
process.  The verdict is compiled vs interpreted: stdout, returned value, exception type and
message of every call; a child that dies is a violation.
"""
from __future__ import annotations

import json
import os
import random
import re
import shutil
import subprocess
import sys
import time
from concurrent.futures import ThreadPoolExecutor
from typing import Any

from harness.common import (MachineryError, PY, REPO, SPEC, Verdict, coverage_summary, parse_args,
                            repo_env, sany, scratch, tlc)
from harness.drivers import c05_extra as X

PID = "C05"
HERE = os.path.dirname(os.path.abspath(__file__))
RUNNER_SRC = os.path.join(HERE, "c05_runner.py")
MAX_CC = 4           # parallel C compilations (shared machine)
TLC_WORKERS = 8
MEM_LIMIT = 10 << 30  # address-space limit of every build / screening child


# =========================================================================== (1) control flow
EXC_NAME = {"V": "ValueError", "K": "KeyError", "R": "RuntimeError"}
PAT_NAME = {"V": "ValueError", "L": "LookupError", "X": "Exception"}
LIB = "c05lib"
LIB_SRC = '''\
def boom_V(k: int) -> None:
    raise ValueError(k)


def boom_K(k: int) -> None:
    raise KeyError(k)
'''


def tokstr(toks: list[dict[str, Any]]) -> str:
    """Canonical one-line form of a program (identifies it in keys and replay files)."""
    parts = []
    for t in toks:
        s = t["op"] + t["a"] + (str(t["n"]) if t["op"] == "loop" else "") + ("?" if t["g"] else "")
        parts.append(s)
    return " ".join(parts)


def cf_render(toks: list[dict[str, Any]], name: str) -> list[str]:
    """Python text of one program; token indices are 1-based as in the specification."""
    lines = ["def %s(x: int) -> int:" % name]
    ind = 1
    kinds: list[tuple[str, int]] = []   # open blocks: (kind, token index)

    def emit(s: str, extra: int = 0) -> None:
        lines.append("    " * (ind + extra) + s)

    def guarded(g: int, s: str) -> None:
        if g:
            emit("if x:")
            emit(s, 1)
        else:
            emit(s)

    for i, t in enumerate(toks, 1):
        op = t["op"]
        if op == "print":
            emit("print(%d)" % i)
        elif op == "ret":
            guarded(t["g"], "return %d" % (100 + i))
        elif op == "raise":
            guarded(t["g"], "raise %s(%d)" % (EXC_NAME[t["a"]], i))
        elif op == "craise":
            emit("boom_%s(%d)" % (t["a"], i))
        elif op == "reraise":
            guarded(t["g"], "raise")
        elif op == "break":
            guarded(t["g"], "break")
        elif op == "cont":
            guarded(t["g"], "continue")
        elif op == "try":
            emit("try:")
            kinds.append(("try", i))
            ind += 1
        elif op in ("except", "else", "finally", "lelse"):
            ind -= 1
            emit({"except": "except %s:" % PAT_NAME.get(t["a"], ""), "else": "else:", "finally": "finally:",
                  "lelse": "else:"}[op])
            ind += 1
        elif op == "loop":
            v = "i%d" % i
            if t["a"] == "for":
                emit("for %s in range(%d):" % (v, t["n"]))
                ind += 1
            else:
                emit("%s = 0" % v)
                emit("while %s < %d:" % (v, t["n"]))
                ind += 1
                emit("%s += 1" % v)
            kinds.append(("loop", i))
        elif op == "def":
            emit("def g%d() -> int:" % i)
            kinds.append(("def", i))
            ind += 1
        elif op == "end":
            k, at = kinds.pop()
            if k == "def":
                emit("return 0")
                ind -= 1
                emit("print(g%d())" % at)
            else:
                ind -= 1
        else:
            raise MachineryError("unknown token %r" % (t,))
    emit("return 0")
    if kinds or ind != 1:
        raise MachineryError("unbalanced program %s" % tokstr(toks))
    return lines


def cf_expected(row: dict[str, Any]) -> tuple[str, list[str]]:
    """The specification's prediction in the runner's vocabulary."""
    out = "".join("%d\n" % k for k in row["out"])
    r = row["r"]
    if r["k"] == "return":
        return out, ["ret", repr(r["v"])]
    if r["e"] == "R":
        return out, ["exc", "RuntimeError", "No active exception to reraise"]
    return out, ["exc", EXC_NAME[r["e"]], str(r["v"])]


def cf_module(progs: list[list[dict[str, Any]]], first: int = 0) -> str:
    lines = ["from %s import boom_V, boom_K" % LIB, "", ""]
    for n, toks in enumerate(progs):
        lines += cf_render(toks, "f%d" % (first + n)) + ["", ""]
    return "\n".join(lines)


# =========================================================================== building and running
SETUP_PY = """\
from setuptools import setup
from mypyc.build import mypycify
setup(name='c05gen', ext_modules=mypycify(%(paths)r, opt_level=%(opt)r, debug_level='0',
                                          multi_file=%(multi)r, separate=%(sep)r))
"""
MODES = {"single": (False, False), "multi_file": (True, False), "separate": (False, True)}
_RE_DIAG = re.compile(r"^(\w+)\.py:(\d+): error: (.*)$")


class BuildResult:
    def __init__(self) -> None:
        self.ok = False
        self.diags: list[tuple[str, int, str]] = []   # (module, line, message) reported by mypyc
        self.crash = ""                                # last line of a Python traceback of the front end
        self.cc_error = ""                             # C compiler failure
        self.log = ""
        self.wall = 0.0
        self.rundir = ""


def frontend_only(d: str, mods: dict[str, str]) -> BuildResult:
    """mypyc's front end + C generation without running the C compiler (compile screening)."""
    return build(d, mods, "0", "single", cc=False)


def build(d: str, mods: dict[str, str], opt: str, mode: str, cc: bool = True) -> BuildResult:
    """Compile the modules with the working tree's mypyc in directory d (created); on success the
    extension modules (and nothing else importable) are in res.rundir."""
    res = BuildResult()
    bd = os.path.join(d, "build")
    os.makedirs(bd, exist_ok=True)
    for name, src in mods.items():
        with open(os.path.join(bd, name + ".py"), "w", encoding="utf-8") as f:
            f.write(src)
    multi, sep = MODES[mode]
    with open(os.path.join(bd, "setup.py"), "w") as f:
        f.write(SETUP_PY % dict(paths=[n + ".py" for n in sorted(mods)], opt=opt, multi=multi, sep=sep))
    cmd = [PY, "setup.py", "build_ext", "--inplace"] if cc else \
        [PY, "-c", "import sys; sys.argv=['setup.py','--version']; exec(open('setup.py').read())"]
    t0 = time.time()
    try:
        p = subprocess.run(cmd, cwd=bd, env=repo_env({"MYPY_CACHE_DIR": os.path.join(bd, ".mypy_cache")}),
                           capture_output=True, text=True, timeout=3000, preexec_fn=_limit_memory)
    except subprocess.TimeoutExpired:
        res.log = "timeout"
        res.cc_error = "timeout"
        return res
    res.wall = time.time() - t0
    res.log = (p.stdout + "\n" + p.stderr)[-6000:]
    for line in (p.stdout + "\n" + p.stderr).splitlines():
        m = _RE_DIAG.match(line.strip())
        if m:
            res.diags.append((m.group(1), int(m.group(2)), m.group(3)))
    if p.returncode != 0:
        if not res.diags:
            tb = [l for l in p.stderr.splitlines() if l.strip()]
            if "Traceback (most recent call last)" in p.stderr and not any("error: command" in l for l in tb):
                res.crash = tb[-1].strip() if tb else "?"
            else:
                res.cc_error = "\n".join(tb[-15:])
        return res
    if not cc:
        res.ok = True
        return res
    rd = os.path.join(d, "run")
    os.makedirs(rd, exist_ok=True)
    sos = [f for f in os.listdir(bd) if f.endswith(".so")]
    for f in sos:
        shutil.move(os.path.join(bd, f), os.path.join(rd, f))
    missing = [n for n in mods if not any(f.startswith(n + ".") for f in sos)]
    if missing:
        res.cc_error = "no extension module produced for %s" % missing
        return res
    res.ok = True
    res.rundir = rd
    return res


def run_child(rd: str, plan: dict[str, Any], kind: str, timeout: int = 1800) -> dict[str, Any]:
    """Run the call plan in a child; kind = 'interp' | 'compiled'."""
    if not rd or not os.path.isdir(rd):
        raise MachineryError("run directory %r does not exist" % rd)
    shutil.copyfile(RUNNER_SRC, os.path.join(rd, "c05_runner.py"))
    with open(os.path.join(rd, "plan.json"), "w") as f:
        json.dump(plan, f)
    env = dict(os.environ)
    env.pop("PYTHONPATH", None)
    env["PYTHONDONTWRITEBYTECODE"] = "1"
    env["PYTHONHASHSEED"] = "0"
    try:
        p = subprocess.run([PY, "c05_runner.py", kind], cwd=rd, env=env, capture_output=True, text=True, timeout=timeout)
        rc, so, se = p.returncode, p.stdout, p.stderr
    except subprocess.TimeoutExpired as e:
        rc, so, se = -999, (e.stdout or b"").decode() if isinstance(e.stdout, bytes) else (e.stdout or ""), "timeout"
    results: dict[str, Any] = {}
    begun = None
    done = False
    loaded = None
    for line in so.splitlines():
        if line.startswith("BEGIN "):
            begun = line[6:]
        elif line.startswith("RESULT "):
            cid, out, r = json.loads(line[7:])
            results[cid] = (out, r)
            begun = None
        elif line.startswith("LOADED "):
            loaded = json.loads(line[7:])
        elif line == "DONE":
            done = True
    return dict(results=results, rc=rc, done=done, died_in=None if done else (begun or "<import>"),
                loaded=loaded, stderr=se[-1500:], stdout_tail=so[-300:])


def interp_dir(d: str, mods: dict[str, str]) -> str:
    rd = os.path.join(d, "interp")
    os.makedirs(rd, exist_ok=True)
    for name, src in mods.items():
        with open(os.path.join(rd, name + ".py"), "w", encoding="utf-8") as f:
            f.write(src)
    return rd


SCREEN_SRC = os.path.join(HERE, "c05_screen.py")


def _limit_memory() -> None:
    """Children (mypyc, the C compiler) may not take the shared machine down."""
    import resource
    resource.setrlimit(resource.RLIMIT_AS, (MEM_LIMIT, MEM_LIMIT))


def screen(d: str, mods: dict[str, str], units: dict[str, dict[str, str]], each: list[str] | None = None) -> dict[str, Any]:
    """Which units does the tree's mypyc accept?  {module: {unit: ["ok"] | ["error", msgs] | ["crash", text]}}"""
    os.makedirs(d, exist_ok=True)
    for name, src in mods.items():
        with open(os.path.join(d, name + ".py"), "w", encoding="utf-8") as f:
            f.write(src)
    up = os.path.join(d, "units.json")
    with open(up, "w") as f:
        json.dump(units, f)
    p = subprocess.run([PY, SCREEN_SRC, d, up, ",".join(each or [])], cwd=d, env=repo_env({"MYPY_CACHE_DIR": os.path.join(d, ".mypy_cache")}),
                       capture_output=True, text=True, timeout=3000, preexec_fn=_limit_memory)
    for line in reversed(p.stdout.splitlines()):
        if line.startswith("SCREEN "):
            return json.loads(line[7:])
    raise MachineryError("compile screening failed: rc=%s\n%s" % (p.returncode, (p.stdout + p.stderr)[-2500:]))


# =========================================================================== (2) argument binding
AB_NAMES = "abcd"
AB_ERRBITS = {"dupkw": 1, "toomany": 2, "multiple": 4, "posonly": 8, "unexpected": 16, "missingpos": 32, "missingkw": 64}
AB_CLASSES = [
    (re.compile(r"got multiple values for keyword argument"), "dupkw"),
    (re.compile(r"got multiple values for argument"), "multiple"),
    (re.compile(r"takes (from )?\d+ (to \d+ )?positional arguments? but \d+ "), "toomany"),
    (re.compile(r"got some positional-only arguments passed as keyword arguments"), "posonly"),
    (re.compile(r"got an unexpected keyword argument"), "unexpected"),
    (re.compile(r"missing \d+ required positional argument"), "missingpos"),
    (re.compile(r"missing \d+ required keyword-only argument"), "missingkw"),
]


def ab_sig_text(sig: list[dict[str, Any]], fname: str) -> list[str]:
    """A function with this signature that returns everything it was given."""
    parts = []
    kinds = [p["k"] for p in sig]
    for i, p in enumerate(sig):
        nm, k = AB_NAMES[i], p["k"]
        if k == "KO" and "VA" not in kinds and (i == 0 or kinds[i - 1] != "KO"):
            parts.append("*")
        if k == "VA":
            parts.append("*%s: int" % nm)
        elif k == "VK":
            parts.append("**%s: int" % nm)
        else:
            parts.append("%s: int%s" % (nm, " = %d" % -(i + 1) if p["d"] else ""))
        if k == "PO" and (i + 1 == len(sig) or kinds[i + 1] != "PO"):
            parts.append("/")
    ret = "(%s)" % "".join(AB_NAMES[i] + ", " for i in range(len(sig)))
    return ["def %s(%s) -> object:" % (fname, ", ".join(parts)), "    return %s" % ret]


def ab_sig_show(sig: list[dict[str, Any]]) -> str:
    return ab_sig_text(sig, "f")[0][4:-11]


def ab_call_args(call: list[dict[str, Any]]) -> str:
    """The call's argument list with distinguishable literal values."""
    parts = []
    for i, a in enumerate(call):
        k = a["k"]
        base = 10 * (i + 1)
        if k == "P":
            parts.append(str(base))
        elif k == "K":
            parts.append("%s=%d" % (a["n"], base))
        elif k == "S":
            parts.append("*(%s)" % "".join("%d, " % (base + j + 1) for j in range(a["l"])))
        else:
            parts.append("**{%s}" % ", ".join("'%s': %d" % (n, base + j + 1) for j, n in enumerate(sorted(a["ks"]))))
    return ", ".join(parts)


def ab_module(sigs: list[Any]) -> str:
    lines: list[str] = []
    for i, s in enumerate(sigs):
        lines += ab_sig_text(s, "s%d" % i) + ["", ""]
    return "\n".join(lines)


def ab_class(msg: str) -> str:
    for rx, cls in AB_CLASSES:
        if rx.search(msg):
            return cls
    return "other"


# =========================================================================== (3) method resolution
def mr_unit(u: int, row: dict[str, Any]) -> tuple[list[str], dict[str, str], list[tuple[str, str, str]]]:
    """Source lines, top-level names, and calls [(id, expression, expected repr)] of one hierarchy."""
    b, ms, ps, tr, lin, ch, pr = (row[k] for k in ("b", "ms", "ps", "tr", "lin", "ch", "pr"))
    n = len(b)
    cn = lambda c: "U%dC%d" % (u, c)  # noqa: E731
    lines: list[str] = []
    names: dict[str, str] = {}
    uid = "u%d" % u
    for c in range(1, n + 1):
        if tr[c - 1]:
            lines.append("@trait")
        lines.append("class %s%s:" % (cn(c), "(%s)" % ", ".join(cn(x) for x in b[c - 1]) if b[c - 1] else ""))
        names[cn(c)] = uid
        body = False
        if ms[c - 1] != "none":
            lines.append("    def m(self) -> str:")
            lines.append("        return '%d'" % c if ms[c - 1] == "plain" else "        return '%d,' + super().m()" % c)
            body = True
        if ps[c - 1]:
            lines += ["    @property", "    def p(self) -> int:", "        return %d" % c]
            body = True
        if not body:
            lines.append("    pass")
        lines += ["", ""]
    calls: list[tuple[str, str, str]] = []
    has_m = lambda s: any(ms[x - 1] != "none" for x in lin[s - 1])  # noqa: E731
    has_p = lambda s: any(ps[x - 1] for x in lin[s - 1])  # noqa: E731
    for s in range(1, n + 1):
        if has_m(s):
            lines += ["def u%d_m_as%d(o: %s) -> str:" % (u, s, cn(s)), "    return o.m()", "", ""]
            names["u%d_m_as%d" % (u, s)] = uid
        if has_p(s):
            lines += ["def u%d_p_as%d(o: %s) -> int:" % (u, s, cn(s)), "    return o.p", "", ""]
            names["u%d_p_as%d" % (u, s)] = uid
    for c in range(1, n + 1):
        if tr[c - 1]:
            continue
        lines += ["def u%d_new%d() -> %s:" % (u, c, cn(c)), "    return %s()" % cn(c), "", ""]
        names["u%d_new%d" % (u, c)] = uid
        want_m = repr(",".join(str(x) for x in ch[c - 1]))
        if ch[c - 1]:
            calls.append(("u%d:c%d.m" % (u, c), "m.u%d_new%d().m()" % (u, c), want_m))
        if pr[c - 1]:
            calls.append(("u%d:c%d.p" % (u, c), "m.u%d_new%d().p" % (u, c), repr(pr[c - 1])))
        for s in lin[c - 1]:
            if has_m(s):
                calls.append(("u%d:c%d.m/as%d" % (u, c, s), "m.u%d_m_as%d(m.u%d_new%d())" % (u, s, u, c), want_m))
            if has_p(s):
                calls.append(("u%d:c%d.p/as%d" % (u, c, s), "m.u%d_p_as%d(m.u%d_new%d())" % (u, s, u, c), repr(pr[c - 1])))
    return lines, names, calls


def mr_show(row: dict[str, Any]) -> str:
    parts = []
    for c, bs in enumerate(row["b"], 1):
        s = "%sC%d(%s)" % ("trait " if row["tr"][c - 1] else "", c, ",".join("C%d" % x for x in bs))
        d = []
        if row["ms"][c - 1] != "none":
            d.append("m" if row["ms"][c - 1] == "plain" else "m+super")
        if row["ps"][c - 1]:
            d.append("p")
        parts.append(s + "{" + ",".join(d) + "}")
    return "; ".join(parts)


def mr_module(rows: list[dict[str, Any]]) -> tuple[str, dict[str, str], list[tuple[str, str, str]]]:
    lines = ["from mypy_extensions import trait", "", ""]
    names: dict[str, str] = {}
    calls: list[tuple[str, str, str]] = []
    for u, row in enumerate(rows):
        l, nm, cs = mr_unit(u, row)
        lines += l
        names.update(nm)
        calls += cs
    return "\n".join(lines), names, calls


# =========================================================================== TLC jobs
CF_INVARIANTS = ["HandledMirrorsStack", "FinallyAlwaysRuns", "JumpTargetsExist", "StructuredFlow", "ResultShape",
                 "Terminates", "Completable"]


def cf_jobs(tier: str, seed: int) -> list[dict[str, Any]]:
    """name -> TLC run.  `take`: how many of the emitted programs are compiled (None = all; the rest
    is validated against CPython only); `frontier`: most programs are outside what mypyc compiles."""
    sim = lambda n, d=150: dict(simulate="num=%d" % n, depth=d, seed=seed * 7919 + 17)  # noqa: E731
    q = tier == "quick"
    jobs = [
        dict(cfg="Gen_CtrlFlow_T5.cfg", take=None),
        # two except clauses / an else clause need 7 tokens: always compiled; the seed samples the rest
        dict(cfg="Gen_CtrlFlow_H7.cfg", take=150 if q else None,
             must=lambda toks: sum(t["op"] == "except" for t in toks) >= 2 or any(t["op"] == "else" for t in toks)),
        dict(cfg="Gen_CtrlFlow_L7g.cfg", take=150 if q else None, nocov=q,
             must=lambda toks: any(t["op"] == "lelse" for t in toks) and any(t["op"] == "break" for t in toks)),
        dict(cfg="Gen_CtrlFlow_D7g.cfg", take=150 if q else None),
        dict(cfg="Gen_CtrlFlow_Sim.cfg", take=250 if q else 3000, kw=sim(300 if q else 4000)),
        dict(cfg="Gen_CtrlFlow_Frontier.cfg", take=60 if q else 500, kw=sim(70 if q else 600), frontier=True),
        dict(cfg="MC_CtrlFlow_F6.cfg", take=0),
    ]
    if not q:
        jobs += [
            dict(cfg="Gen_CtrlFlow_T6.cfg", take=2000),
            dict(cfg="Gen_CtrlFlow_E7.cfg", take=2000),
            dict(cfg="Gen_CtrlFlow_L7.cfg", take=1500),
            dict(cfg="Gen_CtrlFlow_D7.cfg", take=1500),
            dict(cfg="MC_CtrlFlow_L8.cfg", take=0),
            dict(cfg="MC_CtrlFlow_D8.cfg", take=0),
        ]
    return jobs


def ab_cfgs(tier: str) -> list[str]:
    return ["Gen_ArgBind_C05_3x2.cfg"] if tier == "quick" else ["Gen_ArgBind_C05_3x3.cfg", "Gen_ArgBind_C05_4x2.cfg"]


def start_tlc_jobs(tier: str, seed: int, ex: ThreadPoolExecutor) -> dict[str, Any]:
    """Submit all TLC runs of the tier (4 at a time, TLC_WORKERS workers in total); cfg -> future."""
    jobs: list[tuple[str, str, dict[str, Any]]] = []
    for c in ab_cfgs(tier):
        jobs.append(("MC_ArgBind", c, dict(coverage=True)))
    n = 3 if tier == "quick" else 4
    jobs.append(("MC_Dispatch", "Gen_Dispatch_3.cfg", dict(coverage=False)))
    jobs.append(("MC_Dispatch", "Gen_Dispatch_4m.cfg" if tier == "quick" else "Gen_Dispatch_4.cfg", dict(coverage=False)))
    big = ("L8", "D8", "E7", "T6", "L7.", "D7.")
    cf = []
    for j in cf_jobs(tier, seed):
        kw = dict(j.get("kw") or {})
        cf.append(("MC_CtrlFlow", j["cfg"], dict(deadlock=not kw, coverage=not kw and not j.get("nocov"), **kw)))
    cf.sort(key=lambda j: 0 if any(b in j[1] for b in big) else 1)   # longest first
    jobs += cf
    jobs.append(("MC_Slots", "Gen_Slots.cfg", dict(coverage=True)))
    jobs.append(("MC_IterMut", "Gen_IterMut.cfg", dict(coverage=True)))
    jobs.append(("MC_Slots", "Mut_Slots_HashMinusOne.cfg", dict(coverage=False)))
    jobs.append(("MC_IterMut", "Mut_IterMut_GrowthUnnoticed.cfg", dict(coverage=False)))
    jobs.append(("MC_Dispatch", "MC_Dispatch_%d.cfg" % n, dict(coverage=True)))
    jobs.append(("MC_CtrlFlow", "Mut_CtrlFlow_NoOverride.cfg", dict(deadlock=True, coverage=False)))
    jobs.append(("MC_Dispatch", "Mut_Dispatch_StaticSuper.cfg", dict(coverage=False)))
    per = max(1, TLC_WORKERS // 4)

    def one(j: tuple[str, str, dict[str, Any]]) -> Any:
        mod, cfg, kw = j
        return tlc(mod, cfg, workers=per, timeout=2400, heap="3g", **kw)

    return {j[1]: ex.submit(one, j) for j in jobs}


def need_ok(r: Any, cfg: str) -> None:
    if not r.ok:
        raise MachineryError("TLC %s: violated=%s error=%s\n%s" % (cfg, r.violated, r.error, (r.trace_text or r.out)[-1500:]))


# =========================================================================== comparison
class Part:
    """One unit of compiled-vs-interpreted comparison: a set of modules built together + a call plan."""

    def __init__(self, name: str) -> None:
        self.name = name
        self.mods: dict[str, str] = {}
        self.units: dict[str, dict[str, str]] = {}            # module -> top-level name -> unit (screened modules)
        self.calls: list[list[str]] = []                      # [id, module, expression]
        self.unit_of_call: dict[str, tuple[str, str]] = {}    # call id -> (module, unit)
        self.info: dict[str, Any] = {}                        # call id -> description for reports
        self.each_mods: list[str] = []                        # modules whose units are screened one by one


def strip_units(src: str, names: set[str]) -> str:
    """Module text without the top-level definitions called `names` (rejected units)."""
    out: list[str] = []
    skip = False
    pending: list[str] = []
    for line in src.split("\n"):
        top = bool(line) and not line[0].isspace()
        if top:
            m = re.match(r"(?:def|class) (\w+)", line)
            if line.startswith("@"):
                pending.append(line)
                continue
            skip = bool(m and m.group(1) in names)
            if not skip:
                out += pending
            pending = []
        if not skip:
            out.append(line)
    return "\n".join(out)


def static_chain(row: dict[str, Any], c: int) -> list[int]:
    """What `o.m()` runs if super() in the body defined by d continued along d's OWN linearisation
    (used only to recognise one known finding; never to decide anything)."""
    lin, ms = row["lin"], row["ms"]
    ds = [k for k in lin[c - 1] if ms[k - 1] != "none"]
    if not ds:
        return []
    ch = [ds[0]]
    while ms[ch[-1] - 1] == "super":
        own = [k for k in lin[ch[-1] - 1] if ms[k - 1] != "none"]
        if len(own) < 2:
            break
        ch.append(own[1])
    return ch


def make_cf_parts(name: str, progs: list[tuple[str, list[Any], dict[int, Any]]], per_mod: int, mods_per_part: int,
                  frontier: list[tuple[str, list[Any], dict[int, Any]]] | None = None, compile_: bool = True) -> list[Part]:
    """progs: (key, tokens, {x: emitted row}); frontier programs go to modules cx* of the first part."""
    parts: list[Part] = []

    def add_module(part: Part, mod: str, sub: list[tuple[str, list[Any], dict[int, Any]]]) -> None:
        part.mods[mod] = cf_module([t for _, t, _ in sub])
        part.units[mod] = {"f%d" % i: "f%d" % i for i in range(len(sub))}
        for i, (key, toks, rows) in enumerate(sub):
            for x in sorted(rows):
                cid = "%s:f%d:%d" % (mod, i, x)
                part.calls.append([cid, mod, "m.f%d(%d)" % (i, x)])
                part.unit_of_call[cid] = (mod, "f%d" % i)
                eo, er = cf_expected(rows[x])
                part.info[cid] = dict(kind="cf", key=key, tokens=toks, x=x, expect=[eo, er], spec_r=rows[x]["r"])

    for pi in range(0, max(1, len(progs)), per_mod * mods_per_part):
        part = Part("%s%d" % (name, len(parts)))
        part.info["compile"] = compile_
        part.mods[LIB] = LIB_SRC
        chunk = progs[pi:pi + per_mod * mods_per_part]
        for mi in range(0, len(chunk), per_mod):
            add_module(part, "cf%d" % (mi // per_mod), chunk[mi:mi + per_mod])
        if frontier and not parts:
            for mi in range(0, len(frontier), per_mod):
                mod = "cx%d" % (mi // per_mod)
                add_module(part, mod, frontier[mi:mi + per_mod])
                part.each_mods.append(mod)
        if part.calls:
            parts.append(part)
    return parts


def make_ab_mr_part(name: str, sigs: list[Any], calls: list[Any], units: list[dict[str, Any]], per_mod: int = 60) -> Part:
    part = Part(name)
    part.info["compile"] = True
    if sigs:
        part.mods["ab0"] = ab_module(sigs)
        for ci, c in enumerate(calls):
            args = ab_call_args(c["c"])
            for si in range(len(sigs)):
                cid = "ab:%d:%d" % (si, ci)
                part.calls.append([cid, "ab0", "m.s%d(%s)" % (si, args)])
                part.info[cid] = dict(kind="ab", sig=sigs[si], call=c["c"], mask=c["v"][si])
    for mi in range(0, len(units), per_mod):
        mod = "mr%d" % (mi // per_mod)
        sub = units[mi:mi + per_mod]
        src, names, mcalls = mr_module(sub)
        part.mods[mod] = src
        part.units[mod] = names
        for cid, expr, want in mcalls:
            full = "%s:%s" % (mod, cid)
            u = int(cid.split(":")[0][1:])
            part.calls.append([full, mod, expr])
            part.unit_of_call[full] = (mod, "u%d" % u)
            part.info[full] = dict(kind="mr", row=sub[u], what=cid.split(":", 1)[1], expect=["", ["ret", want]])
    return part


def make_extra_part(name: str, kind: str, items: list[dict[str, Any]], per_mod: int) -> Part:
    """kind "sl": items are class shapes of Slots.tla; kind "im": programs of IterMut.tla."""
    part = Part(name)
    part.info["compile"] = True
    for mi in range(0, len(items), per_mod):
        mod = "%s%d" % (kind, mi // per_mod)
        sub = items[mi:mi + per_mod]
        src, names, calls = (X.sl_module if kind == "sl" else X.im_module)(sub)
        part.mods[mod] = src
        part.units[mod] = names
        for cid, expr, want, op, caller, ui in calls:
            full = "%s:%s" % (mod, cid)
            part.calls.append([full, mod, expr])
            part.unit_of_call[full] = (mod, cid.split(":")[0])
            part.info[full] = dict(kind=kind, item=sub[ui], op=op, caller=caller, want=want)
    return part


def show_item(inf: dict[str, Any]) -> str:
    """One-line description of the input a call belongs to."""
    k = inf["kind"]
    if k == "cf":
        return inf["key"]
    if k == "mr":
        return mr_show(inf["row"])
    if k == "ab":
        return "def f%s <- (%s)" % (ab_sig_show(inf["sig"]), ab_call_args(inf["call"]))
    if k == "sl":
        return X.sl_show(inf["item"])
    return X.im_show(inf["item"])


def drift_of(part: Part, res: dict[str, Any]) -> list[str]:
    """Specification vs CPython on every call of the part."""
    bad: list[str] = []
    for cid, _mod, _e in part.calls:
        got = res.get(cid)
        inf = part.info[cid]
        if got is None:
            bad.append("%s: no CPython result" % cid)
            continue
        out, r = got
        if inf["kind"] in ("sl", "im"):
            # value: repr must agree; exception: the type (the message is CPython's own business here)
            if out != "" or r[:2] != inf["want"][:2]:
                bad.append("%s %s %s/%s: spec %r, CPython %r" % (inf["kind"], show_item(inf), inf["op"], inf["caller"], inf["want"], r))
        elif inf["kind"] == "ab":
            mask = inf["mask"]
            ok = (mask == 0) if r[0] == "ret" else (r[1] == "TypeError" and (AB_ERRBITS.get(ab_class(r[2]), 0) & mask) != 0)
            if not ok:
                bad.append("argbind %s <- (%s): spec mask %d, CPython %r" % (ab_sig_show(inf["sig"]), ab_call_args(inf["call"]), mask, r))
        elif [out, r] != inf["expect"]:
            what = inf["key"] + " x=%d" % inf["x"] if inf["kind"] == "cf" else mr_show(inf["row"]) + " " + inf["what"]
            bad.append("%s: spec %r, CPython %r" % (what, inf["expect"], [out, r]))
    return bad


def run_compiled(rd: str, plan: dict[str, Any]) -> tuple[dict[str, Any], list[tuple[str, int, str]], str | None]:
    """Run the plan against the extension modules; a call during which the child dies is recorded and
    skipped in a re-run.  Returns (results, [(call id, return code, stderr tail)], fatal)."""
    plan = dict(plan)
    skip: list[str] = []
    died: list[tuple[str, int, str]] = []
    results: dict[str, Any] = {}
    for _ in range(120):
        plan["skip"] = skip + list(results)
        r = run_child(rd, plan, "compiled")
        results.update(r["results"])
        if r["done"]:
            return results, died, None
        if r["rc"] == 3 or r["died_in"] == "<import>":
            return results, died, "import of the compiled modules failed: rc=%s %s %s" % (r["rc"], r["stdout_tail"], r["stderr"][-600:])
        died.append((r["died_in"], r["rc"], r["stderr"][-400:]))
        skip.append(r["died_in"])
    return results, died, None


BUILD_SEM: Any = None


def process_part(part: Part, root: str, configs: list[tuple[str, str]], check_drift: bool = True) -> dict[str, Any]:
    """CPython baseline + specification validation, compile screening, builds, compiled runs."""
    d = os.path.join(root, part.name)
    os.makedirs(d, exist_ok=True)
    rep: dict[str, Any] = dict(part=part.name, drift=[], rejected={}, builds=[], compared=0, diffs=[], fatal=None,
                               calls=len(part.calls), t={})
    plan = dict(modules=[m for m in sorted(part.mods) if m != LIB], ns={}, calls=part.calls, prelude=X.PRELUDE)
    t0 = time.time()
    ri = run_child(interp_dir(d, part.mods), plan, "interp")
    rep["t"]["interp"] = round(time.time() - t0, 1)
    if not ri["done"]:
        rep["fatal"] = "CPython run of %s did not finish: rc=%s %s" % (part.name, ri["rc"], ri["stderr"][-800:])
        return rep
    rep["drift"] = drift_of(part, ri["results"]) if check_drift else []
    rep["interp"] = ri["results"]
    if not part.info.get("compile") or rep["drift"]:
        return rep
    # ---- which units are inside the premise "mypyc compiles"
    t0 = time.time()
    with BUILD_SEM:
        s = screen(os.path.join(d, "screen"), part.mods, part.units, part.each_mods)
    rep["t"]["screen"] = round(time.time() - t0, 1)
    if "__fatal__" in s or "__type_errors__" in s:
        rep["fatal"] = "generated modules of %s do not type-check: %r" % (part.name, s)
        return rep
    rep["screen_stats"] = s.pop("__stats__", None)
    mods = dict(part.mods)
    rejected: set[tuple[str, str]] = set()
    for mod, verdicts in s.items():
        for u, v in verdicts.items():
            if v[0] != "ok":
                rejected.add((mod, u))
                rep["rejected"][mod + ":" + u] = v
        names = {n for n, u in part.units.get(mod, {}).items() if (mod, u) in rejected}
        if names:
            mods[mod] = strip_units(mods[mod], names)
    calls = [c for c in part.calls if part.unit_of_call.get(c[0]) not in rejected]
    plan = dict(modules=plan["modules"], ns={}, calls=calls, prelude=X.PRELUDE)
    rep["calls_compiled"] = len(calls)
    # ---- builds
    for opt, mode in configs:
        tag = "O%s-%s" % (opt, mode)
        t0 = time.time()
        with BUILD_SEM:
            b = build(os.path.join(d, "b-" + tag), mods, opt, mode)
        binfo = dict(config=tag, ok=b.ok, wall=round(b.wall, 1))
        rep["builds"].append(binfo)
        if not b.ok:
            rep["fatal"] = "build %s of %s failed although every unit passed screening: diags=%r crash=%r cc=%s" % (
                tag, part.name, b.diags[:5], b.crash, b.cc_error[-1200:])
            return rep
        results, died, fatal = run_compiled(b.rundir, plan)
        binfo["run_wall"] = round(time.time() - t0 - b.wall, 1)
        if fatal:
            rep["fatal"] = "%s %s: %s" % (part.name, tag, fatal)
            return rep
        dead = {cid: (rc, err) for cid, rc, err in died}
        for cid, _m, _e in calls:
            want = ri["results"][cid]
            if cid in dead:
                rep["diffs"].append(dict(cid=cid, config=tag, kind="crash", interp=want, compiled=None,
                                         detail="child died with status %s: %s" % dead[cid]))
                continue
            got = results.get(cid)
            rep["compared"] += 1
            if got is None:
                rep["diffs"].append(dict(cid=cid, config=tag, kind="missing", interp=want, compiled=None, detail=""))
            elif [got[0], got[1]] != [want[0], want[1]]:
                kind = "stdout" if got[0] != want[0] else ("exception" if "exc" in (got[1][0], want[1][0]) else "value")
                rep["diffs"].append(dict(cid=cid, config=tag, kind=kind, interp=want, compiled=got, detail=""))
        # a disagreement is run once more, alone in a fresh process, before it is reported (it stays a
        # disagreement either way: state leaked by earlier calls of the same process is compiled code's doing)
        fresh = [dd for dd in rep["diffs"] if dd["config"] == tag and dd["compiled"] is not None]
        if 0 < len(fresh) <= 2000:
            ids = {dd["cid"] for dd in fresh}
            again = run_child(b.rundir, dict(plan, calls=[c for c in calls if c[0] in ids]), "compiled")
            for dd in fresh:
                g2 = again["results"].get(dd["cid"])
                if g2 is None or [g2[0], g2[1]] != [dd["compiled"][0], dd["compiled"][1]]:
                    dd["detail"] += " [in a fresh process running only the disagreeing calls: %r]" % (g2,)
        shutil.rmtree(os.path.join(d, "b-" + tag, "build"), ignore_errors=True)
    return rep


# =========================================================================== verdicts
KNOWN_RERAISE = "cf:bare-raise-without-active-exception"
KNOWN_SUPER = "mr:super-bound-statically"
KNOWN_AB_TEXT = "ab:binding-TypeError-message-text"
KNOWN_AB_POSONLY = "ab:positional-only-parameter-treated-as-positional-or-keyword"
KNOWN_SL_NEGLEN = "sl:negative-__len__-not-rejected"
KNOWN_SL_BIGLEN = "sl:__len__-beyond-ssize_t"
KNOWN_SL_BIGHASH = "sl:__hash__-beyond-ssize_t-not-reduced"
KNOWN_SL_INGETITEM = "sl:in-ignores-__getitem__-sequence-protocol"
KNOWN_SL_ITEMERR = "sl:missing-__setitem__-or-__delitem__-error"
KNOWN_SL_BINOP = "sl:binary-operator-wrapper-dispatch"
KNOWN_SL_BINOP_TEXT = "sl:binary-operator-TypeError-wording"


def classify(part: Part, diff: dict[str, Any]) -> tuple[str, str, dict[str, Any], int]:
    """(key, one-line description, replay payload, size for minimality ordering) of one disagreement."""
    inf = part.info[diff["cid"]]
    cfgs = diff["config"]
    i, c = diff["interp"], diff["compiled"]
    if inf["kind"] == "cf":
        src = "\n".join(cf_render(inf["tokens"], "f"))
        key = "cf:%s:x=%d:%s" % (inf["key"], inf["x"], diff["kind"])
        if (inf["spec_r"]["k"] == "raise" and inf["spec_r"]["e"] == "R" and diff["kind"] == "exception" and c[0] == i[0]
                and c[1][:2] == ["exc", "TypeError"] and "NoneType" in c[1][2]):
            key = KNOWN_RERAISE
        what = "f(%d) of [%s] (%s): interpreted %r, compiled %r %s" % (inf["x"], inf["key"], cfgs, i, c, diff["detail"])
        return key, what, dict(kind="cf", tokens=inf["tokens"], x=inf["x"], config=cfgs, source=src, interp=i, compiled=c), len(inf["tokens"])
    if inf["kind"] == "mr":
        row = inf["row"]
        key = "mr:%s:%s:%s" % (mr_show(row), inf["what"], diff["kind"])
        mm = re.match(r"c(\d+)\.m", inf["what"])
        if mm and diff["kind"] == "value" and c is not None and c[1] == ["ret", repr(",".join(str(k) for k in static_chain(row, int(mm.group(1)))))]:
            key = KNOWN_SUPER
        src = "\n".join(mr_unit(0, row)[0])
        what = "%s of [%s] (%s): interpreted %r, compiled %r %s" % (inf["what"], mr_show(row), cfgs, i, c, diff["detail"])
        return key, what, dict(kind="mr", row=row, what=inf["what"], config=cfgs, source=src, interp=i, compiled=c), 10 * len(row["b"]) + sum(len(b) for b in row["b"])
    if inf["kind"] == "im":
        row = inf["item"]
        key = "im:%s:%s:%s" % (X.im_show(row), inf["op"], diff["kind"])
        if c is not None and c[0] == i[0] and c[1][0] == "ret":
            for k, pred in X.im_known(row).items():
                if c[1][1] == repr(pred):
                    key = k
        src = "\n".join(X.im_unit(0, row)[0])
        what = "%s (%s) of [%s] (%s): interpreted %r, compiled %r %s" % (
            inf["op"], "container passed in from interpreted code" if inf["op"] == "passed" else "container built by compiled code",
            X.im_show(row), cfgs, i, c, diff["detail"])
        return key, what, dict(kind="im", item=row, op=inf["op"], caller=inf["caller"], config=cfgs, source=src, interp=i, compiled=c), row["n"] * 10 + row["when"]
    if inf["kind"] == "sl":
        item = inf["item"]
        val = dict(zip(item["f"], item["v"]))
        fam, op = item["fam"], inf["op"]
        key = "sl:%s:%s/%s:%s" % (X.sl_show(item), op, inf["caller"], diff["kind"])
        wexc = i[1][0] == "exc"
        gexc = c is not None and c[1][0] == "exc"
        gtype = c[1][1] if gexc else None
        if c is not None and c[0] != i[0]:
            pass
        elif fam == "L" and val["len"] == "m1" and i[1][:2] == ["exc", "ValueError"] and (c is None or gtype == "SystemError"):
            key = KNOWN_SL_NEGLEN
        elif fam == "L" and val["len"] == "big" and i[1][:2] == ["exc", "OverflowError"] and (
                gtype == "OverflowError" or (op == "len" and inf["caller"] == "t" and c is not None and c[1] == ["ret", repr(2 ** 63)])):
            key = KNOWN_SL_BIGLEN
        elif fam == "H" and val["hash"] in ("big", "nbig") and gtype == "OverflowError" and "C ssize_t" in c[1][2]:
            key = KNOWN_SL_BIGHASH
        elif fam == "C" and op in ("in10", "in5") and val["contains"] == "none" and val["getitem"] != "none" \
                and gtype == "TypeError" and "is not iterable" in c[1][2]:
            key = KNOWN_SL_INGETITEM
        elif fam == "C" and op in ("set0", "del0") and wexc and gexc and val[{"set0": "setitem", "del0": "delitem"}[op]] == "none":
            key = KNOWN_SL_ITEMERR
        elif fam == "N" and c is not None:
            pred = X.mypyc_binop_outcome(val, op)
            got = ["exc", gtype] if gexc else ["ret", c[1][1].strip("'")]
            if got == pred:
                key = KNOWN_SL_BINOP_TEXT if (wexc and gexc and i[1][1] == gtype) else KNOWN_SL_BINOP
        src = "\n".join(X.sl_unit(0, item)[0])
        who = {"i": "performed by interpreted code", "t": "performed by compiled code (operands typed with their classes)",
               "a": "performed by compiled code (operands typed Any)"}[inf["caller"]]
        what = "%s %s on [%s] (%s): interpreted %r, compiled %r %s" % (op, who, X.sl_show(item), cfgs, i, c, diff["detail"])
        return key, what, dict(kind="sl", item=item, op=op, caller=inf["caller"], config=cfgs, source=src, interp=i, compiled=c), len(item["v"])
    sig, call = inf["sig"], inf["call"]
    key = "ab:%s <- (%s):%s" % (ab_sig_show(sig), ab_call_args(call), diff["kind"])
    if c is not None and i[1][0] == "exc" and c[1][0] == "exc" and i[1][1] == c[1][1] == "TypeError" and i[0] == c[0]:
        # both reject the call; only the wording differs
        key = KNOWN_AB_TEXT
    elif c is not None and any(p["k"] == "PO" for p in sig) and i[0] == c[0]:
        # does compiled code bind exactly as CPython binds the same signature WITHOUT the `/` marker?
        vo = ab_variant_outcome(sig, call)
        if vo[0] == c[1][0] and vo[1] == c[1][1]:
            key = KNOWN_AB_POSONLY
    what = "f(%s) with def f%s (%s): interpreted %r, compiled %r %s" % (ab_call_args(call), ab_sig_show(sig), cfgs, i, c, diff["detail"])
    return key, what, dict(kind="ab", sig=sig, call=call, config=cfgs, source="\n".join(ab_sig_text(sig, "f")), interp=i, compiled=c), len(sig) + len(call)


def ab_variant_outcome(sig: list[dict[str, Any]], call: list[dict[str, Any]]) -> list[str]:
    """CPython's outcome for the same call when the positional-only parameters are ordinary ones
    (used only to recognise one known finding)."""
    var = [dict(p, k="PK") if p["k"] == "PO" else p for p in sig]
    ns: dict[str, Any] = {}
    exec("\n".join(ab_sig_text(var, "f")), ns)
    try:
        return ["ret", repr(eval("f(%s)" % ab_call_args(call), ns))]
    except TypeError as e:
        return ["exc", "TypeError", str(e)]


MAX_REPORT = 6   # violations reported per (mechanism, symptom) class; the rest is counted


def symptom(diff: dict[str, Any], inf: dict[str, Any]) -> str:
    i, c = diff["interp"], diff["compiled"]
    r = lambda v: "-" if v is None else (v[1][0] + (":" + v[1][1] if v[1][0] == "exc" else ""))  # noqa: E731
    return "%s/%s/%s->%s" % (inf["kind"], diff["kind"], r(i), r(c))


# =========================================================================== main
def distinct_programs(rows: list[dict[str, Any]]) -> dict[str, tuple[list[Any], dict[int, Any]]]:
    progs: dict[str, tuple[list[Any], dict[int, Any]]] = {}
    for r in rows:
        progs.setdefault(tokstr(r["p"]), (r["p"], {}))[1][r["x"]] = r
    return progs


def check_spec_mutant(rows: list[dict[str, Any]]) -> int:
    """The binding of CtrlFlow.tla to CPython must be able to fail: the traces TLC emits for the
    specification-level mutant FinallyOverrides = FALSE have to disagree with CPython."""
    import io
    progs = distinct_programs(rows)
    keys = sorted(progs)
    src = LIB_SRC + "\n" + "\n".join(l for l in cf_module([progs[k][0] for k in keys]).splitlines() if not l.startswith("from "))
    ns: dict[str, Any] = {}
    exec(compile(src, "<mutant>", "exec"), ns)
    bad = 0
    for n, k in enumerate(keys):
        for x, row in progs[k][1].items():
            buf = io.StringIO()
            old, sys.stdout = sys.stdout, buf
            try:
                try:
                    r = ["ret", repr(ns["f%d" % n](x))]
                except BaseException as e:  # noqa: B902
                    r = ["exc", type(e).__name__, str(e)]
            finally:
                sys.stdout = old
            eo, er = cf_expected(row)
            if [buf.getvalue(), r] != [eo, er]:
                bad += 1
    return bad


def configs_for(tier: str, what: str) -> list[tuple[str, str]]:
    """(opt level, grouping) of the builds of a part."""
    if tier == "quick":
        return [("0", "single")]
    if what == "cf-main":
        return [("0", "single"), ("3", "single"), ("0", "multi_file"), ("0", "separate"), ("3", "separate")]
    if what in ("ab", "mr-main"):
        return [("0", "single"), ("3", "separate")]
    return [("0", "single")]


def build_cf_parts(tier: str, rnd: random.Random, runs: dict[str, Any], cov: dict[str, Any], seed: int) -> list[Part]:
    quick = tier == "quick"
    seen: set[str] = set()
    emitted_cf = 0
    leftover: list[tuple[str, list[Any], dict[int, Any]]] = []
    main_sel: list[tuple[str, list[Any], dict[int, Any]]] = []
    frontier_sel: list[tuple[str, list[Any], dict[int, Any]]] = []
    cov["programs_per_config"] = {}
    for j in cf_jobs(tier, seed):
        if j["take"] == 0:
            continue
        r = runs[j["cfg"]].result()
        need_ok(r, j["cfg"])
        rows = r.json_lines("P")
        if not rows:
            raise MachineryError("%s emitted no program" % j["cfg"])
        progs = distinct_programs(rows)
        keys = [k for k in sorted(progs) if k not in seen]
        seen.update(keys)
        emitted_cf += len(keys)
        cov["programs_per_config"][j["cfg"]] = len(keys)
        must = [k for k in keys if j.get("must") and j["must"](progs[k][0])]
        free = [k for k in keys if k not in set(must)]
        take = len(free) if j["take"] is None else min(j["take"], len(free))
        chosen = set(must) | set(free if take == len(free) else rnd.sample(free, take))
        for k in keys:
            item = (k, progs[k][0], progs[k][1])
            if k in chosen:
                (frontier_sel if j.get("frontier") else main_sel).append(item)
            else:
                leftover.append(item)
    main_sel.sort(key=lambda it: (len(it[1]), it[0]))
    parts: list[Part] = []
    # interleave so that every part gets small and large programs
    nparts = 2 if quick else max(2, (len(main_sel) + 1199) // 1200)
    for bi in range(nparts):
        for p in make_cf_parts("cf%c" % (97 + bi), main_sel[bi::nparts], 400, 100, frontier=frontier_sel if bi == 1 else None):
            p.info["configs"] = configs_for(tier, "cf-main" if bi == 0 else "cf")
            parts.append(p)
    parts += make_cf_parts("cfv", leftover, 2500, 4, compile_=False)
    cov["control_flow_programs_emitted"] = emitted_cf
    cov["control_flow_programs_compiled"] = len(main_sel) + len(frontier_sel)
    return parts


def build_abmr_parts(tier: str, rnd: random.Random, runs: dict[str, Any], cov: dict[str, Any]) -> list[Part]:
    quick = tier == "quick"
    parts: list[Part] = []
    cov["argbind"] = {}
    for abcfg in ab_cfgs(tier):
        ab = runs[abcfg].result()
        need_ok(ab, abcfg)
        sigs_l = ab.json_lines("SIGS")
        calls = ab.json_lines("CALL")
        if len(sigs_l) != 1 or not calls:
            raise MachineryError("ArgBind: TLC emitted nothing")
        emitted = len(calls)
        if len(calls) > 2500:      # all calls of <= 2 actuals, a seeded sample of the longer ones
            short = [c for c in calls if len(c["c"]) <= 2]
            longer = [c for c in calls if len(c["c"]) > 2]
            calls = short + rnd.sample(longer, 1500)
        p = make_ab_mr_part("ab" + abcfg[len("Gen_ArgBind_C05_"):-4], sigs_l[0], calls, [])
        p.info["configs"] = configs_for(tier, "ab")
        parts.append(p)
        cov["argbind"][abcfg] = dict(signatures=len(sigs_l[0]), call_shapes_emitted=emitted, call_shapes_replayed=len(calls))
    d4 = "Gen_Dispatch_4m.cfg" if quick else "Gen_Dispatch_4.cfg"
    for c in ("Gen_Dispatch_3.cfg", d4):
        need_ok(runs[c].result(), c)
    rows3 = runs["Gen_Dispatch_3.cfg"].result().json_lines("D")
    rows4 = [r for r in runs[d4].result().json_lines("D") if len(r["b"]) == 4]
    if not rows3 or not rows4:
        raise MachineryError("Dispatch: TLC emitted nothing")
    # deterministic: small hierarchies and every hierarchy in which the instance's linearisation
    # interleaves a super() chain; the seed samples the rest
    interleaved = [r for r in rows4 if not any(r["ps"]) and any(
        not r["tr"][c - 1] and static_chain(r, c) != r["ch"][c - 1] for c in range(1, 5))]
    small = [r for r in rows3 if len(r["b"]) <= 2]
    rest3 = [r for r in rows3 if len(r["b"]) == 3]
    inter_ids = {id(r) for r in interleaved}
    rest4 = [r for r in rows4 if id(r) not in inter_ids]
    n3, n4 = (30, 15) if quick else (len(rest3), 700)
    pick3 = rest3 if n3 >= len(rest3) else rnd.sample(rest3, n3)
    pick4 = rnd.sample(rest4, min(n4, len(rest4)))
    chosen_units = small + interleaved + pick3 + pick4
    cov["dispatch"] = dict(hierarchies_emitted=len(rows3) + len(rows4), compiled=len(chosen_units),
                           interleaved_super_chains=len(interleaved))
    per_part = 240
    for i in range(0, len(chosen_units), per_part):
        p = make_ab_mr_part("mr%d" % (i // per_part), [], [], chosen_units[i:i + per_part])
        p.info["configs"] = configs_for(tier, "mr-main" if i == 0 else "mr")
        parts.append(p)
    ids = {id(r) for r in chosen_units}
    others = [r for r in rows3 + rows4 if id(r) not in ids]
    for i in range(0, len(others), 4000):
        p = make_ab_mr_part("mrv%d" % (i // 4000), [], [], others[i:i + 4000], per_mod=1000)
        p.info["compile"] = False
        parts.append(p)
    return parts


IM_CORE = ("dkeys", "dvalues", "ditems", "set", "range")   # kinds with size checks / known findings: always compiled


def build_extra_parts(tier: str, rnd: random.Random, runs: dict[str, Any], cov: dict[str, Any]) -> list[Part]:
    """Mechanisms (4) Slots and (5) IterMut."""
    quick = tier == "quick"
    parts: list[Part] = []
    for c in ("Gen_Slots.cfg", "Gen_IterMut.cfg"):
        need_ok(runs[c].result(), c)
    srows = runs["Gen_Slots.cfg"].result().json_lines("S")
    irows = runs["Gen_IterMut.cfg"].result().json_lines("I")
    if not srows or not irows:
        raise MachineryError("Slots / IterMut: TLC emitted nothing")
    shapes = X.sl_shapes(srows)
    by_fam: dict[str, list[dict[str, Any]]] = {}
    for sh in shapes:
        by_fam.setdefault(sh["fam"], []).append(sh)
    chosen: list[dict[str, Any]] = []
    for fam in sorted(by_fam):
        fs = by_fam[fam]
        if not quick or fam in ("H", "L", "C"):
            chosen += fs
            continue
        # a fixed subset (the same in every run) + a seeded sample of the rest
        stride, extra = (6, 20) if fam == "N" else (16, 30)
        fixed = fs[::stride]
        fixed_keys = {x["key"] for x in fixed}
        rest = [x for x in fs if x["key"] not in fixed_keys]
        chosen += fixed + rnd.sample(rest, min(extra, len(rest)))
    keys = {x["key"] for x in chosen}
    per_part = 540
    for i in range(0, len(chosen), per_part):
        p = make_extra_part("sl%d" % (i // per_part), "sl", chosen[i:i + per_part], 60)
        p.info["configs"] = configs_for(tier, "mr-main" if i == 0 else "mr")
        parts.append(p)
    others = [x for x in shapes if x["key"] not in keys]
    if others:
        p = make_extra_part("slv", "sl", others, 400)
        p.info["compile"] = False
        parts.append(p)
    core = [r for r in irows if r["kind"] in IM_CORE]
    rest_i = [r for r in irows if r["kind"] not in IM_CORE]
    pick = rest_i if not quick else rnd.sample(rest_i, min(100, len(rest_i)))
    p = make_extra_part("im0", "im", core + pick, 400)
    p.info["configs"] = configs_for(tier, "mr-main")
    parts.append(p)
    picked = {id(r) for r in pick}
    left = [r for r in rest_i if id(r) not in picked]
    if left:
        p = make_extra_part("imv", "im", left, 400)
        p.info["compile"] = False
        parts.append(p)
    cov["slots"] = dict(cases_emitted=len(srows), class_shapes=len(shapes), shapes_compiled=len(chosen),
                        per_family={f: len(v) for f, v in sorted(by_fam.items())})
    cov["itermut"] = dict(programs_emitted=len(irows), programs_compiled=len(core) + len(pick))
    return parts


def check_extra_mutant(kind: str, rows: list[dict[str, Any]]) -> int:
    """Number of predictions of a specification-level mutant (Slots / IterMut) that CPython rejects."""
    import io
    import types
    items = X.sl_shapes(rows) if kind == "sl" else rows
    src, _names, calls = (X.sl_module if kind == "sl" else X.im_module)(items)
    ns: dict[str, Any] = {}
    exec(compile(src, "<mutant-%s>" % kind, "exec"), ns)
    env: dict[str, Any] = {"m": types.SimpleNamespace(**{k: v for k, v in ns.items() if not k.startswith("__")})}
    exec(X.PRELUDE, env)
    bad = 0
    for _cid, expr, want, _op, _caller, _ui in calls:
        old, sys.stdout = sys.stdout, io.StringIO()
        try:
            try:
                r = ["ret", repr(eval(expr, dict(env)))]
            except BaseException as e:  # noqa: B902
                r = ["exc", type(e).__name__]
        finally:
            sys.stdout = old
        if r[:2] != want[:2]:
            bad += 1
    return bad


def main(argv: list[str]) -> int:
    global BUILD_SEM
    import threading
    tier, seed, replay = parse_args(argv)
    if replay:
        return do_replay(replay)
    v = Verdict(PID, tier, seed)
    rnd = random.Random(seed)
    BUILD_SEM = threading.Semaphore(MAX_CC)
    for m in ("MC_CtrlFlow", "MC_Dispatch", "MC_ArgBind", "MC_Slots", "MC_IterMut"):
        sany(os.path.join(SPEC, m + ".tla"))
    root = scratch("c05-")
    cov: dict[str, Any] = {"per_config": {}}
    t0 = time.time()
    tlc_pool = ThreadPoolExecutor(4)
    work_pool = ThreadPoolExecutor(MAX_CC + 3)
    runs = start_tlc_jobs(tier, seed, tlc_pool)

    def go(parts: list[Part]) -> list[tuple[Part, Any]]:
        parts = sorted(parts, key=lambda p: (not p.info.get("compile"), -len(p.calls)))
        return [(p, work_pool.submit(process_part, p, root, p.info.get("configs", []))) for p in parts]

    # the argument-binding / method-resolution parts only need their own (short) TLC runs
    pending = go(build_abmr_parts(tier, random.Random(seed + 1), runs, cov))
    pending += go(build_extra_parts(tier, random.Random(seed + 2), runs, cov))
    pending += go(build_cf_parts(tier, rnd, runs, cov, seed))
    order = [p for p, _ in pending]
    reps = [f.result() for _, f in pending]
    results = {cfg: f.result() for cfg, f in runs.items()}
    tlc_pool.shutdown()
    work_pool.shutdown()
    t_all = time.time() - t0

    states = transitions = 0
    for cfg, r in results.items():
        if cfg.startswith("Mut_Dispatch"):
            if r.violated != "SuperIsStatic":
                raise MachineryError("Mut_Dispatch_StaticSuper: expected a hierarchy where the instance's linearisation "
                                     "interleaves a super() chain, got violated=%s error=%s" % (r.violated, r.error))
            continue
        need_ok(r, cfg)
        states += r.distinct
        transitions += r.generated
        cov["per_config"][cfg] = dict(states=r.distinct, transitions=r.generated, depth=r.depth, wall_s=round(r.wall, 1),
                                      mode="simulate" if r.distinct == 0 else "exhaustive")
        if r.coverage:
            cov["per_config"][cfg].update(coverage_summary(r))
    # actions that never fire in ANY control-flow configuration = machinery problem
    fired: dict[str, int] = {}
    for cfg, r in results.items():
        if "CtrlFlow" in cfg:
            for a, (_d, t) in r.coverage.items():
                fired[a] = fired.get(a, 0) + t
    dead = sorted(a for a, t in fired.items() if t == 0 and a not in ("Init", "Done"))
    if dead or not fired:
        raise MachineryError("CtrlFlow actions that never fired in any configuration: %s" % dead)
    # ---- the specification-level mutant must be visible to the CPython validation
    mut_bad = check_spec_mutant(results["Mut_CtrlFlow_NoOverride.cfg"].json_lines("P"))
    if mut_bad == 0:
        raise MachineryError("CPython validation accepted the traces of the mutant specification (FinallyOverrides = FALSE)")
    cov["spec_mutant_traces_rejected_by_cpython"] = mut_bad
    for kind, cfg in (("sl", "Mut_Slots_HashMinusOne.cfg"), ("im", "Mut_IterMut_GrowthUnnoticed.cfg")):
        nbad = check_extra_mutant(kind, results[cfg].json_lines("S" if kind == "sl" else "I"))
        if nbad == 0:
            raise MachineryError("CPython validation accepted the predictions of the mutant specification %s" % cfg)
        cov["spec_mutant_%s_predictions_rejected_by_cpython" % kind] = nbad

    fatals = [r["fatal"] for r in reps if r["fatal"]]
    if fatals:
        raise MachineryError("; ".join(fatals)[:3000])
    drift = [x for r in reps for x in r["drift"]]
    if drift:
        raise MachineryError("specification drifts from CPython on %d calls, e.g. %s" % (len(drift), "; ".join(drift[:4])))
    validated = sum(r["calls"] for r in reps)
    compared = sum(r["compared"] for r in reps)
    if compared == 0:
        raise MachineryError("no call reached compiled code")

    # ---- verdict
    rejected: dict[str, int] = {}
    rej_samples: dict[str, str] = {}
    for p, r in zip(order, reps):
        for mu, verdict in r["rejected"].items():
            cls = verdict[0] + ": " + (verdict[1][0] if verdict[0] == "error" else verdict[1])
            rejected[cls] = rejected.get(cls, 0) + 1
            if cls not in rej_samples:
                mod, u = mu.split(":")
                cid = next((c for c, (m2, u2) in p.unit_of_call.items() if (m2, u2) == (mod, u)), None)
                if cid:
                    inf = p.info[cid]
                    rej_samples[cls] = show_item(inf)
    by_class: dict[str, list[tuple[int, str, str, dict[str, Any]]]] = {}
    ndiff = 0
    if os.environ.get("C05_DUMP_DIFFS"):
        with open(os.environ["C05_DUMP_DIFFS"], "w") as f:
            json.dump([dict(dd, info={k: v for k, v in p.info[dd["cid"]].items()}) for p, r in zip(order, reps) for dd in r["diffs"]], f)
    for p, r in zip(order, reps):
        for dd in r["diffs"]:
            ndiff += 1
            key, what, payload, size = classify(p, dd)
            if key in v.known:
                v.violation(key, payload, what)
                continue
            by_class.setdefault(symptom(dd, p.info[dd["cid"]]), []).append((size, key, what, payload))
    unreported = 0
    for cls in sorted(by_class):
        items = sorted(by_class[cls], key=lambda t: (t[0], t[1]))
        for size, key, what, payload in items[:MAX_REPORT]:
            v.violation(key, payload, what)
        unreported += max(0, len(items) - MAX_REPORT)
    sample = None
    for p, r in zip(order, reps):
        if p.name.startswith("cfa") and r.get("interp"):
            cid = p.calls[len(p.calls) // 2][0]
            inf = p.info[cid]
            sample = dict(program=inf["key"], x=inf["x"], source=cf_render(inf["tokens"], "f"), spec=inf["expect"], cpython=r["interp"][cid])
            break
    cov.update(
        states=states, transitions=transitions,
        traces_validated_against_impl=compared,
        evaluations=validated,
        distinct_nontrivial=sum(1 for p in order if p.info.get("compile") for c in p.calls
                                if (p.info[c[0]].get("spec_r", {}).get("k") == "raise") or p.info[c[0]]["kind"] in ("mr", "sl")
                                or (p.info[c[0]]["kind"] == "ab" and p.info[c[0]]["mask"])
                                or (p.info[c[0]]["kind"] == "im" and p.info[c[0]]["item"]["mut"] != "none")),
        rule="every behaviour TLC emits (program + input + predicted trace; signature x call + predicted binding outcome; "
             "hierarchy + predicted method chain) is executed by CPython and compared with the prediction (evaluations); "
             "traces_validated_against_impl = calls made into mypyc-compiled code (all build configurations) whose stdout, "
             "value, exception type and message were compared with CPython's.  non-trivial = calls that end in an exception, "
             "method-resolution calls, rejected bindings",
        exhaustive=False,
        compile_rejected=dict(total=sum(rejected.values()), by_class=rejected, example=rej_samples),
        disagreements=ndiff, disagreements_not_reported_individually=unreported,
        builds=[dict(part=r["part"], **b) for r in reps for b in r["builds"]],
        phases_s=dict(all=round(t_all, 1), per_part={r["part"]: r["t"] for r in reps if r["t"]}),
        samples=[sample],
    )
    return v.finish("exploration", cov, [
        "C05 is decided only for five mechanisms: structured control flow (try/except/else/finally, loops, jumps, bare "
        "raise, nested functions), argument binding of wrapper functions, method / property resolution on native classes "
        "and traits, the special-method slot contracts (__hash__/__eq__, __len__/__bool__, __contains__/__getitem__/"
        "__setitem__/__delitem__, rich comparisons, __add__/__radd__/__iadd__), for loops over builtin containers the body "
        "mutates.  Everything else the property quantifies over (expressions, other container primitives, generators, ...) "
        "is not reached.",
        "programs the working tree's mypyc does not compile are outside the property's premise: they are counted under "
        "compile_rejected and excluded (the decision is made by mypyc's own front end + code generator per unit)",
        "exact TypeError message texts of argument binding are compared verbatim, like every other exception message",
        "quick tier: one build configuration (-O0, one group); thorough: -O0/-O3 x single / multi_file / separate",
    ])


def do_replay(path: str) -> int:
    """Re-run one recorded disagreement against the working tree."""
    global BUILD_SEM
    import threading
    BUILD_SEM = threading.Semaphore(MAX_CC)
    with open(path) as f:
        rep = json.load(f)
    r = rep.get("replay") or {}
    cfgm = re.match(r"O(\d)-(\w+)", r.get("config", "O0-single"))
    config = (cfgm.group(1), cfgm.group(2)) if cfgm else ("0", "single")
    if r.get("kind") == "cf":
        row = dict(p=r["tokens"], x=r["x"], out=[], r=dict(k="return", e="", v=0))
        part = make_cf_parts("replay", [(tokstr(r["tokens"]), r["tokens"], {r["x"]: row})], 10, 1)[0]
    elif r.get("kind") == "mr":
        part = make_ab_mr_part("replay", [], [], [r["row"]])
        part.calls = [c for c in part.calls if c[0].endswith(":" + r["what"])]
    elif r.get("kind") == "ab":
        part = make_ab_mr_part("replay", [r["sig"]], [dict(c=r["call"], v=[0])], [])
    elif r.get("kind") in ("sl", "im"):
        part = make_extra_part("replay", r["kind"], [r["item"]], 10)
        part.calls = [c for c in part.calls if part.info[c[0]]["op"] == r["op"] and part.info[c[0]]["caller"] == r["caller"]]
    else:
        raise MachineryError("unknown replay file %s" % path)
    part.info["compile"] = True
    root = scratch("c05-replay-")
    # the recorded expectation is not consulted: only compiled vs interpreted
    out = process_part_nodrift(part, root, [config])
    print("replay: %s" % rep.get("key"))
    for dd in out["diffs"]:
        print("  still differs: interpreted %r, compiled %r %s" % (dd["interp"], dd["compiled"], dd["detail"]))
    if out["rejected"]:
        print("  no longer compiled by mypyc: %r" % out["rejected"])
    if out["diffs"]:
        print("VIOLATION property=%s replay=%s" % (PID, path))
        return 1
    print("  compiled and interpreted agree")
    return 0


def process_part_nodrift(part: Part, root: str, configs: list[tuple[str, str]]) -> dict[str, Any]:
    rep = process_part(part, root, configs, check_drift=False)
    if rep["fatal"]:
        raise MachineryError(rep["fatal"])
    return rep


if __name__ == "__main__":
    try:
        sys.exit(main(sys.argv[1:]))
    except MachineryError as e:
        print("MACHINERY FAILURE: %s" % e, file=sys.stderr)
        sys.exit(2)
