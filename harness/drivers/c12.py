"""C12 -- static models of Python's runtime rules agree exactly with CPython.

Four specifications transcribe the run-time rules (spec/ArgBind.tla, C3.tla, Reach.tla, Fold.tla).
TLC enumerates the bounded input spaces stepwise, checks the rule-level invariants and emits
every input together with the specification's verdict.  Every emitted case is then bound three ways:

  (i)   executed by CPython itself (the call is made / the class is created / the condition is
        eval'ed with a fake ``sys`` / the expression is eval'ed)  -- the oracle; a difference
        between CPython and the specification is *model drift* = machinery failure (exit 2);
  (ii)  given to the real mypy (in-process ``mypy.build.build`` on big generated modules, real
        typeshed) and, for folding, to ``mypyc.irbuild.constant_fold`` directly;
  (iii) mypy != CPython in either direction (or a mypy crash) is a violation, identified by the
        1-minimal failing input (so that a new class of failure is a new key).
"""
from __future__ import annotations

import contextlib
import io
import json
import multiprocessing as mp
import os
import random
import re
import sys
import threading
import time
from concurrent.futures import ThreadPoolExecutor
from typing import Any, Callable, Iterable

from harness.common import (MachineryError, REPO, SPEC, Verdict, coverage_summary, parse_args,
                            sany, scratch, tlc)

PID = "C12"
NPROC = min(16, os.cpu_count() or 4)


# =========================================================================== mypy, in-process
_CACHE: str | None = None
_RE_MSG = re.compile(r"^main:(\d+): (error|note): (.*?)(?:  \[([a-z0-9-]+)\])?$")
_RE_CRASH = re.compile(r"^main:(\d+): error: INTERNAL ERROR", re.M)


class MypyRun:
    def __init__(self) -> None:
        self.errors: dict[int, list[tuple[str, str]]] = {}   # line -> [(text, code)]
        self.notes: dict[int, list[str]] = {}
        self.crash_line: int | None = None
        self.crash: str = ""
        self.result: Any = None


_MYPY_LOCK = threading.RLock()   # mypy keeps global state: one in-process build at a time (per process)
_ORIG: dict[str, Any] = {}       # the unmodified functions the discovery wrappers replace temporarily


def run_mypy(text: str, pyver: tuple[int, int] = (3, 12), platform: str = "linux",
             keep_result: bool = False) -> MypyRun:
    with _MYPY_LOCK:
        return _run_mypy(text, pyver, platform, keep_result)


def _run_mypy(text: str, pyver: tuple[int, int], platform: str, keep_result: bool) -> MypyRun:
    """One in-process build of module __main__ = text with the real typeshed.

    A crash (INTERNAL ERROR) is caught: report_internal_error() first prints the messages
    produced so far, so the lines before crash_line still have their diagnostics.
    """
    global _CACHE
    from mypy import build
    from mypy.modulefinder import BuildSource
    from mypy.options import Options

    if _CACHE is None:
        _CACHE = os.path.join(_SCRATCH, "cache-%d" % os.getpid())
    o = Options()
    o.python_version = pyver
    o.platform = platform
    o.incremental = True
    o.cache_dir = _CACHE
    o.show_traceback = True
    o.many_errors_threshold = -1
    o.preserve_asts = keep_result
    o.error_summary = False
    o.color_output = False
    out = MypyRun()
    so, se = io.StringIO(), io.StringIO()
    msgs: list[str] = []
    try:
        with contextlib.redirect_stdout(so), contextlib.redirect_stderr(se):
            res = build.build([BuildSource("main", "__main__", text)], o)
        msgs = res.errors
        if keep_result:
            out.result = res
    except KeyboardInterrupt:
        raise
    except BaseException as e:  # noqa: BLE001  (SystemExit(2) after INTERNAL ERROR, or the raw exception)
        m = _RE_CRASH.search(se.getvalue())
        if not m:
            raise MachineryError("mypy failed without INTERNAL ERROR line: %r\n%s\n%s"
                                 % (e, se.getvalue()[-1500:], so.getvalue()[-1500:]))
        out.crash_line = int(m.group(1))
        tb = [ln for ln in so.getvalue().splitlines() if ln.strip()]
        last = [ln for ln in tb if re.match(r"^[A-Za-z_.]+(Error|Exception)\b", ln)]
        out.crash = (last[-1] if last else repr(e))[:200]
        msgs = so.getvalue().splitlines()
    for ln in msgs:
        m = _RE_MSG.match(ln)
        if not m:
            continue
        n = int(m.group(1))
        if m.group(2) == "error":
            out.errors.setdefault(n, []).append((m.group(3), m.group(4) or ""))
        else:
            out.notes.setdefault(n, []).append(m.group(3))
    return out


@contextlib.contextmanager
def catch_call_crashes(store: dict[int, str]) -> Any:
    """Discovery aid (wrapped from outside, never the source of a verdict on non-crashing lines):
    an exception escaping the check of one call expression is recorded for that line and the
    check of the module goes on, so that one build finds all crashing lines of a big module."""
    from mypy import checkexpr
    from mypy.types import AnyType, TypeOfAny

    with _MYPY_LOCK:
        orig = _ORIG.setdefault("visit_call_expr", checkexpr.ExpressionChecker.visit_call_expr)

    def wrapped(self: Any, e: Any, allow_none_return: bool = False) -> Any:
        try:
            return orig(self, e, allow_none_return)
        except Exception as exc:  # noqa: BLE001
            store.setdefault(e.line, "%s: %s" % (type(exc).__name__, exc))
            return AnyType(TypeOfAny.from_error)

    with _MYPY_LOCK:
        checkexpr.ExpressionChecker.visit_call_expr = wrapped  # type: ignore[method-assign]
        try:
            yield
        finally:
            checkexpr.ExpressionChecker.visit_call_expr = orig  # type: ignore[method-assign]


def run_cases_pristine(header: list[str], cases: list[str], **kw: Any) -> tuple[list[Any], int]:
    """Unmodified mypy on `header` + one line per case; per case ("ok"|"rej"|"crash", detail).
    After an INTERNAL ERROR on some line the remaining cases are re-run without it."""
    res: list[Any] = [None] * len(cases)
    start = 0
    builds = 0
    while start < len(cases):
        text = "\n".join(header + cases[start:]) + "\n"
        r = run_mypy(text, **kw)
        builds += 1
        base = len(header) + 1
        if any(n < base for n in r.errors):
            raise MachineryError("diagnostic in the generated header: %r" % {n: e for n, e in r.errors.items() if n < base})
        stop = len(cases) if r.crash_line is None else start + (r.crash_line - base)
        if r.crash_line is not None and r.crash_line < base:
            raise MachineryError("mypy crashed in the generated header: " + r.crash)
        for i in range(start, stop):
            e = r.errors.get(base + i - start)
            res[i] = ("rej", e) if e else ("ok", None)
        if r.crash_line is None:
            break
        res[stop] = ("crash", r.crash)
        start = stop + 1
    return res, builds


def run_cases(header: list[str], cases: list[str], pristine: bool = False, **kw: Any) -> tuple[list[Any], int, int]:
    """Outcome of every case line.  First a discovery build that survives crashing call lines; when
    there were none, that build ran exactly the unmodified code and is the result.  Otherwise the
    non-crashing lines are decided by a second, unmodified build (authoritative), and the lines
    that crashed are reported as crashes (each reported minimal crash is re-confirmed with
    unmodified mypy before it is printed).  Returns (outcomes, builds, lines whose outcome differed
    between the discovery build and the unmodified build)."""
    if pristine:
        res, b = run_cases_pristine(header, cases, **kw)
        return res, b, 0
    store: dict[int, str] = {}
    base = len(header) + 1
    with catch_call_crashes(store):
        r = run_mypy("\n".join(header + cases) + "\n", **kw)
    if r.crash_line is not None:   # a crash outside a call expression: fall back
        res, b = run_cases_pristine(header, cases, **kw)
        return res, b + 1, 0
    if any(n < base for n in r.errors):
        raise MachineryError("diagnostic in the generated header: %r" % {n: e for n, e in r.errors.items() if n < base})
    first: list[Any] = []
    for i in range(len(cases)):
        if base + i in store:
            first.append(("crash", store[base + i]))
        else:
            e = r.errors.get(base + i)
            first.append(("rej", e) if e else ("ok", None))
    if not store:
        return first, 1, 0
    keep = [i for i in range(len(cases)) if first[i][0] != "crash"]
    second, b = run_cases_pristine(header, [cases[i] for i in keep], **kw)
    differ = 0
    for i, out in zip(keep, second):
        if out[0] != first[i][0]:
            differ += 1
        first[i] = out
    return first, 1 + b, differ


_SCRATCH = ""
_POOL: Any = None


def _init_worker(scratch_dir: str) -> None:
    global _SCRATCH, _CACHE
    _SCRATCH = scratch_dir
    _CACHE = None


def pool_start() -> None:
    """Fork all workers now (before any thread of the driver exists)."""
    global _POOL
    if _POOL is None:
        from concurrent.futures import ProcessPoolExecutor
        _POOL = ProcessPoolExecutor(NPROC, mp_context=mp.get_context("fork"), initializer=_init_worker, initargs=(_SCRATCH,))
        _POOL.submit(int, 0).result()


_VLOCK = threading.Lock()


def report(v: Verdict, key: str, replay: Any, what: str) -> None:
    # an in-process mypy build redirects sys.stdout for its duration (under _MYPY_LOCK): never print meanwhile
    with _VLOCK, _MYPY_LOCK:
        v.violation(key, replay, what)


def say(msg: str, err: bool = False) -> None:
    with _MYPY_LOCK:
        print(msg, file=sys.stderr if err else sys.stdout, flush=True)


def pool_map(fn: Callable[[Any], Any], tasks: list[Any]) -> list[Any]:
    """Run self-contained tasks on the persistent worker pool (each worker keeps a warm mypy cache).
    A worker that dies (e.g. killed for memory) breaks the pool: machinery failure, never a hang."""
    if not tasks:
        return []
    from concurrent.futures.process import BrokenProcessPool
    pool_start()
    try:
        res = []
        t0 = time.time()
        for i, r in enumerate(_POOL.map(fn, tasks)):
            res.append(r)
            if len(tasks) >= 40 and (i + 1) % (len(tasks) // 8) == 0:
                say("  %s: %d/%d tasks, %ds" % (fn.__name__, i + 1, len(tasks), time.time() - t0), err=True)
        return res
    except BrokenProcessPool as e:
        raise MachineryError("a worker process died while running %s: %s" % (fn.__name__, e))


_TLC_JOBS: dict[tuple[str, str], dict[str, Any]] = {}
_TLC_FUT: dict[tuple[str, str], Any] = {}


def tlc_jobs(tier: str, seed: int) -> dict[tuple[str, str], dict[str, Any]]:
    """Every TLC run of this tier with its options (MC_* = invariants of the rule, Gen_* = emission)."""
    j: dict[tuple[str, str], dict[str, Any]] = {}
    for tag, _, _ in ab_spaces(tier):
        j[("MC_ArgBind", "MC_ArgBind_%s.cfg" % tag)] = dict(coverage=False, workers=4, timeout=3600)
        j[("MC_ArgBind", "Gen_ArgBind_%s.cfg" % tag)] = dict(workers=4, timeout=3600)
    j[("MC_ArgBind", "Gen_ArgBind_4x4sim.cfg")] = dict(workers=2, simulate="num=%d" % max(3, ab_nsim(tier) // 12), depth=5,
                                                        seed=seed * 7919 + 11, coverage=False, timeout=3600)
    j[("MC_C3", "MC_C3_5.cfg")] = dict(workers=4, timeout=1800)
    j[("MC_C3", "Gen_C3_5.cfg")] = dict(workers=2, coverage=False, timeout=1800)
    if tier != "quick":
        j[("MC_C3", "MC_C3_6.cfg")] = dict(timeout=3600, workers=8)
        j[("MC_C3", "Gen_C3_6sim.cfg")] = dict(workers=2, coverage=False, simulate="num=2000", depth=7, seed=seed * 7919 + 13,
                                               timeout=3600)
    j[("MC_Reach", "MC_Reach.cfg")] = dict(coverage=False, workers=4, timeout=1800)
    j[("MC_Reach", "Gen_Reach.cfg")] = dict(workers=4, timeout=1800)
    for layer in (["L1", "L2q", "L3q"] if tier == "quick" else ["L1", "L2t", "L3t"]):
        j[("MC_Fold", "MC_Fold_%s.cfg" % layer)] = dict(workers=4, timeout=1800)
        j[("MC_Fold", "Gen_Fold_%s.cfg" % layer)] = dict(workers=2, coverage=False, timeout=3600)
    return j


def tlc_prefetch(tier: str, seed: int, parts: list[str]) -> None:
    """Start all TLC runs now, a few at a time, so that replay of one part overlaps TLC of the next."""
    _TLC_JOBS.update(tlc_jobs(tier, seed))
    ex = ThreadPoolExecutor(4)
    order = {"argbind": "MC_ArgBind", "c3": "MC_C3", "reach": "MC_Reach", "fold": "MC_Fold"}
    for part in parts:
        for key, kw in _TLC_JOBS.items():
            if key[0] == order[part]:
                _TLC_FUT[key] = ex.submit(tlc, key[0], key[1], **kw)
    ex.shutdown(wait=False)


def tlc_checked(module: str, cfg: str) -> Any:
    key = (module, cfg)
    if key in _TLC_FUT:
        r = _TLC_FUT.pop(key).result()
    else:
        r = tlc(module, cfg, **_TLC_JOBS.get(key, {}))
    if r.error:
        raise MachineryError("TLC %s/%s: %s" % (module, cfg, r.error))
    if r.violated:
        raise MachineryError("specification %s violates its own invariant %s under %s (the transcription of the "
                             "run-time rule is inconsistent):\n%s" % (module, r.violated, cfg, r.trace_text[-1500:]))
    return r


def ab_nsim(tier: str) -> int:
    return int(os.environ.get("C12_ARGBIND_NSIM", "0")) or (25 if tier == "quick" else 400)


def ab_spaces(tier: str) -> list[tuple[str, int, int]]:
    """Completely enumerated (parameters x actuals) spaces of the tier."""
    spaces = [("3x2", 3, 2), ("2x3", 2, 3)] if tier == "quick" else [("3x3", 3, 3), ("4x2", 4, 2)]
    extra = os.environ.get("C12_ARGBIND_EXTRA")  # development: e.g. "4x3" = also enumerate that space completely
    if extra:
        spaces.append((extra, int(extra[0]), int(extra[2])))
    return spaces


# =========================================================================== 1-minimal failing inputs
def minimise(items: list[tuple[Any, str]], reductions: Callable[[Any], list[list[Any]]],
             kind_batch: Callable[[list[Any]], list[str | None]], ident: Callable[[Any], Any]) -> list[dict[str, Any]]:
    """Greedy descent of every failing input to a 1-minimal one: no single reduction step keeps the
    same kind of failure.  `reductions(x)` gives the one-step simplifications of x in groups of
    decreasing preference (a later group is only evaluated when no candidate of the earlier groups
    fails).  All current inputs are reduced together, so the real evaluations come in few batches.
    Returns one entry per distinct minimal input with the number of explored inputs it explains."""
    memo: dict[Any, str | None] = {}
    cur: dict[Any, dict[str, Any]] = {}
    for x, kind in items:
        memo[ident(x)] = kind
        e = cur.setdefault((ident(x), kind), {"input": x, "kind": kind, "count": 0, "example": x})
        e["count"] += 1
    minimal: dict[Any, dict[str, Any]] = {}
    guard = 0
    while cur:
        guard += 1
        if guard > 200:
            raise MachineryError("minimisation does not terminate")
        groups = {cid: reductions(e["input"]) for cid, e in cur.items()}
        stepped: dict[Any, Any] = {}
        depth = max((len(g) for g in groups.values()), default=0)
        for level in range(depth):
            # candidate by candidate: only inputs whose earlier candidates did not keep the failure
            # pay for evaluating the next one
            width = max((len(g[level]) for g in groups.values() if level < len(g)), default=0)
            for k in range(width):
                todo: dict[Any, Any] = {}
                for cid, g in groups.items():
                    if cid in stepped or level >= len(g) or k >= len(g[level]):
                        continue
                    key = ident(g[level][k])
                    if key not in memo:
                        todo[key] = g[level][k]
                if todo:
                    ks = list(todo)
                    for key, kind in zip(ks, kind_batch([todo[key] for key in ks])):
                        memo[key] = kind
                for cid, g in groups.items():
                    if cid in stepped or level >= len(g) or k >= len(g[level]):
                        continue
                    if memo[ident(g[level][k])] == cur[cid]["kind"]:
                        stepped[cid] = g[level][k]
        nxt: dict[Any, dict[str, Any]] = {}
        for cid, e in cur.items():
            if cid in stepped:
                n = nxt.setdefault((ident(stepped[cid]), e["kind"]),
                                   {"input": stepped[cid], "kind": e["kind"], "count": 0, "example": e["example"]})
                n["count"] += e["count"]
            else:
                m = minimal.setdefault(cid, {"input": e["input"], "kind": e["kind"], "count": 0, "example": e["example"]})
                m["count"] += e["count"]
        cur = nxt
    return list(minimal.values())


# =========================================================================== ArgBind
NAMES = "abcd"
ERRBITS = {"dupkw": 1, "toomany": 2, "multiple": 4, "posonly": 8, "unexpected": 16, "missingpos": 32, "missingkw": 64}
_CPY_CLASSES = [
    (re.compile(r"got multiple values for keyword argument"), "dupkw"),
    (re.compile(r"got multiple values for argument"), "multiple"),
    (re.compile(r"takes (from )?\d+ (to \d+ )?positional arguments? but \d+ "), "toomany"),
    (re.compile(r"got some positional-only arguments passed as keyword arguments"), "posonly"),
    (re.compile(r"got an unexpected keyword argument"), "unexpected"),
    (re.compile(r"missing \d+ required positional argument"), "missingpos"),
    (re.compile(r"missing \d+ required keyword-only argument"), "missingkw"),
]
AB_ALLNAMES = NAMES + "z"
AB_MAXTD = 2


def sig_text(sig: list[dict[str, Any]], fname: str = "f", ann: bool = True) -> str:
    parts = []
    kinds = [p["k"] for p in sig]
    t = ": int" if ann else ""
    for i, p in enumerate(sig):
        nm, k = NAMES[i], p["k"]
        if k == "KO" and "VA" not in kinds and (i == 0 or kinds[i - 1] != "KO"):
            parts.append("*")
        if k == "VA":
            parts.append("*%s%s" % (nm, t))
        elif k == "VK":
            parts.append("**%s%s" % (nm, t))
        else:
            parts.append("%s%s%s" % (nm, t, (" = 0" if ann else "=0") if p["d"] else ""))
        if k == "PO" and (i + 1 == len(sig) or kinds[i + 1] != "PO"):
            parts.append("/")
    if ann:
        return "def %s(%s) -> None: ..." % (fname, ", ".join(parts))
    return "%s(%s)" % (fname, ", ".join(parts))


def call_text(call: list[dict[str, Any]], fname: str = "f", pretty: bool = False) -> str:
    parts = []
    for i, a in enumerate(call):
        k = a["k"]
        if k == "P":
            parts.append("1")
        elif k == "K":
            parts.append("%s=1" % a["n"])
        elif k == "S":
            parts.append("*t%d" % a["l"])
        elif k == "L":          # a list of statically unknown length (one variable per position)
            parts.append("*list" if pretty else "*l%d" % i)
        elif k == "M":          # a dict of statically unknown keys
            parts.append("**dict" if pretty else "**m%d" % i)
        elif pretty:
            parts.append("**{%s}" % ",".join(sorted(a["ks"])))
        else:
            parts.append("**d_" + "".join(sorted(a["ks"])))
    return "%s(%s)" % (fname, ", ".join(parts))


def call_unknowns(call: list[dict[str, Any]]) -> list[str]:
    return [("l%d" if a["k"] == "L" else "m%d") % i for i, a in enumerate(call) if a["k"] in ("L", "M")]


def ab_header() -> list[str]:
    """Declarations the generated modules share: one TypedDict per key set, the three tuples."""
    import itertools
    h = ["from typing import TypedDict"]
    for k in range(AB_MAXTD + 1):
        for ks in itertools.combinations(AB_ALLNAMES, k):
            nm = "".join(ks)
            h.append("TD_%s = TypedDict('TD_%s', {%s})" % (nm, nm, ", ".join("'%s': int" % x for x in ks)))
            h.append("d_%s: TD_%s" % (nm, nm))
    h += ["t0: tuple[()]", "t1: tuple[int]", "t2: tuple[int, int]"]
    h += ["l%d: list[int]" % i for i in range(4)] + ["m%d: dict[str, int]" % i for i in range(4)]
    return h


def ab_runtime_ns() -> dict[str, Any]:
    import itertools
    ns: dict[str, Any] = {"t0": (), "t1": (1,), "t2": (1, 1)}
    for k in range(AB_MAXTD + 1):
        for ks in itertools.combinations(AB_ALLNAMES, k):
            ns["d_" + "".join(ks)] = {x: 1 for x in ks}
    return ns


def cpy_bind(fn: Any, lam: Any) -> str:
    """Really make the call; '' = bound, else the class of CPython's TypeError."""
    try:
        lam(fn)
        return ""
    except TypeError as e:
        s = str(e)
        for rx, cls in _CPY_CLASSES:
            if rx.search(s):
                return cls
        return "other:" + s


def cpy_bind_all(fn: Any, lam: Any, unknowns: list[str], names: str) -> str:
    """A call with *list / **dict actuals: really make it for EVERY candidate content (lists of 0..5
    items, dicts over every subset of `names`).  '' = binds every time, 'forall' = TypeError every
    time (mypy must reject), 'either' = depends on the contents (no claim)."""
    import itertools
    cands = []
    for u in unknowns:
        if u[0] == "l":
            cands.append([[1] * n for n in range(len(NAMES) + 2)])
        else:
            cands.append([{k: 1 for k in ks} for r in range(len(names) + 1) for ks in itertools.combinations(names, r)])
    ok = bad = 0
    for combo in itertools.product(*cands):
        try:
            lam(fn, *combo)
            ok += 1
        except TypeError:
            bad += 1
        if ok and bad:
            return "either"
    return "forall" if bad else ""


def ab_kind(cc: str, mk: str, md: Any) -> str | None:
    if mk == "crash":
        return "crash:" + md.split(":")[0]
    if cc == "either":
        return None
    if mk == "ok" and cc:
        return "false_accept"
    if mk == "rej" and not cc:
        return "false_reject"
    return None


def ab_eval_pairs(sigs: list[Any], calls: list[Any], pairs: list[tuple[int, int]],
                  pristine: bool = False, names: str = AB_ALLNAMES) -> tuple[list[str], list[Any], int, int]:
    """CPython outcome and mypy outcome of every (sig index, call index) pair (`names`: the keys a
    **dict of unknown content may have; names no signature of the space has all behave like `z`)."""
    ns = ab_runtime_ns()
    header = ab_header()
    fns: dict[int, Any] = {}
    for s in sorted({s for s, _ in pairs}):
        src = sig_text(sigs[s], "f%d" % s)
        header.append(src)
        exec(src, ns)  # the same text mypy sees
        fns[s] = ns["f%d" % s]
    lams: dict[int, Any] = {}
    unk: dict[int, list[str]] = {}
    cpy: list[str] = []
    lines: list[str] = []
    for s, c in pairs:
        if c not in lams:
            unk[c] = call_unknowns(calls[c])
            lams[c] = eval("lambda %s: %s" % (", ".join(["f"] + unk[c]), call_text(calls[c], "f")), ns)
        cpy.append(cpy_bind_all(fns[s], lams[c], unk[c], names) if unk[c] else cpy_bind(fns[s], lams[c]))
        lines.append(call_text(calls[c], "f%d" % s))
    my, builds, differ = run_cases(header, lines, pristine=pristine)
    return cpy, my, builds, differ


def ab_chunk(task: tuple[list[Any], list[Any], list[Any], list[Any], str]) -> dict[str, Any]:
    sigs, calls, vec, qvec, names = task
    pairs = [(s, c) for c in range(len(calls)) for s in range(len(sigs))]
    cpy, my, builds, differ = ab_eval_pairs(sigs, calls, pairs, names=names)
    out: dict[str, Any] = {"n": len(pairs), "builds": builds, "drift": [], "bad": [], "codes": {}, "cpy_rej": 0,
                           "my_rej": 0, "sample": None, "differ": differ, "unknown_content": 0, "unknown_decided": 0}
    has_unknown = [bool(call_unknowns(c)) for c in calls]
    for (s, c), cc, (mk, md) in zip(pairs, cpy, my):
        mask = vec[c][s]
        if has_unknown[c]:
            out["unknown_content"] += 1
            out["unknown_decided"] += cc != "either"
            if {"": 0, "forall": 1, "either": 2}[cc] != qvec[c][s]:
                out["drift"].append((s, c, cc, "quantified verdict %d" % qvec[c][s]))
        elif (cc == "") != (mask == 0) or (cc and (cc.startswith("other:") or not (mask & ERRBITS[cc]))) \
                or qvec[c][s] != (1 if cc else 0):
            out["drift"].append((s, c, cc, mask))
        if cc and cc != "either":
            out["cpy_rej"] += 1
        if mk == "rej":
            out["my_rej"] += 1
            for _, code in md:
                out["codes"][code] = out["codes"].get(code, 0) + 1
        kind = ab_kind(cc, mk, md)
        if kind:
            out["bad"].append((s, c, kind))
        if out["sample"] is None and cc and cc != "either" and mk == "rej" and len(calls[c]) >= 2:
            out["sample"] = {"def": sig_text(sigs[s]), "call": call_text(calls[c]), "cpython": cc, "mypy": md, "spec_mask": mask}
    return out


def ab_kind_task(xs: list[Any]) -> list[str | None]:
    """Failure kind of arbitrary (signature, call) inputs, by really running CPython and mypy."""
    sigs = [s for s, _ in xs]
    calls = [c for _, c in xs]
    cpy, my, _, _ = ab_eval_pairs(sigs, calls, [(i, i) for i in range(len(xs))])
    return [ab_kind(cc, mk, md) for cc, (mk, md) in zip(cpy, my)]


_KRANK = {"P": 0, "S": 1, "L": 1, "K": 2, "D": 3, "M": 3}


def ab_wellformed_sig(sig: list[Any]) -> bool:
    rank = {"PO": 0, "PK": 1, "VA": 2, "KO": 3, "VK": 4}
    seen_default = False
    for i, p in enumerate(sig):
        if i and (rank[p["k"]] < rank[sig[i - 1]["k"]] or (p["k"] in ("VA", "VK") and p["k"] == sig[i - 1]["k"])):
            return False
        if p["k"] in ("PO", "PK"):
            if not p["d"] and seen_default:
                return False
            seen_default = seen_default or p["d"]
    return True


def ab_wellformed_call(call: list[Any]) -> bool:
    seen_k = seen_d = False
    kws = set()
    for a in call:
        if a["k"] == "P" and (seen_k or seen_d):
            return False
        if a["k"] in ("S", "L") and seen_d:
            return False
        if a["k"] == "K":
            if a["n"] in kws:
                return False
            kws.add(a["n"])
            seen_k = True
        if a["k"] in ("D", "M"):
            seen_d = True
    return True


def ab_reductions(x: tuple[Any, Any]) -> list[list[Any]]:
    """One-step simplifications of an input, most wanted first:
       0 remove an actual / a TypedDict key / a *tuple item;  1 remove a parameter (later names shift,
       its own name becomes the unknown name), or the first positional parameter together with the first
       positional value;  2 give a parameter a default;  3 rename a name the
       call uses to the unknown name `z`;  4 bring two adjacent actuals into the order
       positional, *tuple, keyword, **mapping."""
    sig, call = x
    g0: list[Any] = []
    for i in range(len(call)):
        g0.append((sig, call[:i] + call[i + 1:]))
    for i, a in enumerate(call):
        if a["k"] == "D":
            for k in a["ks"]:
                g0.append((sig, call[:i] + [dict(a, ks=[y for y in a["ks"] if y != k])] + call[i + 1:]))
        if a["k"] == "S" and a["l"] > 0:
            g0.append((sig, call[:i] + [dict(a, l=a["l"] - 1)] + call[i + 1:]))
    g1: list[Any] = []
    for j in range(len(sig)):
        ren = {NAMES[j]: "z"}
        for k in range(j + 1, len(sig)):
            ren[NAMES[k]] = NAMES[k - 1]
        c2 = ab_rename(call, ren)
        if c2 is not None:
            g1.append((sig[:j] + sig[j + 1:], c2))
    if sig and sig[0]["k"] in ("PO", "PK"):
        # the first positional parameter together with the value it receives
        ren = {NAMES[0]: "z"}
        for k in range(1, len(sig)):
            ren[NAMES[k]] = NAMES[k - 1]
        for i, a in enumerate(call):
            if a["k"] == "P" or (a["k"] == "S" and a["l"] > 0):
                rest = call[:i] + ([] if a["k"] == "P" else [dict(a, l=a["l"] - 1)]) + call[i + 1:]
                c2 = ab_rename(rest, ren)
                if c2 is not None:
                    g1.append((sig[1:], c2))
                break
            if a["k"] != "S":
                break
    g2: list[Any] = []
    for j, p in enumerate(sig):
        if p["k"] in ("PO", "PK", "KO") and not p["d"]:
            s2 = [dict(q, d=True) if (k == j or (k > j and p["k"] != "KO" and q["k"] in ("PO", "PK"))) else q
                  for k, q in enumerate(sig)]
            if ab_wellformed_sig(s2):
                g2.append((s2, call))
    g3: list[Any] = []
    used = sorted({a["n"] for a in call if a["k"] == "K"} | {k for a in call if a["k"] == "D" for k in a["ks"]})
    if "z" not in used:
        for n in used:
            c2 = ab_rename(call, {n: "z"})
            if c2 is not None:
                g3.append((sig, c2))
    g4: list[Any] = []
    for i in range(len(call) - 1):
        if _KRANK[call[i]["k"]] > _KRANK[call[i + 1]["k"]]:
            c2 = call[:i] + [call[i + 1], call[i]] + call[i + 2:]
            if ab_wellformed_call(c2):
                g4.append((sig, c2))
    return [g0, g1, g2, g3, g4]


def ab_rename(call: list[Any], ren: dict[str, str]) -> list[Any] | None:
    c2 = []
    for a in call:
        if a["k"] == "K":
            c2.append(dict(a, n=ren.get(a["n"], a["n"])))
        elif a["k"] == "D":
            ks = [ren.get(y, y) for y in a["ks"]]
            if len(set(ks)) != len(ks):
                return None  # two keys of one TypedDict would merge
            c2.append(dict(a, ks=sorted(ks)))
        else:
            c2.append(a)
    return c2 if ab_wellformed_call(c2) else None


def canon_call(call: list[Any]) -> list[Any]:
    return [dict(k=a["k"], n=a.get("n", ""), l=a.get("l", 0), ks=sorted(a.get("ks", []))) for a in call]


def ab_ident(x: tuple[Any, Any]) -> str:
    sig, call = x
    return ",".join(p["k"] + ("1" if p["d"] else "0") for p in sig) + "<-" + \
        ",".join(a["k"] + (a["n"] if a["k"] == "K" else str(a["l"]) if a["k"] == "S" else "".join(a["ks"]) if a["k"] == "D" else "")
                 for a in call)


def ab_key(kind: str, sig: list[Any], call: list[Any]) -> str:
    return "argbind:%s:%s <- %s" % (kind, sig_text(sig, "f", ann=False), call_text(call, "f", pretty=True))


def ab_space(tag: str, np_: int, na: int, g: Any, failing: list[Any], cov: dict[str, Any],
             sample_calls: int | None = None, rnd: random.Random | None = None) -> dict[str, Any]:
    """Replay one emitted signature x call space; returns the table of its failures for look-up."""
    sigs_l = g.json_lines("SIGS")
    rows = g.json_lines("CALL")
    if len(sigs_l) < 1 or not rows:
        raise MachineryError("ArgBind %s: TLC emitted nothing" % tag)
    sigs = sigs_l[0]
    uniq: dict[str, Any] = {}
    for row in rows:
        uniq.setdefault(json.dumps(row["c"], sort_keys=True), row)
    rows = [uniq[k] for k in sorted(uniq)]
    if sample_calls is not None:
        assert rnd is not None
        rnd.shuffle(rows)
        rows = rows[:sample_calls]
    # calls with several **mappings go to chunks of their own (efficiency only: a module in which a
    # call line crashed is checked a second time without those lines)
    rows.sort(key=lambda r: sum(1 for a in r["c"] if a["k"] == "D") >= 2)
    calls = [canon_call(r["c"]) for r in rows]
    vec = [r["v"] for r in rows]
    qvec = [r["q"] for r in rows]
    if any(len(x) != len(sigs) for x in vec + qvec):
        raise MachineryError("ArgBind %s: verdict vector length" % tag)
    names = NAMES[:np_] + "z"
    per = max(1, min(8000, max(1500, len(sigs) * len(calls) // (2 * NPROC))) // len(sigs))
    offs = list(range(0, len(calls), per))
    t0 = time.time()
    outs = pool_map(ab_chunk, [(sigs, calls[lo:lo + per], vec[lo:lo + per], qvec[lo:lo + per], names) for lo in offs])
    n = sum(o["n"] for o in outs)
    for lo, o in zip(offs, outs):
        if o["drift"]:
            s, c, cc, mask = o["drift"][0]
            raise MachineryError("ArgBind.tla drifts from CPython on %d inputs, e.g. %s <- %s: CPython %r, spec %r"
                                 % (sum(len(x["drift"]) for x in outs), sig_text(sigs[s]), call_text(calls[lo + c]), cc, mask))
    codes: dict[str, int] = {}
    kinds: dict[str, int] = {}
    table: dict[str, str] = {}
    for lo, o in zip(offs, outs):
        for k, x in o["codes"].items():
            codes[k] = codes.get(k, 0) + x
        for s, c, kind in o["bad"]:
            x = (sigs[s], calls[lo + c])
            failing.append((x, kind))
            table[ab_ident(x)] = kind
            kinds[kind] = kinds.get(kind, 0) + 1
    cov["argbind/" + tag] = {
        "signatures": len(sigs), "calls": len(calls), "pairs_replayed": n,
        "cpython_rejects": sum(o["cpy_rej"] for o in outs), "mypy_rejects": sum(o["my_rej"] for o in outs),
        "mypy_builds": sum(o["builds"] for o in outs), "mypy_error_codes_on_call_lines": codes,
        "pairs_with_unknown_content_actuals": sum(o["unknown_content"] for o in outs),
        "of_those_same_verdict_for_all_contents": sum(o["unknown_decided"] for o in outs),
        "disagreements": kinds, "discovery_vs_unmodified_build_differences": sum(o["differ"] for o in outs),
        "replay_wall_s": round(time.time() - t0, 1),
        "sample": next((o["sample"] for o in outs if o["sample"]), None),
    }
    return {"np": np_, "na": na, "names": set(names), "table": table}


def check_argbind(v: Verdict, tier: str, rnd: random.Random, cov: dict[str, Any]) -> dict[str, int]:
    spaces = ab_spaces(tier)
    states = transitions = pairs = 0
    failing: list[Any] = []
    tables = []
    for tag, np_, na in spaces:
        r = tlc_checked("MC_ArgBind", "MC_ArgBind_%s.cfg" % tag)
        g = tlc_checked("MC_ArgBind", "Gen_ArgBind_%s.cfg" % tag)
        if g.never_fired():
            raise MachineryError("ArgBind actions never fired: %s" % g.never_fired())
        states += r.distinct
        transitions += r.generated
        tables.append(ab_space(tag, np_, na, g, failing, cov))
        cov["argbind/" + tag].update(tlc=dict(coverage_summary(g), states=r.distinct, transitions=r.generated,
                                              invariants=["SigsAgree", "BindsIffWellDefined", "DefaultsRelax", "ArityMonotone", "QuantifiedAgrees"]))
        pairs += cov["argbind/" + tag]["pairs_replayed"]
    # seeded sample of the 4 x 4 space (TLC simulation picks the calls; every signature of <= 4 parameters)
    nsim = ab_nsim(tier)
    g = tlc_checked("MC_ArgBind", "Gen_ArgBind_4x4sim.cfg")
    sampled: list[Any] = []
    ab_space("4x4-sampled", 4, 4, g, sampled, cov, sample_calls=nsim, rnd=rnd)
    pairs += cov["argbind/4x4-sampled"]["pairs_replayed"]

    def in_table(x: Any) -> dict[str, str] | None:
        sig, call = x
        used = {a["n"] for a in call if a["k"] == "K"} | {k for a in call if a["k"] == "D" for k in a["ks"]}
        for t in tables:
            if len(sig) <= t["np"] and len(call) <= t["na"] and used <= t["names"]:
                return t["table"]
        return None

    real_evals = [0]

    def kind_batch(xs: list[Any]) -> list[str | None]:
        res: list[str | None] = [None] * len(xs)
        real = []
        for i, x in enumerate(xs):
            t = in_table(x)
            if t is not None:
                res[i] = t.get(ab_ident(x))   # completely enumerated space: not in the table = no failure
            else:
                real.append(i)
        real_evals[0] += len(real)
        step = max(200, min(1500, len(real) // NPROC + 1))
        parts = [[xs[i] for i in real[lo:lo + step]] for lo in range(0, len(real), step)]
        flat = [k for part in pool_map(ab_kind_task, parts) for k in part]
        for i, k in zip(real, flat):
            res[i] = k
        return res

    mins = minimise(failing + sampled, ab_reductions, kind_batch, ab_ident)
    # reproduce every minimal failing input once more, alone, with unmodified mypy, before reporting it
    for m in sorted(mins, key=lambda m: ab_key(m["kind"], *m["input"])):
        sig, call = m["input"]
        cpy, my, _, _ = ab_eval_pairs([sig], [call], [(0, 0)], pristine=True)
        again = ab_kind(cpy[0], my[0][0], my[0][1])
        if again != m["kind"]:
            raise MachineryError("failure not reproducible: %s, first %s then %s" % (ab_key(m["kind"], sig, call), m["kind"], again))
        key = ab_key(m["kind"], sig, call)
        report(v, key, {"part": "argbind", "module": ab_header() + [sig_text(sig), call_text(call)],
                          "kind": m["kind"], "cpython": cpy[0] or "binds", "mypy": my[0],
                          "explains_failing_inputs": m["count"],
                          "example_non_minimal": [sig_text(m["example"][0]), call_text(m["example"][1])]},
                    "%s: `%s` called as `%s`: CPython %s, mypy %s (1-minimal; %d explored inputs reduce to it)"
                    % (m["kind"], sig_text(sig, "f", ann=False), call_text(call, "f", pretty=True),
                       ("raises TypeError (%s)" % cpy[0]) if cpy[0] else "binds the arguments",
                       {"ok": "reports nothing", "rej": "rejects the call", "crash": "stops with INTERNAL ERROR"}[my[0][0]],
                       m["count"]))
    cov["argbind/minimal_failing_inputs"] = len(mins)
    cov["argbind/minimisation_real_evaluations"] = real_evals[0]
    return {"states": states, "transitions": transitions, "replayed": pairs,
            "failing": len(failing) + len(sampled)}


# =========================================================================== C3
def c3_text(bases: list[list[int]]) -> str:
    return "; ".join("class C%d(%s)" % (i + 1, ", ".join("C%d" % b for b in bs)) for i, bs in enumerate(bases))


def c3_eval(states: list[list[list[int]]], pristine: bool = False) -> tuple[list[Any], list[Any], int]:
    """For every hierarchy: what CPython makes of its last class, and what mypy makes of it.
    Result per state: CPython -> list of class numbers (its __mro__ without object) or "fail";
    mypy -> ("mro", [...]) | ("fail", message) | ("crash", text)."""
    names: dict[tuple[Any, ...], str] = {}
    lines: list[str] = []
    order: list[tuple[Any, ...]] = []
    cls: dict[tuple[Any, ...], Any] = {}
    number: dict[Any, int] = {}
    cpy_of: dict[tuple[Any, ...], Any] = {}

    def define(prefix: tuple[Any, ...]) -> None:
        if prefix in names:
            return
        if len(prefix) > 1:
            define(prefix[:-1])
        nm = "K%d" % len(names)
        names[prefix] = nm
        bs = [names[prefix[:b]] for b in prefix[-1]]
        lines.append("class %s(%s): pass" % (nm, ", ".join(bs)) if bs else "class %s: pass" % nm)
        order.append(prefix)
        try:
            cls[prefix] = type(nm, tuple(cls[prefix[:b]] for b in prefix[-1]), {})   # really create the class
            number[cls[prefix]] = len(prefix)
            cpy_of[prefix] = [number[k] for k in cls[prefix].__mro__ if k is not object]
        except TypeError as e:
            if "consistent method resolution" not in str(e):
                raise MachineryError("unexpected TypeError creating a class: %s" % e)
            cpy_of[prefix] = "fail"
        except KeyError:
            raise MachineryError("hierarchy uses a class whose creation failed: %r" % (prefix,))

    keys = [tuple(tuple(b) for b in st) for st in states]
    for k in keys:
        define(k)
    my, builds = c3_mypy(lines, order, names, pristine)
    return [cpy_of[k] for k in keys], [my[k] for k in keys], builds


def c3_mypy(lines: list[str], order: list[Any], names: dict[Any, str], pristine: bool) -> tuple[dict[Any, Any], int]:
    r = run_mypy("\n".join(lines) + "\n", keep_result=True)
    if r.crash_line is not None:
        if len(lines) == 1 or pristine:
            return {k: ("crash", r.crash) for k in order}, 1
        raise MachineryError("mypy crashed on a generated class hierarchy: %s at line %d: %s"
                             % (r.crash, r.crash_line, lines[r.crash_line - 1]))
    by_name = {v: k for k, v in names.items()}
    table = r.result.files["__main__"].names
    out: dict[Any, Any] = {}
    for i, k in enumerate(order):
        errs = r.errors.get(i + 1, [])
        mro_err = [t for t, _ in errs if "Cannot determine consistent method resolution order" in t]
        other = [t for t, _ in errs if "Cannot determine consistent method resolution order" not in t]
        if other:
            raise MachineryError("unexpected diagnostic on a generated class: %r" % other)
        if mro_err:
            out[k] = ("fail", mro_err[0])
        else:
            info = table[names[k]].node
            out[k] = ("mro", [len(by_name[t.name]) for t in info.mro if t.fullname != "builtins.object"])
    return out, 1


def c3_kind(cp: Any, my: Any) -> str | None:
    if my[0] == "crash":
        return "crash"
    if cp == "fail":
        return None if my[0] == "fail" else "false_accept"
    if my[0] == "fail":
        return "false_reject"
    return None if my[1] == cp else "wrong_mro"


def c3_chunk(task: list[Any]) -> dict[str, Any]:
    states = [t[0] for t in task]
    cp, my, builds = c3_eval(states)
    out: dict[str, Any] = {"n": len(states), "builds": builds, "drift": [], "bad": [], "fails": 0, "multi": 0, "sample": None}
    for (st, spec), c, m in zip(task, cp, my):
        specv: Any = "fail" if spec == [0] else spec
        if specv != c:
            out["drift"].append((st, spec, c))
        if c == "fail":
            out["fails"] += 1
        if any(len(b) > 1 for b in st):
            out["multi"] += 1
        k = c3_kind(c, m)
        if k:
            out["bad"].append((st, k))
        if out["sample"] is None and c != "fail" and len(c) >= 4 and len(st[-1]) >= 2:
            out["sample"] = {"hierarchy": c3_text(st), "spec": spec, "cpython": c, "mypy": m}
    return out


def c3_reductions(st: list[list[int]]) -> list[list[Any]]:
    g0 = []
    n = len(st)
    for j in range(1, n):          # remove class j (not the last one): drop it from every base list, renumber
        new = []
        for i, bs in enumerate(st, 1):
            if i == j:
                continue
            new.append([b - 1 if b > j else b for b in bs if b != j])
        g0.append(new)
    g1 = []
    for i, bs in enumerate(st):
        for k in range(len(bs)):
            g1.append(st[:i] + [bs[:k] + bs[k + 1:]] + st[i + 1:])
    return [g0, g1]


def c3_kind_task(xs: list[Any]) -> list[str | None]:
    res: list[str | None] = []
    for st in xs:   # one module per candidate: an earlier class of a candidate may itself be inconsistent
        try:
            cp, my, _ = c3_eval([st], pristine=True)
            res.append(c3_kind(cp[0], my[0]))
        except MachineryError:
            res.append(None)
    return res


def check_c3(v: Verdict, tier: str, rnd: random.Random, cov: dict[str, Any]) -> dict[str, int]:
    n = 5
    r = tlc_checked("MC_C3", "MC_C3_%d.cfg" % n)
    if r.never_fired():
        raise MachineryError("C3 actions never fired: %s" % r.never_fired())
    g = tlc_checked("MC_C3", "Gen_C3_%d.cfg" % n)
    rows = g.json_lines("H")
    states, transitions = r.distinct, r.generated
    tl: dict[str, Any] = {"N=%d" % n: dict(coverage_summary(r), states=r.distinct, transitions=r.generated,
                                          invariants=["WellFormed", "LocalPrecedence", "Monotone", "FirstBaseNext", "ChainsLinearise"])}
    exhaustive_n = len(rows)
    if len(rows) != r.distinct - 1:
        raise MachineryError("C3: %d hierarchies emitted for %d states" % (len(rows), r.distinct))
    if tier == "thorough":
        r6 = tlc_checked("MC_C3", "MC_C3_6.cfg")
        states += r6.distinct
        transitions += r6.generated
        tl["N=6"] = dict(coverage_summary(r6), states=r6.distinct, transitions=r6.generated)
        g6 = tlc_checked("MC_C3", "Gen_C3_6sim.cfg")
        seen = {json.dumps(x["b"]) for x in rows}
        for x in g6.json_lines("H"):
            k = json.dumps(x["b"])
            if k not in seen:
                seen.add(k)
                rows.append(x)
    rows.sort(key=lambda x: json.dumps(x["b"]))
    per = max(50, min(600, len(rows) // (NPROC * 2) + 1))
    t0 = time.time()
    outs = pool_map(c3_chunk, [[(x["b"], x["m"]) for x in rows[lo:lo + per]] for lo in range(0, len(rows), per)])
    drift = [d for o in outs for d in o["drift"]]
    if drift:
        raise MachineryError("C3.tla drifts from CPython on %d hierarchies, e.g. %s: spec %r, CPython %r"
                             % (len(drift), c3_text(drift[0][0]), drift[0][1], drift[0][2]))
    bad = [b for o in outs for b in o["bad"]]

    def kind_batch(xs: list[Any]) -> list[str | None]:
        step = max(20, len(xs) // NPROC + 1)
        return [k for part in pool_map(c3_kind_task, [xs[lo:lo + step] for lo in range(0, len(xs), step)]) for k in part]

    mins = minimise([(st, k) for st, k in bad], c3_reductions, kind_batch, lambda st: json.dumps(st))
    for m in sorted(mins, key=lambda m: json.dumps(m["input"])):
        st = m["input"]
        cp, my, _ = c3_eval([st], pristine=True)
        if c3_kind(cp[0], my[0]) != m["kind"]:
            raise MachineryError("C3 failure not reproducible: %s" % c3_text(st))
        report(v, "c3:%s:%s" % (m["kind"], c3_text(st)),
                    {"part": "c3", "hierarchy": c3_text(st), "cpython": cp[0], "mypy": my[0], "explains": m["count"]},
                    "%s for `%s`: CPython %s, mypy %s" % (m["kind"], c3_text(st),
                                                         "cannot create the class" if cp[0] == "fail" else "__mro__ = %s" % cp[0], my[0]))
    cov["c3"] = {"hierarchies_replayed": sum(o["n"] for o in outs), "exhaustive_up_to_N=%d" % n: exhaustive_n,
                 "sampled_N=6": len(rows) - exhaustive_n, "inconsistent_at_run_time": sum(o["fails"] for o in outs),
                 "with_multiple_inheritance": sum(o["multi"] for o in outs), "mypy_builds": sum(o["builds"] for o in outs),
                 "disagreements": len(bad), "replay_wall_s": round(time.time() - t0, 1), "tlc": tl,
                 "sample": next((o["sample"] for o in outs if o["sample"]), None)}
    return {"states": states, "transitions": transitions, "replayed": sum(o["n"] for o in outs), "failing": len(bad),
            "nontrivial": sum(o["multi"] for o in outs)}


# =========================================================================== Reach
R_NONE = 99
_MIRROR = {"<": ">", ">": "<", "<=": ">=", ">=": "<=", "==": "==", "!=": "!="}


def r_atom_text(a: dict[str, Any]) -> str:
    if a["t"] == "u":
        return "unk"
    if a["t"] == "p":
        lit = repr("".join(a["lit"]))
        if a["f"] == "sw":
            return "sys.platform.startswith(%s)" % lit
        op = "==" if a["f"] == "eq" else "!="
        return "%s %s sys.platform" % (lit, op) if a["rev"] else "sys.platform %s %s" % (op, lit)
    if a["f"] == "idx":
        lhs, lit = "sys.version_info[%d]" % a["i"], str(a["lit"][0])
    else:
        if a["f"] == "whole":
            lhs = "sys.version_info"
        else:
            lhs = "sys.version_info[%s:%s%s]" % ("" if a["lo"] == R_NONE else a["lo"], "" if a["hi"] == R_NONE else a["hi"],
                                                 ":1" if a["st"] else "")
        lit = "(%s,)" % a["lit"][0] if len(a["lit"]) == 1 else "(%s)" % ", ".join(map(str, a["lit"]))
    return "%s %s %s" % (lit, a["op"], lhs) if a["rev"] else "%s %s %s" % (lhs, a["op"], lit)


def r_text(c: dict[str, Any]) -> str:
    if c["k"] == "atom":
        t = r_atom_text(c["a"])
        return "not " + t if c["neg"] else t
    t = "(%s) %s (%s)" % (r_atom_text(c["a"]), c["k"], r_atom_text(c["b"]))
    return "not (%s)" % t if c["neg"] else t


_FAKE_SYS: dict[tuple[int, int, str], Any] = {}


def r_runtime(code: Any, minor: int, micro: int, plat: str) -> str:
    """Truth value at run time: eval with a fake sys, in both worlds of the unknown name."""
    fake = _FAKE_SYS.get((minor, micro, plat))
    if fake is None:
        import collections
        import types
        VI = collections.namedtuple("version_info", "major minor micro releaselevel serial")   # a tuple subclass, like sys.version_info
        fake = _FAKE_SYS[(minor, micro, plat)] = types.SimpleNamespace(version_info=VI(3, minor, micro, "final", 0), platform=plat)
    vals = set()
    for unk in (True, False):
        try:
            vals.add("T" if eval(code, {"sys": fake, "unk": unk}) else "F")
        except TypeError:
            vals.add("E")
    return vals.pop() if len(vals) == 1 else "U"


def r_mypy(texts: list[str], minor: int, plat: str) -> list[str]:
    """mypy's static value of every condition: T / F / ? (not decided), from Block.is_unreachable."""
    from mypy.nodes import IfStmt
    lines = ["import sys", "unk = bool()"]
    for t in texts:
        lines += ["if %s: pass" % t, "else: pass"]
    r = run_mypy("\n".join(lines) + "\n", pyver=(3, minor), platform=plat, keep_result=True)
    if r.crash_line is not None:
        raise MachineryError("mypy crashed on a generated condition: %s: %s" % (r.crash, lines[r.crash_line - 1]))
    if r.errors:
        raise MachineryError("unexpected diagnostics in the condition module: %r" % list(r.errors.items())[:3])
    ifs = [d for d in r.result.files["__main__"].defs if isinstance(d, IfStmt)]
    if len(ifs) != len(texts):
        raise MachineryError("condition module: %d if statements for %d conditions" % (len(ifs), len(texts)))
    out = []
    for d in ifs:
        f, t = d.body[0].is_unreachable, bool(d.else_body and d.else_body.is_unreachable)
        if f and t:
            raise MachineryError("both branches unreachable")
        out.append("F" if f else "T" if t else "?")
    return out


def r_chunk(task: tuple[int, str, list[Any]]) -> dict[str, Any]:
    minor, plat, items = task            # items: (cond id, text, [(micro, spec value), ...])
    my = r_mypy([t for _, t, _ in items], minor, plat)
    out: dict[str, Any] = {"n": 0, "decided": 0, "drift": [], "bad": [], "conds": len(items), "sample": None}
    for (cid, text, specs), m in zip(items, my):
        code = compile(text, "<cond>", "eval")
        for micro, sv in specs:
            rt = r_runtime(code, minor, micro, plat)
            out["n"] += 1
            if rt != sv:
                out["drift"].append((cid, text, minor, micro, plat, sv, rt))
            if m != "?":
                out["decided"] += 1
                if m != rt:
                    out["bad"].append((cid, minor, micro, plat, m, rt))
            if out["sample"] is None and m != "?" and "and" in text and "version" in text:
                out["sample"] = {"condition": text, "target": "3.%d.%d %s" % (minor, micro, plat), "spec": sv, "cpython": rt, "mypy": m}
    return out


def r_minors(c: dict[str, Any]) -> list[int]:
    res = []
    for a in (c["a"], c["b"]):
        if a["t"] != "v":
            continue
        if a["f"] == "idx":
            if a["i"] == 1:
                res.append(a["lit"][0])
        elif a["f"] == "slice" and a["lo"] == 1:
            res.append(a["lit"][0])
        elif len(a["lit"]) >= 2:
            res.append(a["lit"][1])
    return res


def r_reductions(x: tuple[Any, int, int, str]) -> list[list[Any]]:
    c, minor, micro, plat = x
    nil = dict(t="nil", f="", i=0, lo=R_NONE, hi=R_NONE, st=False, op="", rev=False, lit=[])
    g0: list[Any] = []
    if c["k"] != "atom":
        g0.append(dict(k="atom", a=c["a"], b=nil, neg=False))
        g0.append(dict(k="atom", a=c["b"], b=nil, neg=False))
    if c["neg"]:
        g0.append(dict(c, neg=False))
    g1: list[Any] = []
    for which in ("a", "b"):
        a = c[which]
        if a["t"] == "v" and a["rev"]:
            g1.append(dict(c, **{which: dict(a, rev=False, op=_MIRROR[a["op"]])}))
        if a["t"] == "p" and a["rev"]:
            g1.append(dict(c, **{which: dict(a, rev=False)}))
        if a["t"] == "v" and a["f"] == "slice" and a["st"]:
            g1.append(dict(c, **{which: dict(a, st=False)}))
        if a["t"] == "v" and a["f"] == "slice" and a["lo"] in (R_NONE, 0) and a["hi"] == R_NONE and not a["st"]:
            g1.append(dict(c, **{which: dict(a, f="whole", lo=R_NONE)}))     # t[:] and t[0:] are t
    return [[(y, minor, micro, plat) for y in g] for g in (g0, g1)]


def r_eval_inputs(xs: list[Any]) -> list[str | None]:
    """Real evaluation of (condition, target) inputs; 'mismatch' when mypy decides another value."""
    res: list[str | None] = [None] * len(xs)
    groups: dict[tuple[int, str], list[int]] = {}
    for i, (c, minor, micro, plat) in enumerate(xs):
        groups.setdefault((minor, plat), []).append(i)
    for (minor, plat), idx in groups.items():
        my = r_mypy([r_text(xs[i][0]) for i in idx], minor, plat)
        for i, m in zip(idx, my):
            rt = r_runtime(compile(r_text(xs[i][0]), "<cond>", "eval"), minor, xs[i][2], plat)
            res[i] = "mismatch" if (m != "?" and m != rt) else None
    return res


def r_class(c: dict[str, Any], minor: int, micro: int) -> str:
    """The condition with its literal replaced by how it relates to the target."""
    def atom(a: dict[str, Any]) -> str:
        if a["t"] != "v":
            return r_atom_text(a)
        vi = [3, minor, micro]
        if a["f"] == "idx":
            ref = vi[a["i"]:a["i"] + 1]
            what = "int"
        else:
            lo = 0 if a["f"] == "whole" or a["lo"] == R_NONE else a["lo"]
            ref = vi[lo:lo + len(a["lit"])]
            what = "%d-tuple" % len(a["lit"])
        rel = "=" if a["lit"] == ref else "<" if a["lit"] < ref else ">"
        lit = "<%s %s target's>" % (what, rel)
        full = r_atom_text(dict(a, lit=[7] * len(a["lit"])))
        lit_txt = "7" if a["f"] == "idx" else ("(7,)" if len(a["lit"]) == 1 else "(%s)" % ", ".join(["7"] * len(a["lit"])))
        return full.replace(lit_txt, lit)
    if c["k"] == "atom":
        t = atom(c["a"])
        return "not " + t if c["neg"] else t
    t = "(%s) %s (%s)" % (atom(c["a"]), c["k"], atom(c["b"]))
    return "not (%s)" % t if c["neg"] else t


def check_reach(v: Verdict, tier: str, rnd: random.Random, cov: dict[str, Any]) -> dict[str, int]:
    r = tlc_checked("MC_Reach", "MC_Reach.cfg")
    g = tlc_checked("MC_Reach", "Gen_Reach.cfg")
    if g.never_fired():
        raise MachineryError("Reach actions never fired: %s" % g.never_fired())
    tg = g.json_lines("TARGETS")
    rows = g.json_lines("COND")
    if len(tg) != 1 or len(rows) < 1000:
        raise MachineryError("Reach: emission incomplete (%d target rows, %d conditions)" % (len(tg), len(rows)))
    targets = {k: [(t["minor"], t["micro"], "".join(t["plat"])) for t in tg[0][k]] for k in ("v", "p", "m")}
    per_build: dict[tuple[int, str], list[Any]] = {}
    conds: list[Any] = []
    for row in rows:
        c = row["c"]
        uses_p = c["a"]["t"] == "p" or c["b"]["t"] == "p"
        tl = targets["m"] if c["k"] != "atom" else targets["p"] if uses_p else targets["v"]
        if len(tl) != len(row["v"]):
            raise MachineryError("Reach: vector length")
        cid = len(conds)
        conds.append(c)
        text = r_text(c)
        lits = r_minors(c)
        by: dict[tuple[int, str], list[Any]] = {}
        for (minor, micro, plat), sv in zip(tl, row["v"]):
            if tier == "quick":
                # quick: literal minors next to the target's; negation only of the plain forms;
                # and/or combinations on the 3.12 targets only (thorough: everything TLC emitted)
                if c["k"] == "atom" and lits and not any(abs(m - minor) <= 1 for m in lits):
                    continue
                if c["k"] == "atom" and c["neg"] and (c["a"]["rev"] or c["a"]["st"]):
                    continue
                if c["k"] != "atom" and minor != 12:
                    continue
            by.setdefault((minor, plat), []).append((micro, sv))
        for key, specs in by.items():
            per_build.setdefault(key, []).append((cid, text, specs))
    tasks = []
    for (minor, plat), items in sorted(per_build.items()):
        for lo in range(0, len(items), 4000):
            tasks.append((minor, plat, items[lo:lo + 4000]))
    t0 = time.time()
    outs = pool_map(r_chunk, tasks)
    drift = [d for o in outs for d in o["drift"]]
    if drift:
        raise MachineryError("Reach.tla drifts from CPython on %d (condition, target) pairs, e.g. %r" % (len(drift), drift[0]))
    bad = [b for o in outs for b in o["bad"]]
    # one representative per (condition class, mypy value, run-time value); minimise those
    reps: dict[str, Any] = {}
    counts: dict[str, int] = {}
    for cid, minor, micro, plat, m, rt in bad:
        k = "%s|%s|%s" % (r_class(conds[cid], minor, micro), m, rt)
        if k not in reps or (minor == 12 and reps[k][1] != 12):
            reps[k] = (conds[cid], minor, micro, plat)     # representative: the 3.12 target when there is one
        counts[k] = counts.get(k, 0) + 1
    mins = minimise([(x, "mismatch") for x in reps.values()], r_reductions, r_eval_inputs,
                    lambda x: json.dumps([x[0], x[1], x[2], x[3]], sort_keys=True))
    seen_keys: dict[str, Any] = {}
    for m in mins:
        c, minor, micro, plat = m["input"]
        my = r_mypy([r_text(c)], minor, plat)[0]
        rt = r_runtime(compile(r_text(c), "<cond>", "eval"), minor, micro, plat)
        if my == "?" or my == rt:
            raise MachineryError("Reach failure not reproducible: %s on 3.%d.%d %s" % (r_text(c), minor, micro, plat))
        key = "reach:%s:mypy=%s,runtime=%s" % (r_class(c, minor, micro), my, rt)
        if key in seen_keys:
            continue
        seen_keys[key] = 1
        report(v, key, {"part": "reach", "condition": r_text(c), "python_version": "3.%d" % minor, "platform": plat,
                          "runtime_version_info": [3, minor, micro, "final", 0], "mypy_static_value": my, "runtime_value": rt},
                    "`%s` with --python-version 3.%d: mypy takes it as always %s, at run time on 3.%d.%d it is %s"
                    % (r_text(c), minor, {"T": "true", "F": "false"}[my], minor, micro,
                       {"T": "True", "F": "False", "E": "a TypeError", "U": "not constant"}[rt]))
    cov["reach"] = {"conditions": len(conds), "condition_target_pairs_replayed": sum(o["n"] for o in outs),
                    "pairs_mypy_decides": sum(o["decided"] for o in outs), "mypy_builds": len(tasks),
                    "conditions_given_to_mypy": sum(o["conds"] for o in outs),
                    "disagreeing_pairs": len(bad), "disagreement_classes": len(reps), "minimal_classes": len(seen_keys),
                    "replay_wall_s": round(time.time() - t0, 1),
                    "tlc": dict(coverage_summary(g), states=r.distinct, transitions=r.generated,
                                invariants=["NegFlips", "ReverseLaw", "PrefixIgnoresMicro", "WholeNeverEqualsShort"]),
                    "sample": next((o["sample"] for o in outs if o["sample"]), None)}
    return {"states": r.distinct, "transitions": r.generated, "replayed": sum(o["n"] for o in outs), "failing": len(bad),
            "nontrivial": sum(o["decided"] for o in outs)}


# =========================================================================== Fold
F_TOK: dict[str, str] = {
    "i0": "0", "i1": "1", "i2": "2", "i3": "3", "i7": "7", "i64": "64", "im1": "(-1)", "im2": "(-2)", "im7": "(-7)",
    "b31m": str(2**31 - 1), "b31": str(2**31), "b31p": str(2**31 + 1), "nb31": "(-%d)" % 2**31, "nb31m": "(-%d)" % (2**31 + 1),
    "b32m": str(2**32 - 1), "b32": str(2**32), "b32p": str(2**32 + 1),
    "b63m": str(2**63 - 1), "b63": str(2**63), "b63p": str(2**63 + 1), "nb63": "(-%d)" % 2**63, "nb63m": "(-%d)" % (2**63 + 1),
    "b64m": str(2**64 - 1), "b64": str(2**64), "b64p": str(2**64 + 1),
    "h1023": str(2**1023), "h1024": str(2**1024), "nh1024": "(-%d)" % 2**1024,
    "bT": "True", "bF": "False",
    "f00": "0.0", "fm00": "(-0.0)", "f15": "1.5", "fm15": "(-1.5)", "f05": "0.5", "f20": "2.0", "fbig": "1e308", "finf": "1e309",
    "s0": "''", "sab": "'ab'", "c1j": "1j", "c0j": "0j", "y0": "b''", "yab": "b'ab'",
    "nFI": "FI", "nFF": "FF", "nFS": "FS", "nFB": "FB", "nNV": "NV", "nFN": "FN",
}
F_PRETTY = {"b31m": "(2**31-1)", "b31": "2**31", "b31p": "(2**31+1)", "nb31": "(-2**31)", "nb31m": "(-2**31-1)",
            "b32m": "(2**32-1)", "b32": "2**32", "b32p": "(2**32+1)", "b63m": "(2**63-1)", "b63": "2**63", "b63p": "(2**63+1)",
            "nb63": "(-2**63)", "nb63m": "(-2**63-1)", "b64m": "(2**64-1)", "b64": "2**64", "b64p": "(2**64+1)",
            "h1023": "2**1023", "h1024": "2**1024", "nh1024": "(-2**1024)"}
F_HEADER = ["from typing import Final", "FI: Final = 3", "FF: Final = 1.5", "FS: Final = 'ab'", "FB: Final = True",
            "NV = 3", "FN: Final = -2"]
F_NS = {"FI": 3, "FF": 1.5, "FS": "ab", "FB": True, "NV": 3, "FN": -2}
# simpler-first order of the operand tokens of one run-time type (used to minimise failing expressions)
F_SIMPLER = {
    "int": ["i1", "i0", "i2", "i3", "i7", "i64", "im1", "im2", "im7", "b31m", "b31", "b31p", "nb31", "nb31m", "b32m", "b32", "b32p",
            "b63m", "b63", "b63p", "nb63", "nb63m", "b64m", "b64", "b64p", "h1023", "h1024", "nh1024", "nFI", "nFN", "nNV"],
    "bool": ["bT", "bF", "nFB"],
    "float": ["f15", "f05", "f20", "f00", "fm00", "fm15", "fbig", "finf", "nFF"],
    "str": ["sab", "s0", "nFS"], "complex": ["c1j", "c0j"], "bytes": ["yab", "y0"],
}
F_TYPE_OF = {t: ty for ty, ts in F_SIMPLER.items() for t in ts}
F_MAXBITS = 8192


def f_text(e: dict[str, Any], top: bool = True, pretty: bool = False) -> str:
    """Source text of an expression (`pretty`: the big literals written as powers of two, for keys)."""
    if e["k"] == "leaf":
        return F_PRETTY.get(e["t"], F_TOK[e["t"]]) if pretty else F_TOK[e["t"]]
    if e["k"] == "un":
        t = "%s%s" % (e["op"], f_text(e["x"], False, pretty))
    else:
        t = "%s %s %s" % (f_text(e["l"], False, pretty), e["op"], f_text(e["r"], False, pretty))
    return t if top else "(%s)" % t


class _Excluded(Exception):
    pass


def f_guarded(e: dict[str, Any]) -> Any:
    """Evaluate bottom-up only to find computations that would be huge; raises _Excluded for those."""
    import operator
    if e["k"] == "leaf":
        return eval(F_TOK[e["t"]], dict(F_NS))
    if e["k"] == "un":
        x = f_guarded(e["x"])
        return {"-": operator.neg, "+": operator.pos, "~": operator.invert}[e["op"]](x)
    a, b = f_guarded(e["l"]), f_guarded(e["r"])
    op = e["op"]
    ia, ib = isinstance(a, int), isinstance(b, int)
    if op == "**" and ia and ib and b >= 0 and abs(a) >= 2 and a.bit_length() * b > F_MAXBITS:
        raise _Excluded
    if op == "<<" and ia and ib and a != 0 and b > F_MAXBITS:
        raise _Excluded
    if op == "*":
        for s_, n in ((a, b), (b, a)):
            if isinstance(s_, (str, bytes)) and isinstance(n, int) and len(s_) and 10000 < n and len(s_) * n < 2**63:
                raise _Excluded       # would be attempted (and end in MemoryError at best); beyond that CPython refuses at once
    fn = {"+": operator.add, "-": operator.sub, "*": operator.mul, "/": operator.truediv, "//": operator.floordiv,
          "%": operator.mod, "&": operator.and_, "|": operator.or_, "^": operator.xor, "<<": operator.lshift,
          ">>": operator.rshift, "**": operator.pow}[op]
    r = fn(a, b)
    if isinstance(r, int) and r.bit_length() > F_MAXBITS:
        raise _Excluded
    return r


def f_show(x: Any) -> tuple[str, str, str]:
    return ("val", type(x).__name__, repr(x))


def f_cpython(e: dict[str, Any]) -> tuple[str, ...]:
    import warnings
    try:
        with warnings.catch_warnings():
            warnings.simplefilter("ignore")
            f_guarded(e)
    except _Excluded:
        return ("excluded",)
    except Exception:  # noqa: BLE001
        pass
    try:
        with warnings.catch_warnings():
            warnings.simplefilter("ignore")
            return f_show(eval(f_text(e), dict(F_NS)))       # the oracle: CPython evaluates the source text
    except Exception as ex:  # noqa: BLE001
        return ("raise", type(ex).__name__)


@contextlib.contextmanager
def catch_fold_crashes(store: dict[int, str]) -> Any:
    """Discovery aid, like catch_call_crashes: an exception escaping mypy's constant_fold_expr in
    semantic analysis is recorded for the line, and analysis goes on."""
    from mypy import semanal
    with _MYPY_LOCK:
        orig = _ORIG.setdefault("constant_fold_expr", semanal.constant_fold_expr)

    def wrapped(expr: Any, cur_mod_id: str) -> Any:
        try:
            return orig(expr, cur_mod_id)
        except Exception as exc:  # noqa: BLE001
            store.setdefault(expr.line, "%s: %s" % (type(exc).__name__, exc))
            return None

    with _MYPY_LOCK:
        semanal.constant_fold_expr = wrapped  # type: ignore[assignment]
        try:
            yield
        finally:
            semanal.constant_fold_expr = orig  # type: ignore[assignment]


def f_build(lines: list[str]) -> tuple[Any, dict[int, str]]:
    """Unmodified build; on INTERNAL ERROR drop that line and build again.  Returns (result, crashes)."""
    crashes: dict[int, str] = {}
    live = list(lines)
    while True:
        r = run_mypy("\n".join(F_HEADER + live) + "\n", keep_result=True)
        if r.crash_line is None:
            return r, crashes
        k = r.crash_line - len(F_HEADER) - 1
        if k < 0:
            raise MachineryError("mypy crashed in the folding header: " + r.crash)
        crashes[k] = r.crash
        live[k] = "pass"


def f_mypy(exprs: list[Any], plain: bool, pristine: bool = False) -> tuple[list[dict[str, Any]], int]:
    """What mypy's semantic analysis (Final[object] = e, and when `plain` also Final = e) and mypyc's
    constant_fold_expr make of every expression: engine -> ("val", type, repr) | ("none",) | ("crash", text)."""
    from mypy.nodes import AssignmentStmt
    from mypyc.irbuild.constant_fold import constant_fold_expr as mypyc_fold
    lines = []
    for i, e in enumerate(exprs):
        lines.append("X%d: Final[object] = %s" % (i, f_text(e)))
        if plain:
            lines.append("P%d: Final = %s" % (i, f_text(e)))
    builds = 1
    found: dict[int, str] = {}
    with catch_fold_crashes(found):
        r = run_mypy("\n".join(F_HEADER + lines) + "\n", keep_result=True)
    if r.crash_line is not None:
        found = {-1: "crash outside constant_fold_expr"}
        rv = {}
    else:
        rv = {d.lvalues[0].name: d.rvalue for d in r.result.files["__main__"].defs
              if isinstance(d, AssignmentStmt) and hasattr(d.lvalues[0], "name")}
    crashes: dict[int, str] = {}
    if pristine or found:
        # authoritative: unmodified mypy, the lines that crashed in the discovery build left out
        base = len(F_HEADER) + 1
        live = list(lines) if pristine else ["pass" if (base + k) in found else ln for k, ln in enumerate(lines)]
        r, crashes = f_build(live)
        builds += 1 + len(crashes)
        for ln, txt in found.items():
            if ln >= base:
                crashes.setdefault(ln - base, txt)
        if pristine and set(crashes) != {ln - base for ln in found if ln >= base}:
            raise MachineryError("discovery build and unmodified build disagree on the crashing lines")
    names = r.result.files["__main__"].names
    for d in r.result.files["__main__"].defs:
        if isinstance(d, AssignmentStmt) and hasattr(d.lvalues[0], "name"):
            rv.setdefault(d.lvalues[0].name, d.rvalue)
    out = []
    stride = 2 if plain else 1
    for i in range(len(exprs)):
        res: dict[str, Any] = {}
        for eng, nm, ln in (("mypy", "X%d" % i, i * stride), ("mypy_plain_final", "P%d" % i, i * stride + 1)):
            if eng == "mypy_plain_final" and not plain:
                continue
            if ln in crashes:
                res[eng] = ("crash", crashes[ln])
            else:
                val = names[nm].node.final_value
                res[eng] = ("none",) if val is None else f_show(val)
        if "X%d" % i in rv:
            try:
                val = mypyc_fold(None, rv["X%d" % i])     # mypyc's folding function, called directly on the analysed AST
                res["mypyc"] = ("none",) if val is None else f_show(val)
            except Exception as exc:  # noqa: BLE001
                res["mypyc"] = ("crash", "%s: %s" % (type(exc).__name__, exc))
        out.append(res)
    return out, builds


def f_kind(cp: tuple[str, ...], m: tuple[str, ...]) -> str | None:
    if cp[0] == "excluded":
        return None
    if m[0] == "crash":
        return "crash:" + m[1].split(":")[0]
    if m[0] == "none":
        return None
    if cp[0] == "raise":
        return "folded_but_raises:" + cp[1]
    return None if m == cp else "wrong_value"


def f_chunk(task: tuple[list[Any], bool]) -> dict[str, Any]:
    items, plain = task                     # items: (expression, spec value record)
    out: dict[str, Any] = {"n": len(items), "builds": 0, "drift": [], "bad": [], "excluded": [], "folded": 0,
                           "folded_mypyc": 0, "raises": 0, "spec_values": 0, "sample": None}
    cps = [f_cpython(e) for e, _ in items]
    # the size guard applies to mypy too (it would evaluate the same huge value while folding)
    out["excluded"] = [f_text(e) for (e, _), cp in zip(items, cps) if cp[0] == "excluded"]
    keep = [i for i, cp in enumerate(cps) if cp[0] != "excluded"]
    my, out["builds"] = f_mypy([items[i][0] for i in keep], plain)
    for i, res in zip(keep, my):
        (e, sv), cp = items[i], cps[i]
        if cp[0] == "raise":
            out["raises"] += 1
        if sv["t"] in ("int", "bool"):
            out["spec_values"] += 1
            want = ("val", sv["t"], str(bool(sv["v"])) if sv["t"] == "bool" else str(sv["v"]))
            if cp != want:
                out["drift"].append((f_text(e), sv, cp))
        elif sv["t"] == "raise" and cp[0] != "raise":
            out["drift"].append((f_text(e), sv, cp))
        if res["mypy"][0] == "val":
            out["folded"] += 1
        if res.get("mypyc", ("none",))[0] == "val":
            out["folded_mypyc"] += 1
        kinds: dict[str, list[str]] = {}
        for eng, m in res.items():
            k = f_kind(cp, m)
            if k:
                kinds.setdefault(k, []).append(eng)
        for k, engs in kinds.items():
            out["bad"].append((e, k, engs))
        if out["sample"] is None and e["k"] == "bin" and res["mypy"][0] == "val" and sv["t"] == "int" and e["op"] in ("//", "%"):
            out["sample"] = {"expression": f_text(e), "spec": sv, "cpython": cp, "mypy": res["mypy"], "mypyc": res.get("mypyc")}
    return out


F_BINORDER = ["+", "-", "*", "/", "//", "%", "**", "&", "|", "^", "<<", ">>"]
F_UNORDER = ["+", "-", "~"]
_F_BYVALUE: dict[tuple[str, str], str] = {}


def f_token_for(value: Any) -> str | None:
    """The simplest operand token whose run-time value is exactly `value` (same type)."""
    if not _F_BYVALUE:
        for ty in F_SIMPLER:
            for t in F_SIMPLER[ty]:
                val = eval(F_TOK[t], dict(F_NS))
                _F_BYVALUE.setdefault((type(val).__name__, repr(val)), t)
    return _F_BYVALUE.get((type(value).__name__, repr(value)))


def f_reductions(e: dict[str, Any]) -> list[list[Any]]:
    """One-step simplifications: 0 a direct subexpression instead of the whole;  1 a proper subexpression
    replaced by an operand token of its run-time type (the one of equal value first);  2 an operand token replaced by a simpler
    one of the same run-time type;  3 an operator replaced by an earlier one of +,-,*,/,//,%,**,&,|,^,<<,>>."""
    g0: list[Any] = []
    if e["k"] == "un":
        g0.append(e["x"])
    elif e["k"] == "bin":
        g0 += [e["l"], e["r"]]

    def rewrite(x: dict[str, Any], leaf: Callable[[Any], list[Any]], node: Callable[[Any], list[Any]], top: bool) -> list[Any]:
        res = [] if top else node(x)
        if x["k"] == "leaf":
            return res + leaf(x)
        if x["k"] == "un":
            return res + [dict(x, x=y) for y in rewrite(x["x"], leaf, node, False)]
        return res + [dict(x, l=y) for y in rewrite(x["l"], leaf, node, False)] + [dict(x, r=y) for y in rewrite(x["r"], leaf, node, False)]

    def by_value(x: dict[str, Any]) -> list[Any]:
        if x["k"] == "leaf":
            return []
        cp = f_cpython(x)
        if cp[0] != "val" or cp[1] not in F_SIMPLER:
            return []
        try:
            same = f_token_for(eval(f_text(x), dict(F_NS)))
        except Exception:  # noqa: BLE001
            return []
        toks = ([same] if same else []) + [t for t in F_SIMPLER[cp[1]] if t != same]
        return [{"k": "leaf", "t": t} for t in toks]

    def simpler_leaf(x: dict[str, Any]) -> list[Any]:
        lst = F_SIMPLER[F_TYPE_OF[x["t"]]]
        return [dict(x, t=t) for t in lst[:lst.index(x["t"])]]

    def simpler_op(x: dict[str, Any]) -> list[Any]:
        if x["k"] == "leaf":
            return []
        order = F_UNORDER if x["k"] == "un" else F_BINORDER
        return [dict(x, op=o) for o in order[:order.index(x["op"])]]

    g1 = rewrite(e, lambda x: [], by_value, True)
    g2 = rewrite(e, simpler_leaf, lambda x: [], True)
    g3 = simpler_op(e) + rewrite(e, lambda x: [], simpler_op, True)
    return [g0, g1, g2, g3]


def f_kind_task(xs: list[Any]) -> list[str | None]:
    """All failure kinds an expression shows on any engine, joined (a candidate keeps a failure
    when the kind searched for is among them)."""
    cps = [f_cpython(e) for e in xs]
    keep = [i for i, cp in enumerate(cps) if cp[0] != "excluded"]
    my, _ = f_mypy([xs[i] for i in keep], plain=True)
    res: list[str | None] = [None] * len(xs)
    for i, r in zip(keep, my):
        ks = sorted({k for k in (f_kind(cps[i], m) for m in r.values()) if k})
        res[i] = "|".join(ks) if ks else None
    return res


def check_fold(v: Verdict, tier: str, rnd: random.Random, cov: dict[str, Any]) -> dict[str, int]:
    layers = ["L1", "L2q", "L3q"] if tier == "quick" else ["L1", "L2t", "L3t"]
    states = transitions = 0
    items: dict[str, tuple[Any, Any, bool]] = {}
    tl: dict[str, Any] = {}
    for layer in layers:
        r = tlc_checked("MC_Fold", "MC_Fold_%s.cfg" % layer)
        if r.never_fired():
            raise MachineryError("Fold actions never fired: %s" % r.never_fired())
        g = tlc_checked("MC_Fold", "Gen_Fold_%s.cfg" % layer)
        rows = g.json_lines("E")
        if len(rows) != r.distinct - 1:
            raise MachineryError("Fold %s: %d expressions emitted for %d states" % (layer, len(rows), r.distinct))
        states += r.distinct
        transitions += r.generated
        tl[layer] = dict(coverage_summary(r), states=r.distinct, transitions=r.generated, expressions=len(rows),
                         invariants=["DivModLaw", "BitLaw", "ShiftLaw", "RaisePropagates"])
        for row in rows:
            for t in re.findall(r'"t": "([a-zA-Z0-9]+)"', json.dumps(row["e"])):
                if t not in F_TOK:
                    raise MachineryError("Fold: token %r has no literal in the harness" % t)
            items.setdefault(json.dumps(row["e"], sort_keys=True), (row["e"], row["s"], layer == "L1"))
    allx = [items[k] for k in sorted(items)]
    tasks = []
    for plain in (True, False):
        sub = [(e, sv) for e, sv, p in allx if p == plain]
        per = max(500, min(3000, len(sub) // (NPROC * 2) + 1))
        tasks += [(sub[lo:lo + per], plain) for lo in range(0, len(sub), per)]
    t0 = time.time()
    outs = pool_map(f_chunk, tasks)
    drift = [d for o in outs for d in o["drift"]]
    if drift:
        raise MachineryError("Fold.tla drifts from CPython on %d expressions, e.g. %r" % (len(drift), drift[0]))
    bad = [b for o in outs for b in o["bad"]]
    engines_of: dict[str, set[str]] = {}

    def kind_batch(xs: list[Any]) -> list[str | None]:
        step = max(50, len(xs) // NPROC + 1)
        return [k for part in pool_map(f_kind_task, [xs[lo:lo + step] for lo in range(0, len(xs), step)]) for k in part]

    # a candidate "keeps the failure" when the searched kind is among the kinds it shows
    class _Kinds(str):
        def __eq__(self, other: object) -> bool:
            return isinstance(other, str) and other in self.split("|")
        __hash__ = str.__hash__

    def kind_batch2(xs: list[Any]) -> list[str | None]:
        return [None if k is None else _Kinds(k) for k in kind_batch(xs)]

    mins = minimise([(e, k) for e, k, _ in bad], f_reductions, kind_batch2, lambda e: json.dumps(e, sort_keys=True))
    for m in sorted(mins, key=lambda m: (m["kind"], f_text(m["input"], pretty=True))):
        e = m["input"]
        my, _ = f_mypy([e], plain=True, pristine=True)
        cp = f_cpython(e)
        engs = sorted(eng for eng, r_ in my[0].items() if f_kind(cp, r_) == m["kind"])
        if not engs:
            raise MachineryError("Fold failure not reproducible: %s %s" % (m["kind"], f_text(e)))
        report(v, "fold:%s:%s" % (m["kind"], f_text(e, pretty=True)),
                    {"part": "fold", "expression": f_text(e), "module": F_HEADER + ["X: Final[object] = " + f_text(e)],
                     "cpython": cp, "engines": {k: list(x) for k, x in my[0].items()}, "failing_engines": engs,
                     "explains": m["count"]},
                    "%s: `%s`: CPython %s; %s" % (m["kind"], f_text(e, pretty=True),
                                                  ("raises " + cp[1]) if cp[0] == "raise" else "gives %s %s" % (cp[1], cp[2][:60]),
                                                  "; ".join("%s %s" % (k, " ".join(x)[:80]) for k, x in sorted(my[0].items()))))
    excluded = [x for o in outs for x in o["excluded"]]
    cov["fold"] = {"expressions_replayed": sum(o["n"] for o in outs), "layers": tl,
                   "spec_predicts_value": sum(o["spec_values"] for o in outs),
                   "mypy_folds": sum(o["folded"] for o in outs), "mypyc_folds": sum(o["folded_mypyc"] for o in outs),
                   "raise_at_run_time": sum(o["raises"] for o in outs),
                   "excluded_by_size_guard": len(excluded), "excluded_examples": [x[:100] for x in excluded[:8]],
                   "mypy_builds": sum(o["builds"] for o in outs), "disagreements": len(bad), "minimal_classes": len(mins),
                   "replay_wall_s": round(time.time() - t0, 1),
                   "sample": next((o["sample"] for o in outs if o["sample"]), None)}
    return {"states": states, "transitions": transitions, "replayed": sum(o["n"] for o in outs) - len(excluded),
            "failing": len(bad), "nontrivial": sum(o["folded"] for o in outs)}


# =========================================================================== main
PARTS = ["argbind", "c3", "reach", "fold"]
ASSUMPTIONS = [
    "oracle = the CPython running the harness (3.12): real calls, real class creation, eval with a fake sys whose "
    "version_info is the 5-tuple (3, minor, micro, 'final', 0), eval of the expression text",
    "argument binding: all parameters and values are int, so every diagnostic on a call line is an arity/keyword "
    "rejection; **mappings are total TypedDicts, *iterables fixed-length tuples (the shapes whose binding mypy decides)",
    "mypy runs in-process (mypy.build.build, real typeshed, --python-version/--platform as configured per target); "
    "mypyc's constant_fold_expr is called directly on the analysed AST",
    "a discovery build that survives crashing call lines / folds is used only to find them; every verdict on a "
    "non-crashing line comes from an unmodified build and every reported minimal input is reproduced alone with unmodified mypy",
    "folding: expressions whose value would be huge (ints over 8192 bits, strings over 10^4 characters) are "
    "excluded for CPython and mypy alike and counted",
]


def replay_one(path: str) -> int:
    with open(path) as f:
        rep = json.load(f)
    d = rep["replay"]
    print("replaying", rep["key"])
    if d["part"] in ("argbind", "fold"):
        r = run_mypy("\n".join(d["module"]) + "\n")
        print("mypy:", "INTERNAL ERROR " + r.crash if r.crash_line else (r.errors or "no diagnostics"))
        print("recorded: cpython", d.get("cpython"), "mypy", d.get("mypy", d.get("engines")))
    elif d["part"] == "c3":
        print(d)
    else:
        m = re.match(r"3\.(\d+)", d["python_version"])
        assert m
        print("mypy static value:", r_mypy([d["condition"]], int(m.group(1)), d["platform"])[0], "recorded run-time value:", d["runtime_value"])
    return 0


def main(argv: list[str]) -> int:
    global _SCRATCH
    tier, seed, replay = parse_args(argv)
    _SCRATCH = scratch("c12-")
    if replay:
        return replay_one(replay)
    v = Verdict(PID, tier, seed)
    rnd = random.Random(seed)
    cov: dict[str, Any] = {}
    only = [p for p in os.environ.get("C12_ONLY", "").split(",") if p] or PARTS
    pool_start()
    mods = {"argbind": "MC_ArgBind", "c3": "MC_C3", "reach": "MC_Reach", "fold": "MC_Fold"}
    with ThreadPoolExecutor(4) as ex:
        list(ex.map(lambda part: sany(os.path.join(SPEC, mods[part] + ".tla")), only))
    tlc_prefetch(tier, seed, [p for p in PARTS if p in only])

    # specification-level mutants: the rule-level invariants must reject a wrong rule (non-vacuity)
    def spec_mutants() -> dict[str, Any]:
        res = {}
        for mod, cfg, inv, part in (("MC_Fold", "Mut_Fold_TruncDiv.cfg", "DivModLaw", "fold"),
                                    ("MC_C3", "Mut_C3_NoBaseList.cfg", "LocalPrecedence", "c3"),
                                    ("MC_Reach", "Mut_Reach_TwoTuple.cfg", "WholeNeverEqualsShort", "reach")):
            if part in only:
                rm = tlc(mod, cfg, coverage=False, workers=2)
                res[cfg] = rm.violated
                if rm.violated != inv:
                    raise MachineryError("specification mutant %s not rejected as expected: %s %s" % (cfg, rm.violated, rm.error))
        return res

    checks = {"argbind": check_argbind, "c3": check_c3, "reach": check_reach, "fold": check_fold}
    totals: dict[str, dict[str, int]] = {}

    def run_part(part: str) -> None:
        t0 = time.time()
        totals[part] = checks[part](v, tier, rnd, cov)
        totals[part]["wall_s"] = int(time.time() - t0)
        say("%s: %s" % (part, json.dumps(totals[part])))

    # the parts run side by side: the serial work of one (parsing TLC's output, minimisation) overlaps
    # the pool work of the others; all share the worker pool
    with ThreadPoolExecutor(5) as ex:
        fm = ex.submit(spec_mutants)
        futs = [ex.submit(run_part, part) for part in PARTS if part in only]
        errs = []
        for f in futs + [fm]:
            try:
                f.result()
            except MachineryError as e:
                errs.append(e)
            except BaseException as e:  # noqa: BLE001  (e.g. a SystemExit escaping from mypy)
                errs.append(MachineryError("internal error of the driver: %r" % (e,)))
        if errs:
            raise errs[0]
        cov["spec_mutants_rejected"] = fm.result()
    totals = {p: totals[p] for p in PARTS if p in totals}
    replayed = sum(t["replayed"] for t in totals.values())
    if replayed == 0 or any(t["replayed"] == 0 for t in totals.values()):
        raise MachineryError("conformance step did not run: %r" % totals)
    samples = [cov[k]["sample"] for k in cov if isinstance(cov[k], dict) and cov[k].get("sample")]
    coverage = {
        "states": sum(t["states"] for t in totals.values()),
        "transitions": sum(t["transitions"] for t in totals.values()),
        "traces_validated_against_impl": replayed,
        "evaluations": replayed,
        "distinct_nontrivial": sum(t.get("nontrivial", t.get("failing", 0)) for t in totals.values()) +
                               (cov.get("argbind/3x2", cov.get("argbind/3x3", {})).get("cpython_rejects", 0)),
        "rule": "every input TLC emits is replayed: (signature, call) pairs, class hierarchies, (condition, target) pairs, "
                "constant expressions; each is executed by CPython (oracle, also validates the specification) and given to "
                "mypy / mypyc.  non-trivial = calls CPython rejects + hierarchies with multiple inheritance + "
                "(condition, target) pairs mypy decides statically + expressions mypy folds",
        "per_part": totals,
        "inputs_disagreeing_before_minimisation": sum(t["failing"] for t in totals.values()),
        "samples": samples,
        "exhaustive": tier == "thorough" and only == PARTS,
        "exhaustive_note": "complete for the stated bounds of each part (see notes/C12.md); the 4-parameter x 4-actual "
                           "product and 6-class hierarchies are seeded samples; quick restricts the literal/target grid",
        "parts_run": only,
    }
    coverage.update(cov)
    return v.finish("model_checking", coverage, ASSUMPTIONS)


if __name__ == "__main__":
    try:
        rc = main(sys.argv[1:])
    except MachineryError as e:
        print("MACHINERY FAILURE:", e, file=sys.stderr)
        rc = 2
    if _POOL is not None:
        procs = list(getattr(_POOL, "_processes", {}).values())
        _POOL.shutdown(wait=False, cancel_futures=True)
        for pr in procs:
            pr.terminate()
    sys.exit(rc)
