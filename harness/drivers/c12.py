"""C12 -- static models of Python's runtime rules agree exactly with CPython.

Four specifications transcribe the run-time rules (spec/ArgBind.tla, C3.tla, Reach.tla, Fold.tla).
TLC enumerates the bounded input spaces stepwise, checks the rule-level invariants and emits
every input together with the specification's verdict.  Every emitted case is then bound three ways:

  (i)   executed by CPython itself (the call is made / the class is created / the condition is
        eval'ed with a fake ``sys`` / the expression is eval'ed)  -- the oracle; a difference
        between CPython and the specification is *model drift* = machinery failure (exit 2);
  (ii)  given to the real mypy (in-process ``mypy.build.build`` on big generated modules, real
        typeshed) and, for folding, to ``mypyc.irbuild.constant_fold`` directly;
  (iii) mypy != CPython in either direction (or a mypy crash) is a violation, identified by the
        1-minimal failing input (so that a new class of failure is a new key).
"""
from __future__ import annotations

import contextlib
import io
import json
import multiprocessing as mp
import os
import random
import re
import sys
import time
from concurrent.futures import ThreadPoolExecutor
from typing import Any, Callable, Iterable

from harness.common import (MachineryError, REPO, SPEC, Verdict, coverage_summary, parse_args,
                            sany, scratch, tlc)

PID = "C12"
NPROC = min(16, os.cpu_count() or 4)


# =========================================================================== mypy, in-process
_CACHE: str | None = None
_RE_MSG = re.compile(r"^main:(\d+): (error|note): (.*?)(?:  \[([a-z0-9-]+)\])?$")
_RE_CRASH = re.compile(r"^main:(\d+): error: INTERNAL ERROR", re.M)


class MypyRun:
    def __init__(self) -> None:
        self.errors: dict[int, list[tuple[str, str]]] = {}   # line -> [(text, code)]
        self.notes: dict[int, list[str]] = {}
        self.crash_line: int | None = None
        self.crash: str = ""
        self.result: Any = None


def run_mypy(text: str, pyver: tuple[int, int] = (3, 12), platform: str = "linux",
             keep_result: bool = False) -> MypyRun:
    """One in-process build of module __main__ = text with the real typeshed.

    A crash (INTERNAL ERROR) is caught: report_internal_error() first prints the messages
    produced so far, so the lines before crash_line still have their diagnostics.
    """
    global _CACHE
    from mypy import build
    from mypy.modulefinder import BuildSource
    from mypy.options import Options

    if _CACHE is None:
        _CACHE = os.path.join(_SCRATCH, "cache-%d" % os.getpid())
    o = Options()
    o.python_version = pyver
    o.platform = platform
    o.incremental = True
    o.cache_dir = _CACHE
    o.show_traceback = True
    o.many_errors_threshold = -1
    o.preserve_asts = keep_result
    o.error_summary = False
    o.color_output = False
    out = MypyRun()
    so, se = io.StringIO(), io.StringIO()
    msgs: list[str] = []
    try:
        with contextlib.redirect_stdout(so), contextlib.redirect_stderr(se):
            res = build.build([BuildSource("main", "__main__", text)], o)
        msgs = res.errors
        if keep_result:
            out.result = res
    except KeyboardInterrupt:
        raise
    except BaseException as e:  # noqa: BLE001  (SystemExit(2) after INTERNAL ERROR, or the raw exception)
        m = _RE_CRASH.search(se.getvalue())
        if not m:
            raise MachineryError("mypy failed without INTERNAL ERROR line: %r\n%s\n%s"
                                 % (e, se.getvalue()[-1500:], so.getvalue()[-1500:]))
        out.crash_line = int(m.group(1))
        tb = [ln for ln in so.getvalue().splitlines() if ln.strip()]
        last = [ln for ln in tb if re.match(r"^[A-Za-z_.]+(Error|Exception)\b", ln)]
        out.crash = (last[-1] if last else repr(e))[:200]
        msgs = so.getvalue().splitlines()
    for ln in msgs:
        m = _RE_MSG.match(ln)
        if not m:
            continue
        n = int(m.group(1))
        if m.group(2) == "error":
            out.errors.setdefault(n, []).append((m.group(3), m.group(4) or ""))
        else:
            out.notes.setdefault(n, []).append(m.group(3))
    return out


@contextlib.contextmanager
def catch_call_crashes(store: dict[int, str]) -> Any:
    """Discovery aid (wrapped from outside, never the source of a verdict on non-crashing lines):
    an exception escaping the check of one call expression is recorded for that line and the
    check of the module goes on, so that one build finds all crashing lines of a big module."""
    from mypy import checkexpr
    from mypy.types import AnyType, TypeOfAny

    orig = checkexpr.ExpressionChecker.visit_call_expr

    def wrapped(self: Any, e: Any, allow_none_return: bool = False) -> Any:
        try:
            return orig(self, e, allow_none_return)
        except Exception as exc:  # noqa: BLE001
            store.setdefault(e.line, "%s: %s" % (type(exc).__name__, exc))
            return AnyType(TypeOfAny.from_error)

    checkexpr.ExpressionChecker.visit_call_expr = wrapped  # type: ignore[method-assign]
    try:
        yield
    finally:
        checkexpr.ExpressionChecker.visit_call_expr = orig  # type: ignore[method-assign]


def run_cases_pristine(header: list[str], cases: list[str], **kw: Any) -> tuple[list[Any], int]:
    """Unmodified mypy on `header` + one line per case; per case ("ok"|"rej"|"crash", detail).
    After an INTERNAL ERROR on some line the remaining cases are re-run without it."""
    res: list[Any] = [None] * len(cases)
    start = 0
    builds = 0
    while start < len(cases):
        text = "\n".join(header + cases[start:]) + "\n"
        r = run_mypy(text, **kw)
        builds += 1
        base = len(header) + 1
        if any(n < base for n in r.errors):
            raise MachineryError("diagnostic in the generated header: %r" % {n: e for n, e in r.errors.items() if n < base})
        stop = len(cases) if r.crash_line is None else start + (r.crash_line - base)
        if r.crash_line is not None and r.crash_line < base:
            raise MachineryError("mypy crashed in the generated header: " + r.crash)
        for i in range(start, stop):
            e = r.errors.get(base + i - start)
            res[i] = ("rej", e) if e else ("ok", None)
        if r.crash_line is None:
            break
        res[stop] = ("crash", r.crash)
        start = stop + 1
    return res, builds


def run_cases(header: list[str], cases: list[str], pristine: bool = False, **kw: Any) -> tuple[list[Any], int, int]:
    """Outcome of every case line.  First a discovery build that survives crashing call lines; when
    there were none, that build ran exactly the unmodified code and is the result.  Otherwise the
    non-crashing lines are decided by a second, unmodified build (authoritative), and the lines
    that crashed are reported as crashes (each reported minimal crash is re-confirmed with
    unmodified mypy before it is printed).  Returns (outcomes, builds, lines whose outcome differed
    between the discovery build and the unmodified build)."""
    if pristine:
        res, b = run_cases_pristine(header, cases, **kw)
        return res, b, 0
    store: dict[int, str] = {}
    base = len(header) + 1
    with catch_call_crashes(store):
        r = run_mypy("\n".join(header + cases) + "\n", **kw)
    if r.crash_line is not None:   # a crash outside a call expression: fall back
        res, b = run_cases_pristine(header, cases, **kw)
        return res, b + 1, 0
    if any(n < base for n in r.errors):
        raise MachineryError("diagnostic in the generated header: %r" % {n: e for n, e in r.errors.items() if n < base})
    first: list[Any] = []
    for i in range(len(cases)):
        if base + i in store:
            first.append(("crash", store[base + i]))
        else:
            e = r.errors.get(base + i)
            first.append(("rej", e) if e else ("ok", None))
    if not store:
        return first, 1, 0
    keep = [i for i in range(len(cases)) if first[i][0] != "crash"]
    second, b = run_cases_pristine(header, [cases[i] for i in keep], **kw)
    differ = 0
    for i, out in zip(keep, second):
        if out[0] != first[i][0]:
            differ += 1
        first[i] = out
    return first, 1 + b, differ


_SCRATCH = ""


def pool_map(fn: Callable[[Any], Any], tasks: list[Any]) -> Iterable[Any]:
    if not tasks:
        return []
    ctx = mp.get_context("fork")
    with ctx.Pool(min(NPROC, len(tasks))) as p:
        return p.map(fn, tasks, chunksize=1)


# =========================================================================== 1-minimal failing inputs
def minimise(items: list[tuple[Any, str]], reductions: Callable[[Any], list[Any]],
             kind_batch: Callable[[list[Any]], list[str | None]], ident: Callable[[Any], str],
             memo: dict[str, str | None] | None = None) -> list[dict[str, Any]]:
    """Greedy descent of every failing input to a 1-minimal one (no single removal keeps the same
    kind of failure).  All current inputs are reduced together, so the real evaluations needed for
    candidates outside `memo` come in a few batches.  Returns one entry per distinct minimal input."""
    memo = {} if memo is None else memo
    for x, kind in items:
        memo[ident(x)] = kind
    cur: dict[str, dict[str, Any]] = {}
    for x, kind in items:
        e = cur.setdefault(ident(x) + "#" + kind, {"input": x, "kind": kind, "count": 0, "example": x})
        e["count"] += 1
    minimal: dict[str, dict[str, Any]] = {}
    guard = 0
    while cur:
        guard += 1
        if guard > 64:
            raise MachineryError("minimisation does not terminate")
        per = {cid: reductions(e["input"]) for cid, e in cur.items()}
        todo: dict[str, Any] = {}
        for cands in per.values():
            for c in cands:
                if ident(c) not in memo:
                    todo[ident(c)] = c
        if todo:
            ks = list(todo)
            for k, kind in zip(ks, kind_batch([todo[k] for k in ks])):
                memo[k] = kind
        nxt: dict[str, dict[str, Any]] = {}
        for cid, e in cur.items():
            step = next((c for c in per[cid] if memo[ident(c)] == e["kind"]), None)
            if step is None:
                m = minimal.setdefault(cid, {"input": e["input"], "kind": e["kind"], "count": 0, "example": e["example"]})
                m["count"] += e["count"]
            else:
                n = nxt.setdefault(ident(step) + "#" + e["kind"],
                                   {"input": step, "kind": e["kind"], "count": 0, "example": e["example"]})
                n["count"] += e["count"]
        cur = nxt
    return list(minimal.values())


# =========================================================================== ArgBind
NAMES = "abcd"
ERRBITS = {"dupkw": 1, "toomany": 2, "multiple": 4, "posonly": 8, "unexpected": 16, "missingpos": 32, "missingkw": 64}
_CPY_CLASSES = [
    (re.compile(r"got multiple values for keyword argument"), "dupkw"),
    (re.compile(r"got multiple values for argument"), "multiple"),
    (re.compile(r"takes (from )?\d+ (to \d+ )?positional arguments? but \d+ "), "toomany"),
    (re.compile(r"got some positional-only arguments passed as keyword arguments"), "posonly"),
    (re.compile(r"got an unexpected keyword argument"), "unexpected"),
    (re.compile(r"missing \d+ required positional argument"), "missingpos"),
    (re.compile(r"missing \d+ required keyword-only argument"), "missingkw"),
]


def sig_text(sig: list[dict[str, Any]], fname: str = "f", ann: bool = True) -> str:
    parts = []
    kinds = [p["k"] for p in sig]
    t = ": int" if ann else ""
    for i, p in enumerate(sig):
        nm, k = NAMES[i], p["k"]
        if k == "KO" and "VA" not in kinds and (i == 0 or kinds[i - 1] != "KO"):
            parts.append("*")
        if k == "VA":
            parts.append("*%s%s" % (nm, t))
        elif k == "VK":
            parts.append("**%s%s" % (nm, t))
        else:
            parts.append("%s%s%s" % (nm, t, (" = 0" if ann else "=0") if p["d"] else ""))
        if k == "PO" and (i + 1 == len(sig) or kinds[i + 1] != "PO"):
            parts.append("/")
    if ann:
        return "def %s(%s) -> None: ..." % (fname, ", ".join(parts))
    return "%s(%s)" % (fname, ", ".join(parts))


def call_text(call: list[dict[str, Any]], fname: str = "f", pretty: bool = False) -> str:
    parts = []
    for a in call:
        k = a["k"]
        if k == "P":
            parts.append("1")
        elif k == "K":
            parts.append("%s=1" % a["n"])
        elif k == "S":
            parts.append("*t%d" % a["l"])
        elif pretty:
            parts.append("**{%s}" % ",".join(sorted(a["ks"])))
        else:
            parts.append("**d_" + "".join(sorted(a["ks"])))
    return "%s(%s)" % (fname, ", ".join(parts))


def ab_header(names: str, maxtd: int) -> list[str]:
    import itertools
    h = ["from typing import TypedDict"]
    for k in range(maxtd + 1):
        for ks in itertools.combinations(sorted(names), k):
            nm = "".join(ks)
            h.append("TD_%s = TypedDict('TD_%s', {%s})" % (nm, nm, ", ".join("'%s': int" % x for x in ks)))
            h.append("d_%s: TD_%s" % (nm, nm))
    h += ["t0: tuple[()]", "t1: tuple[int]", "t2: tuple[int, int]"]
    return h


def ab_runtime_ns(names: str, maxtd: int) -> dict[str, Any]:
    import itertools
    ns: dict[str, Any] = {"t0": (), "t1": (1,), "t2": (1, 1)}
    for k in range(maxtd + 1):
        for ks in itertools.combinations(sorted(names), k):
            ns["d_" + "".join(ks)] = {x: 1 for x in ks}
    return ns


def cpy_bind(fn: Any, lam: Any) -> str:
    """Really make the call; '' = bound, else the class of CPython's TypeError."""
    try:
        lam(fn)
        return ""
    except TypeError as e:
        s = str(e)
        for rx, cls in _CPY_CLASSES:
            if rx.search(s):
                return cls
        return "other:" + s


_AB: dict[str, Any] = {}


def ab_eval_pairs(sigs: list[Any], calls: list[Any], pairs: list[tuple[int, int]], pristine: bool = False,
                  want_differ: bool = False) -> tuple[list[tuple[str, Any]], list[Any], int]:
    """CPython outcome and mypy outcome of every (sig index, call index) pair."""
    names = _AB["names"]
    ns = dict(ab_runtime_ns(names, _AB["maxtd"]))
    used_s = sorted({s for s, _ in pairs})
    header = ab_header(names, _AB["maxtd"])
    fns: dict[int, Any] = {}
    for s in used_s:
        src = sig_text(sigs[s], "f%d" % s)
        header.append(src)
        exec(src, ns)  # the same text mypy sees
        fns[s] = ns["f%d" % s]
    lams: dict[int, Any] = {}
    cpy: list[str] = []
    lines: list[str] = []
    for s, c in pairs:
        if c not in lams:
            lams[c] = eval("lambda f: " + call_text(calls[c], "f"), ns)
        cpy.append(cpy_bind(fns[s], lams[c]))
        lines.append(call_text(calls[c], "f%d" % s))
    my, builds, differ = run_cases(header, lines, pristine=pristine)
    if want_differ:
        return [(x, None) for x in cpy], my, builds, differ  # type: ignore[return-value]
    return [(x, None) for x in cpy], my, builds


def ab_chunk(task: tuple[list[int], int, int]) -> dict[str, Any]:
    sidx, clo, chi = task
    sigs, calls, vec = _AB["sigs"], _AB["calls"], _AB["vec"]
    pairs = [(s, c) for c in range(clo, chi) for s in sidx]
    cpy, my, builds, differ = ab_eval_pairs(sigs, calls, pairs, want_differ=True)
    out: dict[str, Any] = {"n": len(pairs), "builds": builds, "drift": [], "bad": [], "codes": {}, "cpy_rej": 0,
                           "my_rej": 0, "sample": None, "differ": differ}
    for (s, c), (cc, _), (mk, md) in zip(pairs, cpy, my):
        mask = vec[c][s]
        if (cc == "") != (mask == 0) or (cc and (cc.startswith("other:") or not (mask & ERRBITS[cc]))):
            out["drift"].append((s, c, cc, mask))
        if cc:
            out["cpy_rej"] += 1
        if mk == "rej":
            out["my_rej"] += 1
            for _, code in md:
                out["codes"][code] = out["codes"].get(code, 0) + 1
        if mk == "crash":
            out["bad"].append((s, c, "crash:" + md.split(":")[0], cc, md))
        elif mk == "ok" and cc:
            out["bad"].append((s, c, "false_accept", cc, None))
        elif mk == "rej" and not cc:
            out["bad"].append((s, c, "false_reject", cc, md))
        if out["sample"] is None and cc and mk == "rej":
            out["sample"] = {"def": sig_text(sigs[s]), "call": call_text(calls[c]), "cpython": cc, "mypy": md, "spec_mask": mask}
    return out


def ab_reductions(sig: list[Any], call: list[Any]) -> list[tuple[list[Any], list[Any]]]:
    """All inputs obtained by removing one thing: an actual, a TypedDict key, a *tuple item, a parameter."""
    res = []
    for i in range(len(call)):
        res.append((sig, call[:i] + call[i + 1:]))
    for i, a in enumerate(call):
        if a["k"] == "D":
            for k in sorted(a["ks"]):
                res.append((sig, call[:i] + [dict(a, ks=sorted(set(a["ks"]) - {k}))] + call[i + 1:]))
        if a["k"] == "S" and a["l"] > 0:
            res.append((sig, call[:i] + [dict(a, l=a["l"] - 1)] + call[i + 1:]))
    for j in range(len(sig)):
        ren = {NAMES[j]: "z"}
        for k in range(j + 1, len(sig)):
            ren[NAMES[k]] = NAMES[k - 1]
        c2 = []
        for a in call:
            if a["k"] == "K":
                c2.append(dict(a, n=ren.get(a["n"], a["n"])))
            elif a["k"] == "D":
                c2.append(dict(a, ks=sorted({ren.get(x, x) for x in a["ks"]})))
            else:
                c2.append(a)
        kws = [a["n"] for a in c2 if a["k"] == "K"]
        if len(kws) != len(set(kws)):
            continue  # keyword argument repeated: not a call
        res.append((sig[:j] + sig[j + 1:], c2))
    return res


def canon_call(call: list[Any]) -> list[Any]:
    return [dict(k=a["k"], n=a.get("n", ""), l=a.get("l", 0), ks=sorted(a.get("ks", []))) for a in call]


def ab_key(kind: str, sig: list[Any], call: list[Any]) -> str:
    return "argbind:%s:%s <- %s" % (kind, sig_text(sig, "f", ann=False), call_text(call, "f", pretty=True))


def ab_kind(cc: str, mk: str, md: Any) -> str | None:
    if mk == "crash":
        return "crash:" + md.split(":")[0]
    if mk == "ok" and cc:
        return "false_accept"
    if mk == "rej" and not cc:
        return "false_reject"
    return None


def ab_kind_batch(inputs: list[tuple[Any, Any]]) -> list[str | None]:
    """Failure kind of arbitrary (signature, call) inputs, by really running CPython and mypy."""
    if not inputs:
        return []
    sigs = [s for s, _ in inputs]
    calls = [c for _, c in inputs]
    cpy, my, _ = ab_eval_pairs(sigs, calls, [(i, i) for i in range(len(inputs))])
    return [ab_kind(cc, mk, md) for (cc, _), (mk, md) in zip(cpy, my)]


def tlc_checked(module: str, cfg: str, **kw: Any) -> Any:
    r = tlc(module, cfg, **kw)
    if r.error:
        raise MachineryError("TLC %s/%s: %s" % (module, cfg, r.error))
    if r.violated:
        raise MachineryError("specification %s violates its own invariant %s under %s (the transcription of the "
                             "run-time rule is inconsistent):\n%s" % (module, r.violated, cfg, r.trace_text[-1500:]))
    return r


def ab_space(tag: str, np_: int, na: int, g: Any, failing: list[Any], cov: dict[str, Any],
             sample_calls: int | None = None, rnd: random.Random | None = None) -> dict[str, Any]:
    """Replay one emitted signature x call space; returns the table of failures for look-up."""
    sigs_l = g.json_lines("SIGS")
    rows = g.json_lines("CALL")
    if len(sigs_l) < 1 or not rows:
        raise MachineryError("ArgBind %s: TLC emitted nothing" % tag)
    sigs = sigs_l[0]
    uniq: dict[str, Any] = {}
    for row in rows:
        uniq.setdefault(json.dumps(row["c"], sort_keys=True), row)
    rows = [uniq[k] for k in sorted(uniq)]
    if sample_calls is not None:
        assert rnd is not None
        rnd.shuffle(rows)
        rows = rows[:sample_calls]
    # calls with several **mappings in chunks of their own (only efficiency: a module in which a
    # call line crashed is checked a second time without those lines)
    rows.sort(key=lambda r: sum(1 for a in r["c"] if a["k"] == "D") >= 2)
    calls = [canon_call(r["c"]) for r in rows]
    vec = [r["v"] for r in rows]
    if any(len(x) != len(sigs) for x in vec):
        raise MachineryError("ArgBind %s: verdict vector length" % tag)
    names = NAMES[:np_] + "z"
    _AB.update(sigs=sigs, calls=calls, vec=vec, names=names, maxtd=2)
    per = max(1, 8000 // len(sigs))
    tasks = [(list(range(len(sigs))), lo, min(lo + per, len(calls))) for lo in range(0, len(calls), per)]
    t0 = time.time()
    outs = list(pool_map(ab_chunk, tasks))
    n = sum(o["n"] for o in outs)
    drift = [d for o in outs for d in o["drift"]]
    if drift:
        s, c, cc, mask = drift[0]
        raise MachineryError("ArgBind.tla drifts from CPython on %d inputs, e.g. %s <- %s: CPython %r, spec error mask %d"
                             % (len(drift), sig_text(sigs[s]), call_text(calls[c]), cc, mask))
    codes: dict[str, int] = {}
    for o in outs:
        for k, x in o["codes"].items():
            codes[k] = codes.get(k, 0) + x
    table: dict[str, str | None] = {}
    if sample_calls is None:
        pass
    for o in outs:
        for s, c, kind, cc, md in o["bad"]:
            failing.append(((sigs[s], calls[c]), kind, {"cpython": cc or "binds", "mypy": md}))
            table[json.dumps([sigs[s], calls[c]], sort_keys=True)] = kind
    kinds: dict[str, int] = {}
    for o in outs:
        for b in o["bad"]:
            kinds[b[2]] = kinds.get(b[2], 0) + 1
    cov["argbind/" + tag] = {
        "signatures": len(sigs), "calls": len(calls), "pairs_replayed": n,
        "cpython_rejects": sum(o["cpy_rej"] for o in outs), "mypy_rejects": sum(o["my_rej"] for o in outs),
        "mypy_builds": sum(o["builds"] for o in outs), "mypy_error_codes_on_call_lines": codes,
        "disagreements": kinds, "discovery_vs_unmodified_build_differences": sum(o["differ"] for o in outs),
        "replay_wall_s": round(time.time() - t0, 1),
        "sample": next((o["sample"] for o in outs if o["sample"]), None),
    }
    return {"np": np_, "na": na, "names": set(names), "table": table, "complete": sample_calls is None}


def _ab_kind_task(xs: list[Any]) -> list[str | None]:
    return ab_kind_batch(xs)


def check_argbind(v: Verdict, tier: str, rnd: random.Random, cov: dict[str, Any]) -> dict[str, int]:
    spaces = [("3x2", 3, 2)] if tier == "quick" else [("4x3", 4, 3)]
    states = transitions = 0
    failing: list[Any] = []
    tables = []
    pairs = 0
    extra = os.environ.get("C12_ARGBIND_EXTRA")  # development: e.g. "3x4" = also enumerate that space completely
    if extra:
        spaces.append((extra, int(extra[0]), int(extra[2])))
    for tag, np_, na in spaces:
        r = tlc_checked("MC_ArgBind", "MC_ArgBind_%s.cfg" % tag, coverage=False)
        g = tlc_checked("MC_ArgBind", "Gen_ArgBind_%s.cfg" % tag, workers=8, timeout=1800)
        if g.never_fired():
            raise MachineryError("ArgBind actions never fired: %s" % g.never_fired())
        states += r.distinct
        transitions += r.generated
        tables.append(ab_space(tag, np_, na, g, failing, cov))
        cov["argbind/" + tag].update(tlc=dict(coverage_summary(g), states=r.distinct, transitions=r.generated,
                                              invariants=["SigsAgree", "BindsIffWellDefined", "DefaultsRelax", "ArityMonotone"]))
        pairs += cov["argbind/" + tag]["pairs_replayed"]
    # seeded sample of the 4 x 4 space (TLC simulation picks the calls; every signature of <= 4 parameters)
    nsim = int(os.environ.get("C12_ARGBIND_NSIM", "0")) or (150 if tier == "quick" else 3000)
    g = tlc_checked("MC_ArgBind", "Gen_ArgBind_4x4sim.cfg", workers=4, simulate="num=%d" % (nsim * 2), depth=5,
                    seed=rnd.randrange(1 << 30), coverage=False)
    sampled: list[Any] = []
    ab_space("4x4-sampled", 4, 4, g, sampled, cov, sample_calls=nsim, rnd=rnd)
    pairs += cov["argbind/4x4-sampled"]["pairs_replayed"]

    def ident(x: Any) -> str:
        return json.dumps([x[0], canon_call(x[1])], sort_keys=True)

    def in_table(x: Any) -> dict[str, str | None] | None:
        sig, call = x
        used = {a["n"] for a in call if a["k"] == "K"} | {k for a in call if a["k"] == "D" for k in a["ks"]}
        for t in tables:
            if len(sig) <= t["np"] and len(call) <= t["na"] and used <= t["names"]:
                return t["table"]
        return None

    real_evals = [0]

    def kind_batch(xs: list[Any]) -> list[str | None]:
        res: list[str | None] = [None] * len(xs)
        real = []
        for i, x in enumerate(xs):
            t = in_table(x)
            if t is not None:
                res[i] = t.get(ident(x))
            else:
                real.append(i)
        _AB.update(names=NAMES + "z", maxtd=2)
        real_evals[0] += len(real)
        step = 1500
        parts = [[xs[i] for i in real[lo:lo + step]] for lo in range(0, len(real), step)]
        flat = [k for part in pool_map(_ab_kind_task, parts) for k in part]
        for i, k in zip(real, flat):
            res[i] = k
        return res

    mins = minimise([(x, kind) for x, kind, _ in failing + sampled], lambda x: ab_reductions(x[0], x[1]), kind_batch, ident)
    # reproduce every minimal failing input once more, alone, with unmodified mypy, before reporting it
    _AB.update(names=NAMES + "z", maxtd=2)
    for m in sorted(mins, key=lambda m: ab_key(m["kind"], *m["input"])):
        sig, call = m["input"]
        cpy, my, _ = ab_eval_pairs([sig], [call], [(0, 0)], pristine=True)
        again = ab_kind(cpy[0][0], my[0][0], my[0][1])
        if again != m["kind"]:
            raise MachineryError("failure not reproducible: %s, first %s then %s" % (ab_key(m["kind"], sig, call), m["kind"], again))
        key = ab_key(m["kind"], sig, call)
        v.violation(key, {"part": "argbind", "module": ab_header(NAMES + "z", 2) + [sig_text(sig), call_text(call)],
                          "kind": m["kind"], "cpython": cpy[0][0] or "binds", "mypy": my[0],
                          "explains_failing_inputs": m["count"],
                          "example_non_minimal": [sig_text(m["example"][0]), call_text(m["example"][1])]},
                    "%s: `%s` called as `%s`: CPython %s, mypy %s (1-minimal; %d explored inputs reduce to it)"
                    % (m["kind"], sig_text(sig, "f", ann=False), call_text(call, "f", pretty=True),
                       ("raises TypeError (%s)" % cpy[0][0]) if cpy[0][0] else "binds the arguments",
                       {"ok": "reports nothing", "rej": "rejects the call", "crash": "stops with INTERNAL ERROR"}[my[0][0]],
                       m["count"]))
    cov["argbind/minimal_failing_inputs"] = len(mins)
    cov["argbind/minimisation_real_evaluations"] = real_evals[0]
    return {"states": states, "transitions": transitions, "replayed": pairs,
            "failing": len(failing) + len(sampled)}


# =========================================================================== main
def main(argv: list[str]) -> int:
    global _SCRATCH
    tier, seed, replay = parse_args(argv)
    v = Verdict(PID, tier, seed)
    rnd = random.Random(seed)
    _SCRATCH = scratch("c12-")
    cov: dict[str, Any] = {}
    only = os.environ.get("C12_ONLY", "").split(",") if os.environ.get("C12_ONLY") else None
    totals = {}
    if not only or "argbind" in only:
        sany(os.path.join(SPEC, "MC_ArgBind.tla"))
        totals["argbind"] = check_argbind(v, tier, rnd, cov)
    print(json.dumps(totals))
    print(json.dumps(cov, indent=1)[:3000])
    print("violations", len(v.violations), "known", len(v.known_hit))
    return 1 if v.violations else 0


if __name__ == "__main__":
    try:
        sys.exit(main(sys.argv[1:]))
    except MachineryError as e:
        print("MACHINERY FAILURE:", e, file=sys.stderr)
        sys.exit(2)
